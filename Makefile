# Top-level build of the verification framework (offline).
#   make coq                 full .vo build of the Coq development (coq/_CoqProject is regenerated from the tree)
#   make modelrun            extraction + OCaml runner for every coq/Extract/<model>.v  -> modelrun/build/<model>
#   make modelrun MODEL=cq   ... for one model only
#   make harness             every Rust implementation runner (harness/src/bin/<model>.rs), debug profile, hooks on
#   make harness MODEL=cq    ... one only
SHELL := /bin/bash
COQDIR := coq
MR := modelrun/build
JOBS ?= 16
export CARGO_NET_OFFLINE := true
export RUSTFLAGS := --cfg tokio_unstable --cfg petrichorit_des_verif

ALLMODELS := $(patsubst coq/Extract/%.v,%,$(wildcard coq/Extract/*.v))
MODELS := $(if $(MODEL),$(MODEL),$(ALLMODELS))
VSRC := $(shell find coq -name '*.v' -not -path 'coq/Extract/*' | LC_ALL=C sort)

.PHONY: all coq modelrun harness clean coqproject
all: coq modelrun harness

# _CoqProject lists every .v below coq/ except the extraction scripts; rewritten only when the list changes
coqproject:
	@{ echo "-Q . DesVerif"; \
	   echo "-arg -w -arg -notation-overridden,-deprecated-hint-without-locality,-deprecated-instance-without-locality"; \
	   cd $(COQDIR) && find . -name '*.v' -not -path './Extract/*' | sed 's#^\./##' | LC_ALL=C sort; } > $(COQDIR)/_CoqProject.new
	@if cmp -s $(COQDIR)/_CoqProject.new $(COQDIR)/_CoqProject; then rm $(COQDIR)/_CoqProject.new; \
	 else mv $(COQDIR)/_CoqProject.new $(COQDIR)/_CoqProject; cd $(COQDIR) && coq_makefile -f _CoqProject -o Makefile; fi
	@test -f $(COQDIR)/Makefile || (cd $(COQDIR) && coq_makefile -f _CoqProject -o Makefile)

coq: coqproject
	$(MAKE) -C $(COQDIR) -j$(JOBS) $(COQTARGETS)

# extraction: coq/Extract/<m>.v must write "<m>.ml" and export a function `run : list N -> list N`
$(MR)/%.ml: coq/Extract/%.v $(VSRC)
	@mkdir -p $(MR)
	cd $(MR) && coqc -Q ../../coq DesVerif -w -notation-overridden ../../coq/Extract/$*.v >/dev/null
$(MR)/%: $(MR)/%.ml modelrun/driver.ml.in
	m=$*; M=$$(echo $${m:0:1} | tr a-z A-Z)$${m:1}; \
	sed -e "s/MODEL/$$M/g" -e 's/ENTRY/run/g' modelrun/driver.ml.in > $(MR)/main_$*.ml && \
	cd $(MR) && ocamlfind ocamlopt -package zarith -linkpkg -w -a $*.mli $*.ml main_$*.ml -o $*
.PRECIOUS: $(MR)/%.ml

modelrun: $(addprefix $(MR)/,$(MODELS))

harness:
	@test -f harness/Cargo.lock || cp /repo/Cargo.lock harness/Cargo.lock
	cd harness && cargo build --offline $(if $(MODEL),--bin $(MODEL),--bins) 2>&1 | grep -E "^(error|warning: unused)|Finished|panicked" | head -40; exit $${PIPESTATUS[0]}
	@# further harness crates (des built with other feature sets), e.g. harness_heap: des without `cqueue`
	@for h in harness_*; do [ -f $$h/Cargo.toml ] || continue; \
	  test -f $$h/Cargo.lock || cp /repo/Cargo.lock $$h/Cargo.lock; \
	  for b in $$(python3 tools/harness_bins.py $$h); do \
	    (cd $$h && cargo build --offline --bin $$b 2>&1 | grep -E "^(error|warning: unused)|Finished|panicked" | head -20; exit $${PIPESTATUS[0]}) || exit 1; \
	  done; done

clean:
	-$(MAKE) -C $(COQDIR) clean
	rm -rf $(MR) harness/target work
