# Top-level build of the verification framework (offline).
#   make coq        full .vo build of the Coq development
#   make modelrun   extraction + OCaml model runners  (modelrun/build/<model>[_spec])
#   make harness    Rust implementation runner (implrun), debug profile, hooks on
SHELL := /bin/bash
COQDIR := coq
MR := modelrun/build
JOBS ?= 16

# model name : extracted module : entry points (name=function)
MODELS := cq

.PHONY: all coq modelrun harness clean
all: coq modelrun harness

$(COQDIR)/Makefile: $(COQDIR)/_CoqProject
	cd $(COQDIR) && coq_makefile -f _CoqProject -o Makefile

coq: $(COQDIR)/Makefile
	$(MAKE) -C $(COQDIR) -j$(JOBS)

# $(call mkrunner,model,Module,entry,exe)
define mkrunner
	sed -e 's/MODEL/$(2)/g' -e 's/ENTRY/$(3)/g' modelrun/driver.ml.in > $(MR)/main_$(4).ml
	cd $(MR) && ocamlfind ocamlopt -w -a -O2 $(1).mli $(1).ml main_$(4).ml -o $(4) 2>/dev/null || \
	  (cd $(MR) && ocamlfind ocamlopt -w -a $(1).mli $(1).ml main_$(4).ml -o $(4))
endef

$(MR)/cq.ml: coq/Extract/CQ.v coq/CQueue/Model.vo coq/CQueue/Spec.vo
	mkdir -p $(MR) && cd $(MR) && coqc -Q ../../coq DesVerif ../../coq/Extract/CQ.v >/dev/null && rm -f CQ.vo CQ.glob .CQ.aux
$(MR)/cq: $(MR)/cq.ml modelrun/driver.ml.in
	$(call mkrunner,cq,Cq,run,cq)
	$(call mkrunner,cq,Cq,sp_run,cq_spec)

coq/CQueue/Model.vo coq/CQueue/Spec.vo: coq

modelrun: $(addprefix $(MR)/,$(MODELS))

harness:
	cd harness && CARGO_NET_OFFLINE=true RUSTFLAGS="--cfg tokio_unstable --cfg petrichorit_des_verif" cargo build --offline 2>&1 | tail -3

clean:
	-$(MAKE) -C $(COQDIR) clean
	rm -rf $(MR) harness/target
