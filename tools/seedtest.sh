#!/bin/bash
# usage: tools/seedtest.sh <PROP-ID> <mutation-worktree-out-dir> <i> <name>
# Confirms a seeded change in a scratch worktree (compiles, 221 tests pass, demo fails with / passes
# without), runs the property's quick check against it through a scratch copy of the harness whose path
# dependencies point at that worktree (so /repo is never touched while builders are working), and stores
# everything under /verif/seeded/<id>/<name>/.
# (The equivalent official procedure: git -C /repo apply patch.diff; python3 tools/check.py <ID>; git -C /repo checkout -- .)
set -u
ID=$1; OUT=$2; I=$3; NAME=$4
export CARGO_NET_OFFLINE=true
WT=/tmp/sv-$ID-$NAME
H=/tmp/svh-$ID-$NAME
DST=/verif/seeded/$ID/$NAME
mkdir -p $DST
git -C /repo worktree remove --force $WT 2>/dev/null; rm -rf $WT $H
git -C /repo worktree add -q $WT HEAD || exit 2
cd $WT
cp $OUT/m$I.diff $DST/patch.diff
cp $OUT/m${I}_demo.rs $DST/demo.rs
DEMO_CMD=$(python3 -c "import json;print(json.load(open('$OUT/m$I.json'))['demo_cmd'])" 2>/dev/null | sed "s#[^ ]*out/m${I}_demo.rs#$DST/demo.rs#" | sed 's/([^)]*)//g' | sed 's#^ *cd /tmp/[^ ]* *&& *##')
# the demo command copies the demo into a tests/ directory that may not exist yet
for d in $(echo "$DEMO_CMD" | grep -o '[a-z0-9_-]*/tests/' | sort -u); do mkdir -p $WT/$d; done
# demo without the change
( eval "$DEMO_CMD" ) > $DST/demo_without.log 2>&1; RC_WITHOUT=$?
git apply $DST/patch.diff || { echo "patch does not apply"; exit 2; }
( eval "$DEMO_CMD" ) > $DST/demo_with.log 2>&1; RC_WITH=$?
# remove the demo file(s) again, run the suite with the change
git status --short | grep '^??' | awk '{print $2}' | xargs -r rm -rf
unset RUSTFLAGS
TESTS=$(cargo nextest run --workspace --no-fail-fast --tool-config-file pb:/w/lib/nextest.toml --profile pb --test-threads 8 --offline 2>&1 | grep -E "Summary" | tail -1)
# my check, against this worktree
mkdir -p $H && cp -r /verif/harness/Cargo.toml /verif/harness/.cargo $H/ && ln -s /verif/harness/src $H/src && cp /verif/harness/Cargo.lock $H/ 2>/dev/null
sed -i "s#/repo/#$WT/#g" $H/Cargo.toml
# further harness crates (des built with other features), e.g. /verif/harness_heap -> ${H}_heap
XENV=""
for hx in /verif/harness_*; do
  [ -f $hx/Cargo.toml ] || continue
  sfx=${hx#/verif/harness_}
  mkdir -p ${H}_$sfx && cp -r $hx/Cargo.toml $hx/.cargo ${H}_$sfx/ && ln -s $(readlink -f $hx/src) ${H}_$sfx/src && cp $hx/Cargo.lock ${H}_$sfx/ 2>/dev/null
  sed -i "s#/repo/#$WT/#g" ${H}_$sfx/Cargo.toml
  XENV="$XENV VERIF_HARNESS_DIR_$(echo $sfx | tr a-z A-Z)=${H}_$sfx"
done
cd /verif
env $XENV VERIF_REPO_DIR=$WT VERIF_HARNESS_DIR=$H timeout 1800 python3 tools/check.py $ID --tier quick > $DST/check.log 2>&1; RC_CHECK=$?
# further parts of the same check (tools/props/<id>_<part>.py), as in the manifest's quick_cmd
idl=$(echo $ID | tr A-Z a-z)
for pf in tools/props/${idl}_*.py; do
  [ -f "$pf" ] || continue
  [ $RC_CHECK -eq 0 ] || break
  pt=$(basename $pf .py); pt=${pt#${idl}_}
  env $XENV VERIF_REPO_DIR=$WT VERIF_HARNESS_DIR=$H timeout 1800 python3 tools/check.py $ID --part $pt --tier quick >> $DST/check.log 2>&1; RC_CHECK=$?
done
VERDICT=$(grep -E "^VIOLATION" $DST/check.log | head -1); [ -z "$VERDICT" ] && VERDICT=$(grep -E "^OK" $DST/check.log | tail -1)
REPLAY=$(echo "$VERDICT" | sed -n 's/.*replay=\([^ ]*\).*/\1/p')
[ -n "$REPLAY" ] && cp /verif/$REPLAY $DST/replay.json 2>/dev/null
python3 - <<EOF
import json
j = json.load(open("$OUT/m$I.json"))
meta = {
  "property": "$ID", "name": "$NAME",
  "summary": j.get("summary"), "why_it_breaks": j.get("why_it_breaks"), "needs": j.get("needs"), "files": j.get("files"),
  "confirmed_by_lead": {
    "demo_without_change_exit": $RC_WITHOUT, "demo_with_change_exit": $RC_WITH,
    "suite_with_change": """$TESTS""".strip(),
    "demo_cmd": """$DEMO_CMD""",
  },
  "check": {"cmd": "python3 tools/check.py $ID --tier quick (harness copy pointed at a scratch worktree with patch.diff applied)",
            "exit": $RC_CHECK, "verdict": """$VERDICT"""},
}
json.dump(meta, open("$DST/meta.json", "w"), indent=1)
print("$ID/$NAME: demo without=%d with=%d | %s | check exit=%d %s" % ($RC_WITHOUT, $RC_WITH, """$TESTS""".strip(), $RC_CHECK, """$VERDICT"""))
EOF
rm -rf $WT/target $H ${H}_*
git -C /repo worktree remove --force $WT
