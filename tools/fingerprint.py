#!/usr/bin/env python3
"""Source fingerprint (DESIGN.md 4.5).

`record`  stores the commit of /repo at which every model was last validated against the code
          (all quick and thorough checks clean) in /verif/fingerprint.json.  Refuses a dirty tree.
`changed` lists the source files of /repo's *working tree* that differ from that commit
          (tracked files that differ, plus untracked source files).

A changed file is NOT an alarm.  tools/check.py multiplies the quick tier's number of generated
scripts for as long as the working tree differs from the validated commit, so that edited code
gets a deeper correspondence run immediately; the evidence file names the changed files and the factor.
"""
import json, os, subprocess, sys

VERIF = os.path.dirname(os.path.dirname(os.path.abspath(__file__)))
REPO = os.environ.get("VERIF_REPO_DIR", "/repo")
FILE = os.path.join(VERIF, "fingerprint.json")
SRC_EXT = (".rs", ".toml", ".lock", ".ndl", ".yml", ".yaml")


def git(*a):
    return subprocess.run(["git", "-C", REPO] + list(a), capture_output=True, text=True)


def changed():
    """-> (validated_commit or None, [changed files])"""
    try:
        commit = json.load(open(FILE))["commit"]
    except Exception:
        return None, ["<no fingerprint recorded>"]
    r = git("diff", "--name-only", commit, "--")
    if r.returncode != 0:
        return commit, ["<validated commit %s not found in /repo>" % commit[:10]]
    files = [f for f in r.stdout.split("\n") if f.endswith(SRC_EXT)]
    r = git("ls-files", "--others", "--exclude-standard")
    files += [f for f in r.stdout.split("\n") if f.endswith(SRC_EXT)]
    return commit, sorted(set(files))


def record():
    if git("status", "--porcelain", "--untracked-files=no").stdout.strip():
        print("refusing to record: /repo working tree is dirty"); sys.exit(1)
    commit = git("rev-parse", "HEAD").stdout.strip()
    json.dump({"commit": commit,
               "note": "commit of /repo at which all models were last validated against the code; see tools/fingerprint.py"},
              open(FILE, "w"), indent=1)
    print("recorded", commit)


if __name__ == "__main__":
    if sys.argv[1:] == ["record"]:
        record()
    else:
        c, fs = changed()
        print("validated commit:", c)
        for f in fs:
            print("changed:", f)
