#!/usr/bin/env python3
"""Prints the prompt for a mutation-seeding sub-agent: python3 tools/mutprompt.py C01 <tag> [k]"""
import json, sys, os
pid, tag = sys.argv[1], sys.argv[2]
k = int(sys.argv[3]) if len(sys.argv) > 3 else 2
P = None
for l in open(os.path.join(os.path.dirname(os.path.dirname(os.path.abspath(__file__))), "properties.jsonl")):
    p = json.loads(l)
    if p["id"] == pid: P = p
wt = "/tmp/mutc-%s-%s" % (pid, tag)
print(f"""You are testing how robust a Rust project's quality assurance is. The project is PetrichorIT/des, a discrete-event simulator (Rust workspace: des, des-cqueue, des-net-utils, des-macros, des-macros-core), git repository at /repo. You must NOT edit /repo itself and must not look at or use anything under /verif. Create your own scratch worktree and work only there:  git -C /repo worktree add {wt} HEAD   (then cd {wt}). The sandbox is offline: always export CARGO_NET_OFFLINE=true, never try to fetch or install anything. Every shell command prints a harmless conda warning first; ignore it. The workspace's .cargo/config.toml already sets `--cfg tokio_unstable`; do not set RUSTFLAGS.

Here is a semantic property that users of des rely on:

  Title: {P['title']}
  Statement: {P['statement']}
  It is meant to hold for: {P['quantifier']['text']}

Your task: produce {k} DIFFERENT, realistic changes to the des source code (each a small patch a plausible refactoring, optimisation or bug-fix attempt could introduce — not sabotage with random constants) such that each change
  (a) still compiles (the whole workspace: `cargo build --workspace --offline`),
  (b) still passes the ENTIRE existing test suite unchanged: `cargo nextest run --workspace --no-fail-fast --offline` (221 tests; or `cargo test --workspace --no-fail-fast --offline`),
  (c) BREAKS the property above, and
  (d) needs something specific to manifest — a particular interleaving or order of operations, a multi-step sequence, an unusual but legal input (boundary value, tie, wrap-around, prefix, empty case), a fault at a particular point, or two cooperating sites that each look fine alone — NOT something ordinary use would expose at once (if a trivial smoke test of the feature fails, the change is too blunt).
This is a later round: the obvious sites (the central function that implements the property, its comparison operators, its loop bounds) have been tried already. Look for the LESS obvious places the property silently depends on: helpers and conversions it calls (time arithmetic, id allocation, path handling, hashing/ordering of collections), constructors and builders with non-default options, Drop impls and reset/restart/re-use paths, rarely used public API variants that reach the same state (e.g. a second way to add, connect, send, schedule, configure or cancel), interplay of two features (e.g. the property's feature combined with restart, with limits, with a second simulation in the same process, with zero/maximal durations), or derive/proc-macro generated code. Prefer changes in different mechanisms/files for the {k} patches. Read the relevant code first and think about which invariants the property rests on.

For each change write a demonstration: a small Rust integration test file (e.g. {wt}/des/tests/mut_demo.rs or in the crate the change belongs to) or a tiny example program that uses only the crates' public API, which FAILS (assert failure / panic / wrong output) WITH the change and PASSES WITHOUT it. Verify both directions yourself (inside your worktree only; do NOT use `git stash` — the stash is shared by all worktrees of the repository and other people are working in theirs; use `git diff > x.diff`, `git apply -R x.diff`, `git apply x.diff` instead). Also confirm (a) and (b) with the change applied (without your demo file, which is not part of the patch).

Deliverables (write them under {wt}/out/, create the directory): for i = 1..{k}:  `m{{i}}.diff` (output of `git diff` for ONLY the source change, relative to HEAD, applicable with `git apply` from the repository root; must not include the demo), `m{{i}}_demo.rs` (the demonstration, with a comment on top saying where to put it and how to run it), `m{{i}}.json` with fields {{"property": "{pid}", "summary": one sentence what was changed, "why_it_breaks": ..., "needs": what specific condition is needed for it to manifest, "files": [...], "demo_cmd": the exact command to run the demo, "verified": {{"compiles": true/false, "tests_pass": "N/221", "demo_fails_with_change": true/false, "demo_passes_without": true/false}}}}. Keep the worktree in place when you finish (the lead will collect the files and remove it) but delete its build output: rm -rf {wt}/target.

In your final message list the patches with one line each and the verification numbers. Be honest: if you could not make a change that satisfies all of (a)-(d), say so rather than weakening the criteria.""")
