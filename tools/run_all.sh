#!/bin/bash
# usage: tools/run_all.sh quick|thorough [ids...]   -- runs the manifest's command of that tier for each property
cd "$(dirname "$0")/.."
tier=$1; shift
ids=${@:-C01 C02 C03 C04 C05 C06 C07 C08 C09 C10 C11 C12 C13 C14 C15 C16 C17 C18 C19 C20}
make -k all JOBS=8 >/dev/null 2>&1
for id in $ids; do
  cmd=$(python3 -c "import json;m=json.load(open('MANIFEST.json'));print([c['${tier}_cmd'] for c in m['checks'] if c['property_id']=='$id'][0])")
  s=$(date +%s); out=$(bash -c "$cmd" 2>&1); rc=$?; e=$(date +%s)
  echo "$id rc=$rc $((e-s))s :: $(echo "$out" | grep -E '^(OK|VIOLATION|KNOWN)' | cut -c1-160 | tr '\n' '|')"
done
