#!/bin/bash
# usage: tools/revtest.sh <PROP-ID> <fix-commit>
# Reverts one `fix:` commit of /repo in a scratch worktree (HEAD with that commit's diff reverse-applied) and runs the
# property's quick check (+ parts) against it: the defect the commit repaired must be reported again.
# Result: /verif/seeded/_reverts/<ID>_<commit>.json
set -u
ID=$1; C=$2
export CARGO_NET_OFFLINE=true
WT=/tmp/rv-$ID-$C
H=/tmp/rvh-$ID-$C
DST=/verif/seeded/_reverts
mkdir -p $DST
git -C /repo worktree remove --force $WT 2>/dev/null; rm -rf $WT $H ${H}_*
git -C /repo worktree add -q $WT HEAD || exit 2
cd $WT
if ! git show $C | git apply -R 2>/dev/null; then
  echo "$ID $C: revert does not apply to HEAD (later commits touch the same lines)"
  python3 - <<PY
import json
json.dump({"property":"$ID","commit":"$C","applies":False,"note":"reverse patch does not apply to HEAD: later fix commits touch the same lines"}, open("$DST/${ID}_$C.json","w"), indent=1)
PY
  cd /verif; git -C /repo worktree remove --force $WT; exit 0
fi
SUBJECT=$(git -C /repo log -1 --format=%s $C)
mkdir -p $H && cp -r /verif/harness/Cargo.toml /verif/harness/.cargo $H/ && ln -s /verif/harness/src $H/src && cp /verif/harness/Cargo.lock $H/ 2>/dev/null
sed -i "s#/repo/#$WT/#g" $H/Cargo.toml
XENV=""
for hx in /verif/harness_*; do
  [ -f $hx/Cargo.toml ] || continue
  sfx=${hx#/verif/harness_}
  mkdir -p ${H}_$sfx && cp -r $hx/Cargo.toml $hx/.cargo ${H}_$sfx/ && ln -s $(readlink -f $hx/src) ${H}_$sfx/src && cp $hx/Cargo.lock ${H}_$sfx/ 2>/dev/null
  sed -i "s#/repo/#$WT/#g" ${H}_$sfx/Cargo.toml
  XENV="$XENV VERIF_HARNESS_DIR_$(echo $sfx | tr a-z A-Z)=${H}_$sfx"
done
cd /verif
LOG=$DST/${ID}_$C.log
env $XENV VERIF_REPO_DIR=$WT VERIF_HARNESS_DIR=$H timeout 1800 python3 tools/check.py $ID --tier quick > $LOG 2>&1; RC=$?
idl=$(echo $ID | tr A-Z a-z)
for pf in tools/props/${idl}_*.py; do
  [ -f "$pf" ] || continue
  [ $RC -eq 0 ] || break
  pt=$(basename $pf .py); pt=${pt#${idl}_}
  env $XENV VERIF_REPO_DIR=$WT VERIF_HARNESS_DIR=$H timeout 1800 python3 tools/check.py $ID --part $pt --tier quick >> $LOG 2>&1; RC=$?
done
VERDICT=$(grep -E "^VIOLATION" $LOG | head -1); [ -z "$VERDICT" ] && VERDICT=$(grep -E "^OK" $LOG | tail -1)
python3 - <<PY
import json
json.dump({"property":"$ID","commit":"$C","subject":"""$SUBJECT""","applies":True,"check_exit":$RC,"verdict":"""$VERDICT"""}, open("$DST/${ID}_$C.json","w"), indent=1)
print("$ID $C: exit=$RC $VERDICT")
PY
rm -rf $WT/target $H ${H}_*
git -C /repo worktree remove --force $WT
