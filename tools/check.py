#!/usr/bin/env python3
"""Orchestrator: python3 tools/check.py <PROPERTY-ID> [--tier quick|thorough] [--replay FILE]

One run = (1) proof obligations: full .vo build of the Coq development, the
property file re-checked with its Print Assumptions output compared against an
allowlist, hygiene greps; (2) correspondence: the extracted model and the real
crates (built from /repo's working tree, hooks on) run on the same scripts and
are compared line by line; (3) property monitors evaluated on the
implementation's own outputs; (4) verdict + evidence/<id>.json.

Exit 0: property held on everything explored.  Exit 1 with
"VIOLATION property=<id> replay=<path>[ no-failing-input-found]" otherwise.
"""
import sys, os, json, time, random, subprocess, importlib, hashlib, re, shutil, glob

VERIF = os.path.dirname(os.path.dirname(os.path.abspath(__file__)))
sys.path.insert(0, os.path.join(VERIF, "tools"))
COQ = os.path.join(VERIF, "coq")
WORK = os.path.join(VERIF, "work")
# an alternative copy of the harness (path deps pointing at a scratch worktree) can be selected for experiments
HARNESS = os.environ.get("VERIF_HARNESS_DIR", os.path.join(VERIF, "harness"))


def harness_dir(P):
    """The default harness builds des with its default features.  A props module may name another harness crate
    (P.HARNESS = "harness_heap": des built WITHOUT the cqueue feature); VERIF_HARNESS_DIR_<SUFFIX> overrides it."""
    name = getattr(P, "HARNESS", "harness")
    if name == "harness":
        return HARNESS
    suffix = name.split("_", 1)[1].upper() if "_" in name else name.upper()
    return os.environ.get("VERIF_HARNESS_DIR_" + suffix, os.path.join(VERIF, name))
NPROC = 16

ALLOWED_AXIOMS = {
    # axioms declared by the standard library itself that a theorem may depend on
    "functional_extensionality_dep", "proof_irrelevance", "classic", "JMeq_eq", "eq_rect_eq",
    "FunctionalExtensionality.functional_extensionality_dep", "Eqdep.Eq_rect_eq.eq_rect_eq",
}

ENV = dict(os.environ)
ENV["CARGO_NET_OFFLINE"] = "true"
ENV["RUSTFLAGS"] = "--cfg tokio_unstable --cfg petrichorit_des_verif"


def sh(cmd, cwd=VERIF, timeout=3600, env=None):
    p = subprocess.run(cmd, shell=True, cwd=cwd, stdout=subprocess.PIPE, stderr=subprocess.STDOUT,
                       timeout=timeout, env=env or ENV, text=True)
    return p.returncode, p.stdout


class Violation(Exception):
    pass


# ----------------------------------------------------------------------------- proofs
def check_proofs(P, ev):
    """Build the Coq development, re-check the property file, gate on assumptions/hygiene."""
    problems = []
    targets = [P.COQ_PROP[:-2] + ".vo"]
    if os.path.exists(os.path.join(COQ, "Refuted", os.path.basename(P.COQ_PROP))):
        targets.append("Refuted/" + os.path.basename(P.COQ_PROP)[:-2] + ".vo")
    rc, out = sh("make coq JOBS=%d COQTARGETS='%s'" % (NPROC, " ".join(targets)), timeout=3000)
    if rc != 0:
        tail = "\n".join(out.splitlines()[-25:])
        problems.append("Coq build failed:\n" + tail)
        return problems, {}
    # hygiene: nothing admitted, no axioms declared, no checker switches
    bad = re.compile(r"\b(Admitted|admit|Axiom|Axioms|Parameter|Parameters|Conjecture|Admit Obligations|Unset Guard Checking|"
                     r"bypass_check|Unset Positivity Checking|Unset Universe Checking|type-in-type|impredicative-set)\b")
    hyg_files = []
    for d in P.COQ_DIRS:
        hyg_files += glob.glob(os.path.join(COQ, d, "*.v"))
    for f in [P.COQ_PROP, "Refuted/" + os.path.basename(P.COQ_PROP), "Extract/%s.v" % P.MODEL]:
        if os.path.exists(os.path.join(COQ, f)):
            hyg_files.append(os.path.join(COQ, f))
    for f in hyg_files:
        txt = open(f).read()
        txt_nc = re.sub(r"\(\*.*?\*\)", "", txt, flags=re.S)  # strip comments
        for m in bad.finditer(txt_nc):
            problems.append("hygiene: %s contains '%s'" % (os.path.relpath(f, VERIF), m.group(0)))
        for m in re.finditer(r"^\s*(Variable|Variables|Hypothesis|Hypotheses|Context)\b", txt_nc, flags=re.M):
            # allowed only inside a Section
            pre = txt_nc[:m.start()]
            if len(re.findall(r"^\s*Section\s", pre, flags=re.M)) <= len(re.findall(r"^\s*End\s", pre, flags=re.M)):
                problems.append("hygiene: %s has %s outside a Section" % (os.path.relpath(f, VERIF), m.group(1)))
    # property file: compile on its own, capture Print Assumptions
    pf = os.path.join(COQ, P.COQ_PROP)
    rc, out = sh("coqc -Q . DesVerif -w -notation-overridden %s" % P.COQ_PROP, cwd=COQ, timeout=600)
    if rc != 0:
        problems.append("property file %s does not check:\n%s" % (P.COQ_PROP, "\n".join(out.splitlines()[-20:])))
        return problems, {}
    src = re.sub(r"\(\*.*?\*\)", "", open(pf).read(), flags=re.S)
    theorems = re.findall(r"^\s*Theorem\s+(\w+)", src, flags=re.M)
    printed = re.findall(r"^\s*Print Assumptions\s+(\w+)\s*\.", src, flags=re.M)
    for t in getattr(P, "THEOREMS", []):
        if t not in theorems:
            problems.append("expected theorem %s missing from %s" % (t, P.COQ_PROP))
    for t in theorems:
        if t not in printed:
            problems.append("theorem %s has no Print Assumptions" % t)
    # parse the assumption blocks: either 'Closed under the global context' or 'Axioms:' + lines
    blocks = []
    cur = None
    for line in out.splitlines():
        if line.startswith("Closed under the global context"):
            blocks.append([])
            cur = None
        elif line.startswith("Axioms:"):
            cur = []
            blocks.append(cur)
        elif cur is not None:
            m = re.match(r"^(\S+)\s*:", line)
            if m:
                cur.append(m.group(1))
    axioms = {}
    if len(blocks) != len(printed):
        problems.append("could not match Print Assumptions output (%d blocks, %d commands)" % (len(blocks), len(printed)))
    else:
        for t, b in zip(printed, blocks):
            axioms[t] = b
            for a in b:
                if a.split(".")[-1] not in {x.split(".")[-1] for x in ALLOWED_AXIOMS}:
                    problems.append("theorem %s depends on non-allowlisted axiom %s" % (t, a))
    # thorough tier: independent re-check of the compiled closure with coqchk, axioms listed by -o
    if os.environ.get("VERIF_COQCHK") == "1":
        mod = "DesVerif." + P.COQ_PROP[:-2].replace("/", ".")
        rc, out2 = sh("coqchk -silent -o -Q . DesVerif %s" % mod, cwd=COQ, timeout=3000)
        m = re.search(r"\* Axioms:(.*?)\n\s*\n\* Constants", out2, flags=re.S)
        ax_txt = m.group(1).strip() if m else "?"
        ev["coqchk"] = {"exit": rc, "axioms": ax_txt,
                        "type_in_type": "relying on type-in-type: <none>" in out2,
                        "unsafe_fix": "unsafe (co)fixpoints: <none>" in out2,
                        "positivity": "positivity is assumed: <none>" in out2}
        if rc != 0:
            problems.append("coqchk rejects the compiled closure of %s:\n%s" % (mod, "\n".join(out2.splitlines()[-10:])))
        elif ax_txt != "<none>":
            names = [l.split(":")[0].strip() for l in ax_txt.splitlines() if l.strip()]
            for a in names:
                if a.split(".")[-1] not in {x.split(".")[-1] for x in ALLOWED_AXIOMS}:
                    problems.append("coqchk: closure of %s depends on non-allowlisted axiom %s" % (mod, a))
        if rc == 0 and not all(ev["coqchk"][k] for k in ("type_in_type", "unsafe_fix", "positivity")):
            problems.append("coqchk: closure of %s relies on a switched-off kernel check" % mod)
    # obligations = Qed-closed statements in the property's dependency closure
    nq = 0
    for d in P.COQ_DIRS + ["Properties"]:
        for f in glob.glob(os.path.join(COQ, d, "*.v")):
            if d == "Properties" and os.path.basename(f) != os.path.basename(P.COQ_PROP):
                continue
            nq += len(re.findall(r"\bQed\.", re.sub(r"\(\*.*?\*\)", "", open(f).read(), flags=re.S)))
    ev["obligations"] = nq
    ev["discharged"] = nq if not problems else 0
    ev["theorems"] = theorems
    ev["axioms_per_theorem"] = axioms
    return problems, axioms


# ----------------------------------------------------------------------------- runners
def build_runners(P):
    problems = []
    rc, out = sh("make modelrun MODEL=%s" % P.MODEL, timeout=1200)
    if rc != 0:
        problems.append("model runner build failed:\n" + "\n".join(out.splitlines()[-20:]))
    hd = harness_dir(P)
    if not os.path.exists(os.path.join(hd, "Cargo.lock")):
        # offline resolution needs a lock file; /repo's lock pins every crate the harness uses
        shutil.copy("/repo/Cargo.lock", os.path.join(hd, "Cargo.lock"))
    rc, out = sh("cargo build --offline --bin %s 2>&1" % P.IMPL, cwd=hd, timeout=3000)
    if rc != 0:
        errs = [l for l in out.splitlines() if l.startswith("error")][:10]
        problems.append("implrun does not build against /repo's working tree:\n" + "\n".join(errs or out.splitlines()[-20:]))
    return problems


def run_sharded(cmd, lines, tag, timeout=900):
    """Feed lines (strings) to NPROC copies of cmd; return list of output lines (same order).
    A runner that dies (abort, watchdog) yields fewer lines than it was fed: the first missing line is the script
    that killed it (marked CRASH); the rest of that shard is re-run in a fresh process, all shards in parallel,
    for a few rounds."""
    os.makedirs(WORK, exist_ok=True)
    n = len(lines)
    if n == 0:
        return []
    k = min(NPROC, max(1, n // 20))
    shards = [lines[i::k] for i in range(k)]
    got = [[] for _ in range(k)]

    def launch(i, rest, rnd):
        fin = os.path.join(WORK, "%s_in_%d_%d.txt" % (tag, i, rnd))
        fout = os.path.join(WORK, "%s_out_%d_%d.txt" % (tag, i, rnd))
        with open(fin, "w") as f:
            f.write("\n".join(rest) + "\n")
        p = subprocess.Popen("exec " + cmd, shell=True, stdin=open(fin), stdout=open(fout, "w"),
                             stderr=subprocess.DEVNULL, env=ENV, cwd=VERIF)
        return p, fout

    for rnd in range(5):
        todo = [i for i in range(k) if len(got[i]) < len(shards[i])]
        if not todo:
            break
        procs = [(i,) + launch(i, shards[i][len(got[i]):], rnd) for i in todo]
        t_end = time.time() + (timeout if rnd == 0 else min(timeout, 180))
        for i, p, fout in procs:
            try:
                p.wait(timeout=max(1, t_end - time.time()))
            except subprocess.TimeoutExpired:
                p.kill()
                p.wait()
            out = open(fout).read().split("\n")
            if out and out[-1] == "":
                out.pop()
            need = len(shards[i]) - len(got[i])
            got[i] += out[:need]
            if len(got[i]) < len(shards[i]):
                got[i].append("CRASH")      # the script the runner died on (or was killed at)
    for i in range(k):
        got[i] += ["CRASH"] * (len(shards[i]) - len(got[i]))
    res = [None] * n
    for i in range(k):
        for j2, o in enumerate(got[i]):
            res[i + j2 * k] = o
    return res


def impl_cmd(P):
    return os.path.join(harness_dir(P), "target", "debug", P.IMPL)


def model_cmd(P):
    return os.path.join(VERIF, "modelrun", "build", P.MODEL)


def to_line(script):
    return " ".join(str(x) for x in script)


def parse_out(line):
    if line is None or line == "CRASH":
        return None
    try:
        return [int(x) for x in line.split()]
    except ValueError:
        return None


# ----------------------------------------------------------------------------- in-Coq cross-check
def coq_crosscheck(P, scripts, model_outs):
    """Evaluate a sample inside Coq with vm_compute and compare with the extracted runner."""
    if not scripts:
        return 0, None
    os.makedirs(WORK, exist_ok=True)
    f = os.path.join(WORK, "cases_%s.v" % P.ID)

    def lst(xs):
        return "[" + "; ".join(str(x) for x in xs) + "]"
    with open(f, "w") as h:
        h.write("From Coq Require Import List NArith.\nImport ListNotations.\nOpen Scope N_scope.\n")
        h.write("From DesVerif Require Import %s.\n" % P.COQ_MODULE)
        h.write("Definition inputs : list (list N) := [\n  " + ";\n  ".join(lst(s) for s in scripts) + "].\n")
        h.write("Definition expected : list (list N) := [\n  " + ";\n  ".join(lst(o) for o in model_outs) + "].\n")
        h.write("Definition leq (a b : list N) : bool := if list_eq_dec N.eq_dec a b then true else false.\n")
        h.write("Fixpoint all2 (a b : list (list N)) : bool := match a, b with [], [] => true | x :: a', y :: b' => andb (leq x y) (all2 a' b') | _, _ => false end.\n")
        h.write("Goal all2 (map %s inputs) expected = true. Proof. vm_compute. reflexivity. Qed.\n" % P.RUN_FN)
    rc, out = sh("coqc -Q %s DesVerif -w -notation-overridden %s" % (COQ, f), cwd=WORK, timeout=900)
    if rc != 0:
        return len(scripts), "in-Coq evaluation (vm_compute) disagrees with the extracted runner:\n" + "\n".join(out.splitlines()[-8:])
    return len(scripts), None


# ----------------------------------------------------------------------------- shrinking
def shrink(P, script, fails):
    """Delta debugging over the operations of a script; `fails(script)` must stay true."""
    if not hasattr(P, "split"):
        return script
    hdr, ops = P.split(script)
    cur = ops
    n = 2
    budget = 400
    t_end = time.time() + 90       # wall-clock cap: a failing script may be one that hangs until the watchdog fires
    while len(cur) >= 2 and budget > 0 and time.time() < t_end:
        chunk = max(1, len(cur) // n)
        reduced = False
        for i in range(0, len(cur), chunk):
            cand = cur[:i] + cur[i + chunk:]
            budget -= 1
            if fails(P.join(hdr, cand)):
                cur = cand
                n = max(n - 1, 2)
                reduced = True
                break
            if budget <= 0 or time.time() > t_end:
                break
        if not reduced:
            if chunk == 1:
                break
            n = min(len(cur), n * 2)
    return P.join(hdr, cur)


def model_script(P, script, impl_out):
    """Two-pass properties: the model's input is the script plus oracle values (random draws, float results)
    that only the implementation's run can supply; P.model_input(script, impl_out) appends them."""
    if hasattr(P, "model_input") and impl_out is not None:
        try:
            return P.model_input(script, impl_out)
        except Exception:
            return script
    return script


def run_one(P, script):
    line = to_line(script)
    pi = subprocess.run("exec " + impl_cmd(P), shell=True, input=line + "\n", stdout=subprocess.PIPE,
                        stderr=subprocess.DEVNULL, text=True, env=ENV, timeout=120)
    io = pi.stdout.strip().split("\n")[0] if pi.stdout.strip() else "CRASH"
    mline = to_line(model_script(P, script, parse_out(io)))
    pm = subprocess.run("exec " + model_cmd(P), shell=True, input=mline + "\n", stdout=subprocess.PIPE,
                        stderr=subprocess.DEVNULL, text=True, env=ENV, timeout=120)
    mo = pm.stdout.strip().split("\n")[0] if pm.stdout.strip() else "CRASH"
    return parse_out(io), parse_out(mo)


# ----------------------------------------------------------------------------- known findings
def load_known(pid):
    known, fixed = [], []
    path = os.path.join(VERIF, "known_findings.txt")
    if os.path.exists(path):
        for line in open(path):
            line = line.strip()
            if not line or line.startswith("#"):
                continue
            m = re.match(r"known:\s+property=(\S+)\s+class=(\S+)\s+(.*)", line)
            if m and m.group(1) == pid:
                known.append((m.group(2), m.group(3)))
            m = re.match(r"fixed:\s+property=(\S+)\s+(\S+)\s+(.*)", line)
            if m and m.group(1) == pid:
                fixed.append((m.group(2), m.group(3)))
    return known, fixed


# ----------------------------------------------------------------------------- main
def write_replay(P, name, obj):
    if getattr(P, "PART", None):
        name = P.PART + "_" + name
    d = os.path.join(VERIF, "replays", P.ID)
    os.makedirs(d, exist_ok=True)
    path = os.path.join(d, name)
    with open(path, "w") as f:
        json.dump(obj, f, indent=1)
    return path


def main():
    args = sys.argv[1:]
    if not args:
        print(__doc__)
        sys.exit(2)
    pid = args[0].upper()
    tier = os.environ.get("VERIF_TIER", "quick")
    replay = None
    part = None     # a further model/implementation pair that serves the same property (tools/props/<id>_<part>.py)
    i = 1
    while i < len(args):
        if args[i] == "--tier":
            tier = args[i + 1]; i += 2
        elif args[i] == "--replay":
            replay = args[i + 1]; i += 2
        elif args[i] == "--part":
            part = args[i + 1]; i += 2
        else:
            i += 1
    seed = int(os.environ.get("VERIF_SEED", "20260925"))
    if tier == "thorough":
        os.environ.setdefault("VERIF_COQCHK", "1")
    P = importlib.import_module("props." + pid.lower() + ("_" + part if part else ""))
    t_start = time.time()

    if replay:
        obj = json.load(open(replay))
        problems = build_runners(P)
        if problems:
            print("\n".join(problems)); sys.exit(2)
        if "script" in obj:
            io, mo = run_one(P, obj["script"])
            print("script :", obj["script"])
            print("pretty :", P.pretty(obj["script"]) if hasattr(P, "pretty") else "")
            print("impl   :", io)
            print("model  :", mo)
            print("monitor:", P.monitor(obj["script"], io) if io is not None else "impl crashed")
            sys.exit(0 if io == mo and io is not None and P.monitor(obj["script"], io) is None else 1)
        print("replay names a broken obligation, not an input:", obj.get("broken"))
        sys.exit(1)

    ev = {}
    cov = {}
    verdict_lines = []
    exit_code = 0

    # (1) proofs
    proof_problems, axioms = check_proofs(P, cov)
    # (2) runners
    build_problems = build_runners(P)
    known, fixed = load_known(pid)

    scripts, impl_outs, model_outs = [], [], []
    diffs, monfails, knownhits = [], [], {}
    mech = {}
    n_nontrivial = set()
    exhaustive_done = False
    xcheck_n, xcheck_err = 0, None
    if not build_problems:
        rng = random.Random(seed)
        # corpus first
        # a part has its own script language: its corpus lives in corpus/<id>_<part>/
        cdir = os.path.join(VERIF, "corpus", pid + ("_" + part if part else ""))
        for f in sorted(glob.glob(os.path.join(cdir, "*.txt"))):
            for line in open(f):
                line = line.split("#")[0].strip()
                if line:
                    scripts.append([int(x) for x in line.split()])
        n_corpus = len(scripts)
        n_gen = P.QUICK_N if tier == "quick" else P.THOROUGH_N
        # source fingerprint (DESIGN.md 4.5): code that differs from the commit the models were last validated
        # against is not an alarm, but it gets a deeper quick run straight away
        import fingerprint
        fp_commit, fp_changed = fingerprint.changed()
        fp_scale = 1
        if fp_changed and tier == "quick":
            fp_scale = int(os.environ.get("VERIF_FP_SCALE", "4"))
            n_gen *= fp_scale
        cov["source_fingerprint"] = {"validated_commit": fp_commit, "changed_files": fp_changed[:40],
                                     "quick_generation_factor": fp_scale}
        scripts += list(P.gen(rng, n_gen))
        if tier == "thorough" and hasattr(P, "exhaustive"):
            ex = list(P.exhaustive())
            scripts += ex
            exhaustive_done = True
            cov["exhaustive_cases"] = len(ex)
        lines = [to_line(s) for s in scripts]
        impl_raw = run_sharded(impl_cmd(P), lines, "impl_" + pid)
        mscripts = [model_script(P, sc, parse_out(a)) for sc, a in zip(scripts, impl_raw)]
        model_raw = run_sharded(model_cmd(P), [to_line(x) for x in mscripts], "model_" + pid)
        seen = set()
        for s, a, b in zip(scripts, impl_raw, model_raw):
            io, mo = parse_out(a), parse_out(b)
            impl_outs.append(io); model_outs.append(mo)
            if mo is None:
                proof_problems.append("model runner crashed on script %s" % to_line(s)[:200])
                continue
            msg = None
            if io is None or io == [666]:
                msg = "implementation crashed (escaped panic / abort)"
            else:
                msg = P.monitor(s, io)
            for m in (P.mechanisms(s, io if io else []) if hasattr(P, "mechanisms") else []):
                mech[m] = mech.get(m, 0) + 1
            if hasattr(P, "nontrivial") and io is not None and P.nontrivial(s, io):
                h = hashlib.sha1(to_line(s).encode()).hexdigest()
                n_nontrivial.add(h)
            if msg is not None:
                cls = P.known_class(s, io, mo) if hasattr(P, "known_class") else None
                if cls is not None and cls in [k for k, _ in known]:
                    knownhits[cls] = knownhits.get(cls, 0) + 1
                    continue
                monfails.append((s, io, mo, msg))
            elif io != mo:
                cls = P.known_class(s, io, mo) if hasattr(P, "known_class") else None
                if cls is not None and cls in [k for k, _ in known]:
                    knownhits[cls] = knownhits.get(cls, 0) + 1
                    continue
                diffs.append((s, io, mo))
        # (3) extraction cross-check inside Coq on a sample
        if not proof_problems:
            idx = list(range(len(scripts)))
            rng2 = random.Random(seed + 1)
            rng2.shuffle(idx)
            take = [j for j in idx if model_outs[j] is not None and len(mscripts[j]) <= 400][:getattr(P, "XCHECK_N", 50)]
            xcheck_n, xcheck_err = coq_crosscheck(P, [mscripts[j] for j in take], [model_outs[j] for j in take])
            if xcheck_err:
                proof_problems.append(xcheck_err)

    # known findings: re-demonstrate each listed class on the current build
    if not build_problems:
        for cls, text in known:
            w = P.known_witness(cls) if hasattr(P, "known_witness") else None
            shown = False
            if w is not None:
                io, mo = run_one(P, w)
                shown = (io is None) or (P.monitor(w, io) is not None) or (io != mo)
            if shown:
                print("KNOWN-FINDING: property=%s %s" % (pid, text))

    # (4) verdict
    def fails_mon(s):
        io, mo = run_one(P, s)
        return io is None or io == [666] or P.monitor(s, io) is not None

    def fails_diff(s):
        io, mo = run_one(P, s)
        return io != mo

    if monfails:
        s, io, mo, msg = min(monfails, key=lambda x: len(x[0]))
        s2 = shrink(P, s, fails_mon)
        io2, mo2 = run_one(P, s2)
        msg2 = "implementation crashed" if io2 is None or io2 == [666] else P.monitor(s2, io2)
        path = write_replay(P, "violation_%s.json" % tier, {
            "property": pid, "kind": "property monitor failed on the implementation",
            "script": s2, "pretty": P.pretty(s2) if hasattr(P, "pretty") else None,
            "impl": io2, "model": mo2, "monitor": msg2, "contradicts": getattr(P, "THEOREMS", []),
            "unshrunk_script": s, "seed": seed, "count": len(monfails)})
        verdict_lines.append("VIOLATION property=%s replay=%s" % (pid, os.path.relpath(path, VERIF)))
        exit_code = 1
    elif diffs or build_problems or proof_problems:
        # correspondence or a proof obligation broke; directed search for a failing input
        found = None
        if diffs and not build_problems:
            s, io, mo = min(diffs, key=lambda x: len(x[0]))
            s2 = shrink(P, s, fails_diff)
            rng3 = random.Random(seed + 7)
            extra = list(P.gen(rng3, (P.QUICK_N if tier == "quick" else P.THOROUGH_N) * (3 if tier == "quick" else 1)))
            if hasattr(P, "around"):
                extra = list(P.around(rng3, s2, 3000)) + extra
            lines = [to_line(x) for x in extra]
            impl_raw = run_sharded(impl_cmd(P), lines, "impl2_" + pid)
            for x, a in zip(extra, impl_raw):
                io3 = parse_out(a)
                m3 = "implementation crashed" if io3 is None or io3 == [666] else P.monitor(x, io3)
                if m3 is not None:
                    cls = P.known_class(x, io3, None) if hasattr(P, "known_class") else None
                    if cls is not None and cls in [k for k, _ in known]:
                        continue
                    found = (x, io3, m3)
                    break
            if found:
                x, io3, m3 = found
                x2 = shrink(P, x, fails_mon)
                io4, mo4 = run_one(P, x2)
                path = write_replay(P, "violation_%s.json" % tier, {
                    "property": pid, "kind": "property monitor failed on the implementation (found by directed search after a correspondence break)",
                    "script": x2, "pretty": P.pretty(x2) if hasattr(P, "pretty") else None,
                    "impl": io4, "model": mo4,
                    "monitor": "implementation crashed" if io4 is None or io4 == [666] else P.monitor(x2, io4),
                    "contradicts": getattr(P, "THEOREMS", []), "seed": seed})
                verdict_lines.append("VIOLATION property=%s replay=%s" % (pid, os.path.relpath(path, VERIF)))
            else:
                io2, mo2 = run_one(P, s2)
                path = write_replay(P, "broken_%s.json" % tier, {
                    "property": pid, "broken": "correspondence model=%s (coq/%s) vs implrun %s" % (P.MODEL, P.COQ_DIRS[-1], P.IMPL),
                    "script": s2, "pretty": P.pretty(s2) if hasattr(P, "pretty") else None,
                    "impl": io2, "model": mo2, "disagreements": len(diffs), "seed": seed,
                    "note": "outputs differ; the property monitor did not fail on this or on any input of the directed search"})
                verdict_lines.append("VIOLATION property=%s replay=%s no-failing-input-found" % (pid, os.path.relpath(path, VERIF)))
        else:
            path = write_replay(P, "broken_%s.json" % tier, {
                "property": pid,
                "broken": (build_problems + proof_problems),
                "theorems": getattr(P, "THEOREMS", []),
                "note": "a proof obligation or the harness build no longer checks; no failing input could be searched for or none was found"})
            verdict_lines.append("VIOLATION property=%s replay=%s no-failing-input-found" % (pid, os.path.relpath(path, VERIF)))
        exit_code = 1

    # evidence
    samples = []
    for j in range(min(3, len(scripts))):
        k = (j * 7919) % len(scripts)
        samples.append({"script": to_line(scripts[k])[:600],
                        "pretty": (P.pretty(scripts[k])[:600] if hasattr(P, "pretty") else None),
                        "impl_out": to_line(impl_outs[k] or [])[:300]})
    cov.update({
        "checker_cmd": "make -C /verif coq (coq_makefile full .vo build, coqc 8.16.1) && coqc Properties/%s.v" % pid,
        "trusted_base": [
            "Coq 8.16.1 kernel (coqc, vm_compute used in Examples/cases.v; native_compute not used)",
            "axioms per theorem as printed by Print Assumptions: " + json.dumps(axioms),
            "extraction with ExtrOcamlBasic only (bool, option, unit, list, prod, sumbool -> OCaml; N/positive/nat stay inductive), OCaml 4.13.1, modelrun/driver.ml.in (zarith only for decimal text <-> binary N conversion)",
            "correspondence harness: /verif/harness (implrun %s), tools/check.py, tools/props/%s.py generators and monitors" % (P.IMPL, pid.lower()),
        ] + list(getattr(P, "TRUSTED", [])),
        "evaluations": len(scripts),
        "distinct_nontrivial": len(n_nontrivial),
        "rule": getattr(P, "RULE", ""),
        "samples": samples,
        "traces_validated_against_impl": len([1 for a, b in zip(impl_outs, model_outs) if a is not None and a == b]),
        "disagreements": len(diffs),
        "monitor_failures": len(monfails),
        "known_finding_hits": knownhits,
        "mechanism_histogram": mech,
        "in_coq_crosscheck_cases": xcheck_n,
        "exhaustive": bool(exhaustive_done),
        "proof_problems": proof_problems, "build_problems": build_problems,
    })
    evidence = {
        "property_id": pid, "tier": tier, "seed": seed, "level": "proof",
        "coverage": cov,
        "assumptions": list(getattr(P, "ASSUMPTIONS", [])),
        "wall_s": round(time.time() - t_start, 2),
        "violations": 1 if exit_code else 0,
    }
    os.makedirs(os.path.join(VERIF, "evidence"), exist_ok=True)
    evpath = os.path.join(VERIF, "evidence", pid + ".json")
    SUMKEYS = ("evaluations", "distinct_nontrivial", "traces_validated_against_impl", "obligations", "discharged",
               "disagreements", "monitor_failures", "in_coq_crosscheck_cases")
    if not part:
        # totals of a check = its main pair plus every further part (tools/props/<id>_<part>.py); the main run
        # remembers its own counts so that re-running a part replaces that part's share instead of adding to it
        cov["main_counts"] = {k: cov.get(k, 0) for k in SUMKEYS}
        cov["main_violations"] = evidence["violations"]
        cov["main_wall_s"] = evidence["wall_s"]
    elif os.path.exists(evpath):
        main_ev = json.load(open(evpath))
        mc = main_ev["coverage"]
        if "main_counts" in mc:
            cov["part_violations"] = evidence["violations"]
            cov["part_wall_s"] = evidence["wall_s"]
            mc.setdefault("parts", {})[part] = cov
            for k in SUMKEYS:
                mc[k] = mc["main_counts"].get(k, 0) + sum(pc.get(k, 0) for pc in mc["parts"].values())
            main_ev["wall_s"] = round(mc.get("main_wall_s", 0) + sum(pc.get("part_wall_s", 0) for pc in mc["parts"].values()), 2)
            main_ev["violations"] = max([mc.get("main_violations", 0)] + [pc.get("part_violations", 0) for pc in mc["parts"].values()])
            evidence = main_ev
    with open(evpath, "w") as f:
        json.dump(evidence, f, indent=1)
    for l in verdict_lines:
        print(l)
    if exit_code == 0:
        print("OK property=%s%s tier=%s scripts=%d nontrivial=%d obligations=%d wall=%.1fs" % (
            pid, (" part=" + part) if part else "", tier, len(scripts), len(n_nontrivial), cov.get("obligations", 0), time.time() - t_start))
    sys.exit(exit_code)


if __name__ == "__main__":
    main()
