#!/usr/bin/env python3
"""Writes MANIFEST.json from the table below (kept in one place so it stays valid)."""
import json, os
VERIF = os.path.dirname(os.path.dirname(os.path.abspath(__file__)))
props = {}
for l in open(os.path.join(VERIF, "properties.jsonl")):
    p = json.loads(l); props[p["id"]] = p

import importlib, sys
sys.path.insert(0, os.path.join(VERIF, "tools"))
# every tools/props/cNN.py that defines CLAIM = dict(text=..., note=..., technique=..., design=...) is claimed
# only properties listed in claimed.txt (maintained by the lead after the check passed on the unchanged tree)
ENABLED = set(open(os.path.join(VERIF, "claimed.txt")).read().split())
CLAIMED = {}
for pid in sorted(props):
    try:
        mod = importlib.import_module("props." + pid.lower())
    except ModuleNotFoundError:
        continue
    if getattr(mod, "CLAIM", None) and pid in ENABLED:
        CLAIMED[pid] = mod.CLAIM
NOT_APPLICABLE = {}
# further model/implementation pairs serving one property: tools/props/<id>_<part>.py
PARTS = {}
for f in sorted(os.listdir(os.path.join(VERIF, "tools", "props"))):
    import re as _re
    m = _re.match(r"(c\d+)_(\w+)\.py$", f)
    if m and m.group(1).upper() in props:
        PARTS.setdefault(m.group(1).upper(), []).append(m.group(2))

checks = []
for pid, c in sorted(CLAIMED.items()):
    checks.append({
        "property_id": pid,
        "quick_cmd": " && ".join(["python3 tools/check.py %s --tier quick" % pid] +
                                 ["python3 tools/check.py %s --part %s --tier quick" % (pid, pt) for pt in PARTS.get(pid, [])]),
        "thorough_cmd": " && ".join(["python3 tools/check.py %s --tier thorough" % pid] +
                                    ["python3 tools/check.py %s --part %s --tier thorough" % (pid, pt) for pt in PARTS.get(pid, [])]),
        "evidence_file": "evidence/%s.json" % pid,
        "replay_cmd_template": "python3 tools/check.py %s --replay {path}" % pid,
        "engine": "coq+diff",
        "level_claimed": {"category": "proof", "text": c["text"], "design_ref": "DESIGN.md §" + c["design"]},
        "level_note": c["note"],
        "technique": c["technique"],
    })
na = []
for pid in sorted(props):
    if pid not in CLAIMED:
        na.append({"property_id": pid, "reason": NOT_APPLICABLE.get(pid, "not yet claimed: model and check under construction (see DESIGN.md §6); no technique switch")})
hooks_commits = [l.strip() for l in open(os.path.join(VERIF, "hooks_commits.txt"))] if os.path.exists(os.path.join(VERIF, "hooks_commits.txt")) else []
m = {
 "version": 1,
 "setup_cmd": "make -C /verif -k all JOBS=16 || echo 'setup: some targets failed; each check rebuilds what it needs'",
 "hooks": {
   "guard": "--cfg petrichorit_des_verif (rustc cfg)",
   "enable": "RUSTFLAGS=\"--cfg tokio_unstable --cfg petrichorit_des_verif\" cargo build --offline (in /verif/harness; also set in harness/.cargo/config.toml)",
   "baseline_off_cmd": "bash /verif/tools/baseline.sh",
   "source_commits": hooks_commits,
   "add_only": True,
 },
 "engines": [{"name": "coq+diff", "path": "tools/check.py", "serves_properties": sorted(CLAIMED),
              "kind_free_text": "Coq 8.16 proofs about hand-written Gallina models + differential correspondence (extracted OCaml model vs Rust harness on /repo's working tree) + property monitors"}],
 "checks": checks,
 "notes": "Every check: (1) full .vo build + property file re-check with Print Assumptions allowlist + hygiene greps, (2) rebuild implrun from /repo's working tree with hooks on, (3) run extracted model and implementation on the same generated scripts (corpus first), (4) monitors on implementation outputs, (5) evidence. See DESIGN.md.",
 "not_applicable": na,
}
json.dump(m, open(os.path.join(VERIF, "MANIFEST.json"), "w"), indent=1)
print("MANIFEST.json written: %d checks, %d not claimed" % (len(checks), len(na)))
