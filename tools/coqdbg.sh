#!/bin/sh
# usage: coqdbg.sh File.v [lines-of-tail]  -- feed a file to coqtop and show the state at the first error
cd /verif/coq
coqtop -Q . DesVerif -w -notation-overridden < "$1" 2>&1 | grep -v "^Coq <\|conda" | awk '/Error/{found=1} {buf[NR]=$0} END{ if(found){for(i=1;i<=NR;i++) if(buf[i] ~ /Error/){s=i-'"${2:-45}"'; if(s<1)s=1; for(j=s;j<=i+12&&j<=NR;j++) print buf[j]; exit}} else print "NO ERROR"}'
