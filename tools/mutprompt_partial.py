#!/usr/bin/env python3
"""Prompt for a file-targeted mutation agent: python3 tools/mutprompt_file.py <tag> <file> [<file> ...]"""
import json, sys, os
tag = sys.argv[1]; picks = " ".join(sys.argv[2:])
props = [json.loads(l) for l in open(os.path.join(os.path.dirname(os.path.dirname(os.path.abspath(__file__))), "properties.jsonl"))]
wt = "/tmp/mutp-%s" % tag
plist = "\n".join("  %s. %s — %s" % (p["id"], p["title"], p["statement"]) for p in props)
print(f"""You are testing how robust a Rust project's quality assurance is. The project is PetrichorIT/des, a discrete-event simulator (Rust workspace: des, des-cqueue, des-net-utils, des-macros, des-macros-core), git repository at /repo. You must NOT edit /repo itself and must not look at or use anything under /verif. Create your own scratch worktree and work only there:  git -C /repo worktree add {wt} HEAD   (then cd {wt}). The sandbox is offline: always export CARGO_NET_OFFLINE=true, never try to fetch or install anything. Every shell command prints a harmless conda warning first; ignore it. The workspace's .cargo/config.toml already sets `--cfg tokio_unstable`; do not set RUSTFLAGS. Items guarded by `#[cfg(petrichorit_des_verif)]` are observer hooks of an external checker: leave them alone.

Users of des rely on these twenty semantic properties:
{plist}

The repository history contains a series of bug-fix commits (run `git log --oneline --grep '^fix:'` in your worktree; `git show <commit>` shows each repair and its message). Your task: for THREE of these fix commits — take these: {picks} — produce a variant of HEAD in which that repair is replaced by a plausible but INCOMPLETE repair: one that a developer could have written first, that handles the case described in the commit message (and whatever the test suite exercises) but still leaves the defect alive for a narrower class of inputs (a boundary value, a tie, a second code path that reaches the same state, a restart, a second simulation in the same process, a larger size, a different order of calls). Do NOT simply revert the fix: the commit message's own example must work with your variant. That gives 3 changes.
Each change must be a small patch that a plausible refactoring, optimisation or bug-fix attempt could introduce (not sabotage with random constants) such that it
  (a) still compiles (the whole workspace: `cargo build --workspace --offline`),
  (b) still passes the ENTIRE existing test suite unchanged: `cargo nextest run --workspace --no-fail-fast --offline` (221 tests; or `cargo test --workspace --no-fail-fast --offline`),
  (c) BREAKS at least one of the twenty properties above (say which one; pick the one it violates most directly), and
  (d) needs something specific to manifest — a particular interleaving or order of operations, a multi-step sequence, an unusual but legal input (boundary value, tie, prefix, empty case, non-ASCII), a fault at a particular point, or two cooperating sites that each look fine alone — NOT something ordinary use would expose at once.
If one of the three fixes admits no plausible incomplete variant, say so and pick another fix commit instead.

For each change write a demonstration: a small Rust integration test file (in the crate the change belongs to, e.g. {wt}/des/tests/mut_demo.rs) or a tiny example program that uses only the crates' public API, which FAILS WITH the change and PASSES WITHOUT it. Verify both directions yourself (inside your worktree only; do NOT use `git stash` — the stash is shared by all worktrees; use `git diff > x.diff`, `git apply -R x.diff`, `git apply x.diff`). Also confirm (a) and (b) with the change applied (without your demo file, which is not part of the patch).

Deliverables (under {wt}/out/): for i = 1..3: `m{{i}}.diff` (`git diff` of ONLY the source change relative to HEAD, applicable with `git apply` from the repository root), `m{{i}}_demo.rs` (comment on top: where to put it, how to run it), `m{{i}}.json` with fields {{"property": "<Cxx it breaks>", "summary": one sentence what was changed, "why_it_breaks": ..., "needs": what specific condition is needed, "files": [...], "demo_cmd": exact command to run the demo (a plain shell command line, no parenthetical remarks), "verified": {{"compiles": true/false, "tests_pass": "N/221", "demo_fails_with_change": true/false, "demo_passes_without": true/false}}}}. Keep the worktree in place when you finish but delete its build output: rm -rf {wt}/target.

In your final message list the patches with one line each, the property each breaks, and the verification numbers. Be honest: if you could not make a change that satisfies all of (a)-(d), say so rather than weakening the criteria.""")
