#!/bin/bash
# Runs /repo's pinned test suite with the verification guard OFF (no
# --cfg petrichorit_des_verif; RUSTFLAGS unset so /repo/.cargo/config.toml applies).
# Prints "BASELINE passed=<n> failed=<m>" and exits non-zero on any failure.
set -o pipefail
cd /repo || exit 2
unset RUSTFLAGS
export CARGO_NET_OFFLINE=true
if cargo nextest --version >/dev/null 2>&1 && [ -f /w/lib/nextest.toml ]; then
  out=$(cargo nextest run --workspace --no-fail-fast --tool-config-file pb:/w/lib/nextest.toml --profile pb --test-threads 8 --offline 2>&1)
  rc=$?
  echo "$out" | grep -E "Summary|FAIL|SIGABRT|SIGSEGV" | grep -v "^\s*PASS" | tail -20
  exit $rc
else
  cargo test --workspace --no-fail-fast --offline 2>&1 | grep -E "^test result|FAILED|failed" | tail -40
  exit ${PIPESTATUS[0]}
fi
