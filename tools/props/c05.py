"""C05 — timers fire exactly at their deadline and are never lost."""
import itertools
import collections

ID = "C05"; MODEL = "timer"; IMPL = "timer"
COQ_PROP = "Properties/C05.v"; COQ_DIRS = ["Common", "Timer"]
COQ_MODULE = "Timer.Model"; RUN_FN = "run"
THEOREMS = ["C05_Inv_wake_preserved", "C05_Inv_wake_every_history", "C05_snapshot_invariant", "C05_never_early", "C05_woken_exactly_at_deadline",
            "C05_never_late_never_lost", "C05_complete_run_wakes_at_deadline", "C05_futures_keep_invariant",
            "C05_composite_event_is_driver_event", "C05_woken_through_last_poller", "C05_woken_through_last_poller_of_any_sequence", "C05_woken_through_last_waker_of_same_task",
            "C05_composite_sleep_exact", "C05_composite_sleep_prefix", "C05_fragment_scripts_decode_ok",
            "C05_removal_by_id_needs_distinct_ids", "C05_composite_reset_drop_exact", "C05_composite_timeout_sleep_exact", "C05_composite_interval_exact", "C05_composite_keepalive_select_exact", "C05_composite_select_exact", "C05_composite_timeout_recv_exact", "C05_run_over_cqueue_eq_run_over_spec", "C05_composite_exact_cq",
            "C05_composite_sleep_exact_cq", "C05_woken_exactly_at_deadline_cq",
            "C05_due_deadline_completes_immediately",
            "C05_timeout_ok_iff_inner_first", "C05_interval_ticks"]
QUICK_N = 2500; THOROUGH_N = 150000
RULE = ("scripts = 1..6 tasks on 1..2 async modules, each task a list of sleep / sleep_until / timeout(d, sleep x | flip) / "
        "select!{sleep a, sleep b} (biased or not) / interval(period, Burst|Delay|Skip, busy delays between ticks) / "
        "pinned sleep polled+reset / pinned sleep polled+dropped / boxed sleep polled and handed to another task of the module, which "
        "awaits it / timeout or select! around a channel receive that is satisfied by a message event (a task spawned by a message that "
        "sends at once), cancelling the module's earliest timer while its wake-up event is already scheduled / keep-alive timers created "
        "disarmed as far-future sleeps (Duration::MAX, at t = 0 and later), armed by reset to deadlines shared across tasks, re-armed or "
        "dropped before them / a boxed registered sleep polled by ONE task under two different wakers (first the task's own, then "
        "through a sub-executor that polls with its own waker and only when that waker was woken, and the other way round) / "
        "hand-over chains: a registered boxed sleep received, polled once (directly or through a sub-executor waker) and passed on, "
        "more than once and back to a task that polled it earlier (A->B->A, A->B->C->A, A->B->A->B, A->A'->B->A) / "
        "log steps, tasks spawned at start-up or by a message at a scripted "
        "instant; durations drawn from a small tie-rich set (0,1,5,10,15,20 ns, ms-scale around the 5 ms missed-tick threshold, "
        "far future), structured so that cancelled/dropped/reset timers precede live ones, deadlines coincide across tasks, "
        "messages arrive at wake-up instants; non-trivial = distinct script hitting >= 2 targeted mechanisms")
TRUSTED = ["tasks are scripts over the timer API (no channels between tasks: tasks interact only through their module's driver)",
           "the event set is the two-list specification that C01 proves the calendar queue refines",
           "tokio is modelled as a FIFO executor without poll budget (C06): a woken or spawned task is polled within the same event; "
           "a task that wakes itself is polled again in the same event",
           "the composition of driver + futures + executor + event set (coq/Timer/Model.v) is validated by these differential runs, not proved"]
ASSUMPTIONS = [
    "waker identities: the composite model keeps ONE identity per task in its waker table (every waker a task polls with wakes "
    "that task); the rule that the stored waker is the one of the LAST poll is stated and proved for arbitrary waker identities "
    "(C05_woken_through_last_poller / C05_woken_through_last_poller_of_any_sequence / C05_woken_through_last_waker_of_same_task), the "
    "variants keyed on the task id and on a waker cached at registration are refuted in coq/Refuted/C05.v, and the implementation "
    "is exercised with two wakers of one task by script step 14 and with hand-over chains that return to an earlier poller by step 15",
    "executor order (only C05_composite_timeout_recv_exact depends on it, and only at a tie, which its hypothesis recv_ok "
    "excludes): tasks made runnable within one event are polled in wake order -- due timer entries in slot registration "
    "order, then newly spawned tasks, then receivers woken by sends; tokio's current_thread runtime + LocalSet does this "
    "for fewer than 61 wakes per tick (budget rules: coq/Exec/Model.v, property C06)",
"fewer than 61 task polls per event (tokio's budget is C06's subject)",
               "a duration >= 2^61 in a script stands for Duration::MAX (deadline SimTime::MAX, printed as 2^62 - 1); finite deadlines "
               "close to SimTime::MAX are not generated (their wake-up event would make the calendar queue scan ~10^20 buckets); finite "
               "deadlines above 2 * 10^13 ns occur only on timers that are cancelled before they are scheduled",
               "the verification hook reports entry counts, not entry ids: id distinctness is proved for the model, not observed on the real driver",
               "generated scripts use every hand-over channel for one send and at most one receive (the order in which tokio runs "
               "timer-woken and freshly spawned tasks within one event is not modelled, so competing senders/receivers are avoided); "
               "the monitor does not constrain a task after a receive on a channel with several senders or receivers; generated scripts "
               "avoid a boxed Sleep arriving in the very instant of the deadline of the timeout/select that waits for it (the monitor "
               "accepts both outcomes there)",
               "times stay below 2^62 ns; an unbiased select! between equal deadlines reports branch 2 (tokio picks by a seeded RNG)"]
CLAIM = dict(
    text="Machine-checked (Coq 8.16, axiom-free) for the model of des/src/time/driver.rs + refs.rs activate/deactivate as the code is after "
         "fix 94eba61: for EVERY history of module events (messages, start-up stages, wake-ups) and every sequence of timer registrations, "
         "drops and resets performed during them, after each deactivate every slot that still holds a live timer is covered by an "
         "AsyncWakeupEvent w in the event set with now <= w <= deadline (Inv_wake); hence bump never wakes a timer early, no event can "
         "overtake a live deadline, the event that wakes a timer is stamped exactly with its deadline, the run cannot end while a timer is "
         "live, and in a completed run every timer that was not dropped/reset was woken by an event at exactly its deadline. Future layer, "
         "for all now/driver states: Sleep::poll with deadline <= now is Ready without touching the driver; Sleep/Timeout/Interval act on "
         "the driver only through contract-respecting register/drop/reset operations (so the invariant covers them); Timeout polled promptly "
         "yields the value iff the value is ready no later than the deadline (tie: value), else Elapsed at the deadline; interval ticks are "
         "start + k*period when no tick is more than 5 ms late and always under Burst, Delay re-bases on now, Skip jumps to the next "
         "aligned instant after now; a far-future Sleep (now + duration not representable, deadline SimTime::MAX) is registered like any "
         "other, never gets a wake-up and never elapses (Inv_wake speaks about deadlines below SimTime::MAX); removal by id takes out "
         "exactly the asking Sleep's entry provided the ids of a slot are distinct, and every Sleep a task step creates draws a fresh id "
         "(C05_removal_by_id_needs_distinct_ids; the shared-id variant is refuted); a registered Sleep polled again under any waker (by another task it has moved to, or by the same task through a "
         "sub-executor that polls with its own waker) is registered once and woken through the WAKER that polled it last "
         "(C05_woken_through_last_poller, C05_woken_through_last_poller_of_any_sequence -- any non-empty poll sequence, also one that "
         "returns to an earlier poller --, C05_woken_through_last_waker_of_same_task; a rule keyed on the task id and a rule comparing "
         "with a waker cached at registration are refuted: C05_reregister_by_task_id_refuted, C05_waker_cache_never_refreshed_refuted). The pinned next() (front slot only) is refuted in Coq by the history register a@5, drop a, "
         "register b@10, deactivate, the pinned never-refreshed waker by a hand-over script in which the receiving task never resumes. In the composite model (coq/Timer/Model.v: scripted tasks, FIFO executor, drivers, event set, waker table) every "
         "module event is proved to be one such driver event with a contract-respecting operation list, and for the fragment "
         "{sleep, sleep_until, log, Sleep::reset / drop of a registered sleep, timeout(d, sleep x), interval new / tick / drop with all three missed-tick behaviours, the biased keep-alive select! of step 13 (C05_composite_keepalive_select_exact), select! over two sleeps (C05_composite_select_exact), timeout(d, receive) with token messages from sender tasks (C05_composite_timeout_recv_exact; hypotheses: a task sends or receives, one receiver per module, no message arriving at the very instant a receive elapses -- there the executor's poll order decides)} (finite durations) "
         "the composite is proved END TO END (C05_composite_sleep_exact, C05_composite_reset_drop_exact, C05_composite_timeout_sleep_exact: Ok iff x <= d, returned exactly at "
         "now + min(x, d); C05_composite_interval_exact: tick returns at max(now, nominal) with the nominal instant, next nominal instant by tick_next): for every list of such tasks "
         "(any number, both modules, spawned at start-up or by messages at any instants) the run ends, every task finishes and its "
         "log is exactly the list of deadlines the script prescribes, using C01's event-set specification for the fetch order. "
         "For the remaining steps the COMPOSITION of these layers with the task executor and the event set is validated, not proved: on every invocation scripted async modules (sleep, sleep_until, timeout, interval with all three "
         "missed-tick behaviours, select!, Sleep::reset, dropped pinned sleeps, a polled boxed Sleep handed to another task; several tasks, 1-2 modules, tasks spawned at start-up or "
         "by messages) run on the real des runtime, stepped event by event, and must reproduce the extracted model's per-task logs, run "
         "result, end time and -- through the hook Driver::verif_snapshot -- the state of every module's timer driver after every event "
         "(slots with entry counts, next_wakeup); an independent monitor checks on the implementation's log that every await returned at "
         "exactly the deadline computed from the script, and evaluates Inv_wake itself on the real driver's snapshots "
         "(C05_snapshot_invariant: sorted slots, live front slot, now <= next_wakeup <= earliest live deadline, no live finite timer when the "
         "event set is empty; every slot stands for a deadline that some Sleep of the script has, which pins `now + duration` exactly, also "
         "above 2^53 ns).",
    note="partial: driver and future layers proved for all histories; the composite proved end to end for the sleep/sleep_until/log "
         "fragment; for timeout/select/interval/reset/drop/hand-over/receive steps the composition with the executor and the event loop "
         "is validated by differential runs (incl. driver snapshots) only. tokio itself is modelled as a FIFO executor. Out of scope: tokio's 61-poll budget (C06); the order in which tokio runs timer-woken and freshly "
         "spawned tasks within one event (scripts avoid competing senders/receivers on one channel); module shutdown/restart is covered at the driver level only (all entries dropped "
         "= a sequence of drop operations) and is not scripted in the harness (C09). Trusted: Coq kernel; extraction cross-checked "
         "in-Coq on a sample each run; harness/generator quality bounds the tie to the code.",
    technique="Coq invariant proof over all event/operation histories of the driver model, pure-function laws for the futures, "
              "exists-witness refutation of the pinned code; differential correspondence check + property monitor",
    design="6/C05")

FARK = 1 << 61            # a duration >= FARK stands for Duration::MAX (deadline SimTime::MAX: never elapses)
TMAX = (1 << 62) - 1      # how SimTime::MAX is printed
INF = float("inf")


def eff(d):
    return INF if d >= FARK else d


MS = 1000000
GRACE = 5 * MS
SMALL = [0, 1, 5, 5, 5, 10, 10, 10, 15, 20, 25]
FAR = [3600 * 10**9, 10**12, 123456789012]
# never-firing positions only (select loser, timeout delay, dropped / reset timers): deadlines with odd nanoseconds above 2^53,
# where `now + d` is not exact in f64; a timer that FIRES there would cost ~4e9 calendar-queue scan steps
FAR_ODD = [10**16 + 1, 2**53 + 3, 10**16 + 7, FARK, FARK]
PERIODS = [10 * MS, 10 * MS, 7 * MS, 1, 25 * MS]
BUSY = [0, 0, 0, 3 * MS, 5 * MS, 5 * MS + 1, 12 * MS, 15 * MS, 25 * MS, 37 * MS, 10 * MS]


# ----------------------------------------------------------------------------- script <-> structure
def parse(script):
    """Same totalising rules as coq/Timer/Model.v decode / harness dec_steps."""
    tasks = []
    mods = 1
    if len(script) >= 2:
        mods = 1 + script[0] % 2
        rest = script[2:]
        n = min(script[1], len(rest))
        i = 0
        for _ in range(n):
            if i >= len(rest):
                break
            k = rest[i]; b = rest[i + 1:i + 1 + k]; i += 1 + k
            if len(b) >= 2:
                tasks.append({"mod": b[0] % mods, "start": b[1], "steps": parse_steps(b[2:])})
            else:
                tasks.append({"mod": 0, "start": 0, "steps": []})
    return mods, tasks


def parse_steps(b):
    out = []
    i = 0
    while i < len(b):
        left = len(b) - i - 1
        t = b[i]
        if t == 1 and left >= 1:
            out.append(("sleep", b[i + 1])); i += 2
        elif t == 2 and left >= 1:
            out.append(("until", b[i + 1])); i += 2
        elif t == 3 and left >= 3:
            out.append(("timeout", b[i + 1], b[i + 3] if b[i + 2] % 2 == 0 else None)); i += 4
        elif t == 4 and left >= 3:
            out.append(("select", b[i + 1] % 2 == 1, b[i + 2], b[i + 3])); i += 4
        elif t == 5 and left >= 3:
            k = min(b[i + 3], left - 3)
            out.append(("interval", max(1, b[i + 1]), b[i + 2] % 3, tuple(b[i + 4:i + 4 + k]))); i += 4 + k
        elif t == 6 and left >= 3:
            out.append(("reset", b[i + 1] % 2 == 1, b[i + 2], b[i + 3])); i += 4
        elif t == 7 and left >= 1:
            out.append(("drop", b[i + 1])); i += 2
        elif t == 8:
            out.append(("log",)); i += 1
        elif t == 9 and left >= 2:
            out.append(("hand", b[i + 1], b[i + 2])); i += 3
        elif t == 10 and left >= 1:
            out.append(("recv", b[i + 1])); i += 2
        elif t == 11 and left >= 2:
            out.append(("trecv", b[i + 1], b[i + 2])); i += 3
        elif t == 12 and left >= 3:
            out.append(("selrecv", b[i + 1] % 2 == 1, b[i + 2], b[i + 3])); i += 4
        elif t == 13 and left >= 5:
            out.append(("keep", b[i + 1] % 2 == 1, b[i + 2], b[i + 3], b[i + 4], b[i + 5])); i += 6
        elif t == 14 and left >= 2:
            out.append(("wrap", b[i + 1] % 2 == 1, b[i + 2])); i += 3
        elif t == 15 and left >= 3:
            out.append(("relay", b[i + 1] % 2 == 1, b[i + 2], b[i + 3])); i += 4
        else:
            break
    return out


def enc_step(s):
    k = s[0]
    if k == "sleep": return [1, s[1]]
    if k == "until": return [2, s[1]]
    if k == "timeout": return [3, s[1], 0, s[2]] if s[2] is not None else [3, s[1], 1, 0]
    if k == "select": return [4, 1 if s[1] else 0, s[2], s[3]]
    if k == "interval": return [5, s[1], s[2], len(s[3])] + list(s[3])
    if k == "reset": return [6, 1 if s[1] else 0, s[2], s[3]]
    if k == "drop": return [7, s[1]]
    if k == "hand": return [9, s[1], s[2]]
    if k == "recv": return [10, s[1]]
    if k == "trecv": return [11, s[1], s[2]]
    if k == "selrecv": return [12, 1 if s[1] else 0, s[2], s[3]]
    if k == "keep": return [13, 1 if s[1] else 0, s[2], s[3], s[4], s[5]]
    if k == "wrap": return [14, 1 if s[1] else 0, s[2]]
    if k == "relay": return [15, 1 if s[1] else 0, s[2], s[3]]
    return [8]


def encode(mods, tasks):
    out = [mods - 1, len(tasks)]
    for t in tasks:
        b = [t["mod"], t["start"]]
        for s in t["steps"]:
            b += enc_step(s)
        out += [len(b)] + b
    return out


def split(script):
    mods, tasks = parse(script)
    hdr = (mods, [(t["mod"], t["start"]) for t in tasks])
    ops = [(k, s) for k, t in enumerate(tasks) for s in t["steps"]]
    return hdr, ops


def join(hdr, ops):
    mods, heads = hdr
    tasks = [{"mod": m, "start": s, "steps": []} for m, s in heads]
    for k, s in ops:
        tasks[k]["steps"].append(s)
    return encode(mods, tasks)


def fmt(x):
    if x >= FARK:
        return "MAX"
    if x >= MS and x % MS == 0:
        return "%dms" % (x // MS)
    return "%d" % x


def pretty_step(s):
    k = s[0]
    if k == "sleep": return "sleep(%s)" % fmt(s[1])
    if k == "until": return "sleep_until(%s)" % fmt(s[1])
    if k == "timeout": return "timeout(%s, %s)" % (fmt(s[1]), "sleep(%s)" % fmt(s[2]) if s[2] is not None else "flip")
    if k == "select": return "select%s(sleep(%s), sleep(%s))" % ("_biased" if s[1] else "", fmt(s[2]), fmt(s[3]))
    if k == "interval": return "interval(%s,%s,busy=[%s])" % (fmt(s[1]), ["Burst", "Delay", "Skip"][s[2]], ",".join(fmt(b) for b in s[3]))
    if k == "reset": return "sleep(%s)%s.reset(now+%s).await" % (fmt(s[2]), ".polled" if s[1] else "", fmt(s[3]))
    if k == "drop": return "drop(polled sleep(%s))" % fmt(s[1])
    if k == "hand": return "ch%d.send(polled boxed sleep(%s))" % (s[1], fmt(s[2]))
    if k == "wrap": return ("sub_executor(sleep(%s)).polled_once.await" if s[1] else "sub_executor(polled sleep(%s)).await") % fmt(s[2])
    if k == "recv": return "ch%d.recv().await.await" % s[1]
    if k == "relay": return "ch%d.send(ch%d.recv().await polled once%s)" % (s[3], s[2], " by a sub_executor" if s[1] else "")
    if k == "trecv": return "timeout(%s, ch%d.recv())" % (fmt(s[1]), s[2])
    if k == "selrecv": return ("select_biased(ch%d.recv(), sleep(%s))" if s[1] else "select_biased(sleep(%s), ch%d.recv())") % (
        (s[2], fmt(s[3])) if s[1] else (fmt(s[3]), s[2]))
    if k == "keep":
        return "keepalive(sleep(%s).polled.reset(now+%s); select_biased(it, sleep(%s)) then %s)" % (
            fmt(s[2]), fmt(s[3]), fmt(s[4]), ("reset(now+%s).await" % fmt(s[5])) if s[1] else "drop")
    return "log"


def pretty(script):
    mods, tasks = parse(script)
    parts = []
    for k, t in enumerate(tasks):
        parts.append("task%d@%s%s: %s" % (k, "ab"[t["mod"]], "" if t["start"] == 0 else " start=%s" % fmt(t["start"]),
                                          "; ".join(pretty_step(s) for s in t["steps"])))
    return "%d module(s) | " % mods + " | ".join(parts)


# ----------------------------------------------------------------------------- what the property demands of one task
def skip_next(timeout, now, period):
    """smallest timeout + n*period that lies strictly after now (tokio's Skip)"""
    n = (now - timeout) // period + 1
    return timeout + n * period


def expect_task(t):
    """One task on its own (a receive is not followed)."""
    recs, timers, now, _, _, _ = walk_task(t, None, None)
    return recs, timers, now


def walk_task(t, sends, chans):
    """Walk the script with the semantics the property states (every await returns at exactly its deadline).
    Returns (records, timers, end, status, sent) where records = list of (allowed tuples) per log record, timers =
    (created, deadline, registered, gone_at) of every timer the task creates (used for mechanism statistics),
    status = 'done' | 'blocked' (waits for a boxed Sleep that is never / not yet known to be sent) | 'free' (a receive
    the monitor does not constrain), sent = {(module, channel): (instant of the send, deadline of the sent Sleep)}.
    sends: what the other tasks are known to send; chans: (module, channel) -> (number of sends, number of receives)."""
    now = t["start"]
    recs, timers = [], []
    status, sent = "done", {}
    info = {"cancels": [], "ties": 0, "keeps": [], "far_after0": 0}   # timers cancelled by the arrival of a boxed Sleep;
    # arrivals in the instant of the deadline; keep-alive timers; far-future sleeps created at t > 0
    for s in t["steps"]:
        k = s[0]
        if now == INF:
            # the previous await never returns (its deadline is SimTime::MAX): the task legitimately waits for ever
            recs.pop(); now = None; status = "blocked"; break
        fars = {"timeout": [s[1]] if k == "timeout" else [], "select": list(s[2:4]), "reset": list(s[2:4]), "drop": [s[1]] if k == "drop" else [],
                "trecv": [s[1]] if k == "trecv" else [], "selrecv": [s[3]] if k == "selrecv" else [],
                "wrap": [s[2]] if k == "wrap" else [],
                "keep": [s[2], s[3], s[5]] if k == "keep" else []}.get(k, [])
        # every deadline under which a Sleep of this step may get registered (liberal: used to recognise foreign slots)
        dls = info.setdefault("dls", set())
        for x in {"sleep": [s[1]] if k == "sleep" else [], "timeout": [s[1], s[2] or 0] if k == "timeout" else [], "hand": [s[2]] if k == "hand" else [],
                  "keep": [s[2], s[3], s[4]] if k == "keep" else []}.get(k, fars):
            dls.add(now + eff(x))
        if k == "until": dls.add(s[1])
        if k == "keep": dls.add(now + s[4] + eff(s[5]))
        if now > 0 and any(x >= FARK for x in fars):
            info["far_after0"] += 1
        if now == 0 and any(x >= FARK for x in fars):
            info["far_at0"] = info.get("far_at0", 0) + 1
        if k == "keep":
            rearm, d0, d2, x, d3 = s[1:6]
            D, tx = now + eff(d2), now + x
            timers.append((now, now + eff(d0), eff(d0) > 0, now))
            timers.append((now, D, eff(d2) > 0, min(D, tx))); timers.append((now, tx, x > 0 and eff(d2) > 0, min(D, tx)))
            info["keeps"].append({"far0": d0 >= FARK, "at": now, "D": D, "cut": tx if tx < D else None})
            if D <= tx:
                now = D; recs.append([(now, 0)])
            else:
                now = tx; recs.append([(now, 1)])
                if rearm:
                    timers.append((now, now + eff(d3), eff(d3) > 0, now + eff(d3))); now = now + eff(d3); recs.append([(now,)])
                else:
                    recs.append([(now,)])
        elif k in ("trecv", "selrecv"):
            ch, d = (s[2], eff(s[1])) if k == "trecv" else (s[2], eff(s[3]))
            rf = True if k == "trecv" else s[1]       # Timeout polls its value first
            won, lost = ((now, 1), (now + d, 0)) if k == "trecv" else ((now, 0), (now + d, 1))
            key = (t["mod"], ch)
            ns, nr = (chans or {}).get(key, (2, 2))
            if ns == 0:
                timers.append((now, now + d, d > 0, now + d)); now += d; recs.append([lost])
                continue
            if ns != 1 or nr != 1:
                status = "free"; break
            if key not in sends:
                status = "blocked"; break
            ts = sends[key][0]
            if ts < now:
                if not rf and d == 0:
                    recs.append([lost])
                else:
                    recs.append([won])
            elif ts == now + d:
                info["ties"] += 1
                timers.append((now, now + d, d > 0, now + d)); now += d
                recs.append([(now, lost[1]), (now, won[1])])
            elif ts < now + d:
                timers.append((now, now + d, True, ts))
                if ts > now:
                    info["cancels"].append((now + d, ts, key))
                else:
                    # the Sleep is sent in the very instant the receiver starts to wait: whether the delay is registered (and
                    # dropped) or never polled depends on which of the two tasks tokio runs first -- visible in the driver snapshots
                    info["ties"] += 1
                now = ts; recs.append([(now, won[1])])
            else:
                timers.append((now, now + d, d > 0, now + d)); now += d; recs.append([lost])
        elif k == "hand":
            timers.append((now, now + s[2], s[2] > 0, now + s[2]))
            sent[(t["mod"], s[1])] = (now, now + s[2])
            recs.append([(now,)])
        elif k == "recv":
            key = (t["mod"], s[1])
            ns, nr = (chans or {}).get(key, (2, 2))
            if ns == 0:
                status = "blocked"; break
            if ns != 1 or nr != 1:
                status = "free"; break
            if key not in sends:
                status = "blocked"; break
            ts, dl = sends[key]
            now = max(now, ts); recs.append([(now,)])
            now = max(now, dl); recs.append([(now,)])
        elif k == "relay":
            # hand-over chain: the received Sleep is polled once and passed on; its deadline stays
            key = (t["mod"], s[2])
            ns, nr = (chans or {}).get(key, (2, 2))
            if ns == 0:
                status = "blocked"; break
            if ns != 1 or nr != 1:
                status = "free"; break
            if key not in sends:
                status = "blocked"; break
            ts, dl = sends[key]
            now = max(now, ts); recs.append([(now,)])
            sent[(t["mod"], s[3])] = (now, dl)
        elif k == "sleep":
            timers.append((now, now + s[1], s[1] > 0, now + s[1])); now += s[1]; recs.append([(now,)])
        elif k == "wrap":
            # polled under two different wakers of the SAME task: woken through the one that polled it last, at its deadline
            d = eff(s[2])
            timers.append((now, now + d, d > 0, now + d)); now += d; recs.append([(now,)])
            if d > 0: info["wraps"] = info.get("wraps", []) + [s[1]]
        elif k == "until":
            d = max(now, s[1]); timers.append((now, d, d > now, d)); now = d; recs.append([(now,)])
        elif k == "timeout":
            d, x = eff(s[1]), s[2]
            if x is None:
                # the value is ready on its second poll in the instant of creation
                timers.append((now, now + d, d > 0, now))
                recs.append([(now, 1)] if d > 0 else [(now, 0), (now, 1)])
            else:
                fin = now + min(x, d)
                timers.append((now, now + x, x > 0, fin)); timers.append((now, now + d, x > 0 and d > 0, fin))
                now = fin
                recs.append([(now, 1 if x <= d else 0)])
        elif k == "select":
            biased, a, b = s[1], eff(s[2]), eff(s[3])
            fin = now + min(a, b)
            timers.append((now, now + a, a > 0, fin)); timers.append((now, now + b, min(a, b) > 0, fin))
            now = fin
            if a == b:
                recs.append([(now, 0)] if biased else [(now, 2)])
            else:
                recs.append([(now, 0 if a < b else 1)])
        elif k == "interval":
            p, beh, busy = s[1], s[2], s[3]
            dl = now
            for b in busy:
                timers.append((now, dl, dl > now, max(now, dl)))
                info["dls"].add(dl)
                now = max(now, dl)
                recs.append([(now, dl)])
                if now > dl + GRACE:
                    dl = [dl + p, now + p, skip_next(dl, now, p)][beh]
                else:
                    dl = dl + p
                if b > 0:
                    info["dls"].add(now + b)
                    timers.append((now, now + b, True, now + b)); now += b; recs.append([(now,)])
        elif k == "reset":
            polled, d1, d2 = s[1], eff(s[2]), eff(s[3])
            if polled:
                timers.append((now, now + d1, d1 > 0, now))
            timers.append((now, now + d2, d2 > 0, now + d2)); now += d2; recs.append([(now,)])
        elif k == "drop":
            timers.append((now, now + eff(s[1]), s[1] > 0, now)); recs.append([(now,)])
        else:
            recs.append([(now,)])
    if now == INF:
        recs.pop(); now = None; status = "blocked"
    if now is None:
        now = max([t["start"]] + [r[0][0] for r in recs if r[0][0] != INF])
    return recs, timers, now, status, sent, info


def expect_all(tasks):
    """All tasks together: a receive completes when both the receiver has arrived and the Sleep has been sent."""
    chans = {}
    for t in tasks:
        for s in t["steps"]:
            if s[0] in ("hand", "recv", "trecv", "selrecv", "relay"):
                ch = s[1] if s[0] in ("hand", "recv") else s[2]
                a, b = chans.get((t["mod"], ch), (0, 0))
                chans[(t["mod"], ch)] = (a + 1, b) if s[0] == "hand" else (a, b + 1)
            if s[0] == "relay":
                a, b = chans.get((t["mod"], s[3]), (0, 0))
                chans[(t["mod"], s[3])] = (a + 1, b)
    sends = {}
    res = []
    for _ in range(len(tasks) + 2 + sum(1 for t in tasks for s in t["steps"] if s[0] == "relay")):
        res = [walk_task(t, sends, chans) for t in tasks]
        new = {}
        for r in res:
            new.update(r[4])
        if new == sends:
            break
        sends = new
    return res


def task_outputs(script, out):
    """Split the output line into per-task (log, fin) + (ok, end)."""
    mods, tasks = parse(script)
    i = 0
    res = []
    for _ in tasks:
        if i >= len(out):
            raise ValueError("output too short")
        n = out[i]
        if i + 1 + n + 1 > len(out):
            raise ValueError("output too short")
        res.append((out[i + 1:i + 1 + n], out[i + 1 + n])); i += n + 2
    if len(out) - i < 2:
        raise ValueError("expected `ok end_time` after the task logs, got %s" % out[i:])
    ok, end = out[i], out[i + 1]
    i += 2
    snaps = []
    while len(out) - i >= 5:
        t, m, n = out[i:i + 3]
        if len(out) - i < 3 + 2 * n + 2:
            raise ValueError("truncated driver snapshot")
        slots = [(out[i + 3 + 2 * j], out[i + 4 + 2 * j]) for j in range(n)]
        flag, nw = out[i + 3 + 2 * n], out[i + 4 + 2 * n]
        snaps.append((t, m, slots, nw if flag else None))
        i += 5 + 2 * n
    if len(out) - i == 4 and out[i] == 9:
        # the runner saw two timer entries with one id in a driver (hook ModuleRef::verif_timer_entry_ids)
        snaps.append(("dup", out[i + 1], out[i + 2], out[i + 3]))
        i += 4
    if out[i:] not in ([], [8]):
        raise ValueError("trailing output %s" % out[i:])
    return tasks, res, ok, end, snaps


def check_snapshots(snaps):
    """Inv_wake (coq/Timer/Inv.v) evaluated on the real driver between events: slots sorted by distinct deadlines, the
    front slot holds a timer, no slot lies in the past, and whenever a slot holds a live timer the driver's next_wakeup --
    the AsyncWakeupEvent it has put into the event set -- satisfies now <= next_wakeup <= earliest live deadline."""
    for sn in snaps:
        if sn[0] == "dup":
            return ("t=%d module %d: two timer entries of one driver carry the same id %d: TimerSlot::remove(id) cannot tell "
                    "the timers apart (ids must be pairwise distinct)" % (sn[1], sn[2], sn[3]))
    for (t, m, slots, nw) in snaps:
        times = [d for d, _ in slots]
        if any(a >= b for a, b in zip(times, times[1:])):
            return "t=%d module %d: timer slots not sorted by distinct deadlines: %s" % (t, m, slots)
        if slots and slots[0][1] == 0:
            return "t=%d module %d: the front timer slot %d is empty after deactivate (next() did not prune it)" % (t, m, slots[0][0])
        live = [d for d, c in slots if c > 0 and d < TMAX]     # a timer with deadline SimTime::MAX never elapses
        if any(d < t for d in times):
            return "t=%d module %d: a timer slot lies in the past: %s" % (t, m, slots)
        if nw is not None and nw < t and live:
            return "t=%d module %d: next_wakeup=%d lies in the past while timers are live %s" % (t, m, nw, slots)
        if live:
            if nw is None:
                return ("t=%d module %d: Inv_wake violated: live timer slot(s) %s but no wake-up is scheduled (next_wakeup = MAX)"
                        % (t, m, slots))
            if not (t <= nw <= min(live)):
                return ("t=%d module %d: Inv_wake violated: next_wakeup=%d does not cover the earliest live deadline %d"
                        % (t, m, nw, min(live)))
    # the last samples are taken when the event set is empty: no AsyncWakeupEvent is scheduled any more
    last = {}
    for sn in snaps:
        last[sn[1]] = sn
    for (t, m, slots, nw) in last.values():
        live = [d for d, c in slots if c > 0 and d < TMAX]
        if live:
            return ("t=%d module %d: Inv_wake violated: the event set is empty (the run ends) but timer slot(s) %s still hold live "
                    "timers (next_wakeup=%s)" % (t, m, [d for d in live], nw))
    return None


def monitor(script, out):
    """C05 on the implementation's log alone: every await returned at exactly its deadline (never earlier, later,
    or never), timeout results, interval tick instants; the run joined every task."""
    try:
        tasks, res, ok, end, snaps = task_outputs(script, out)
    except ValueError as e:
        return "malformed output: %s" % e
    bad = check_snapshots(snaps)
    if bad:
        return bad
    exp0 = expect_all(tasks)
    if all(e[3] == "done" for e in exp0):
        # every timer slot of the real driver stands for a deadline some Sleep of the script has (deadline arithmetic is exact)
        for mod in (0, 1):
            allowed = {TMAX}
            for t, e in zip(tasks, exp0):
                if t["mod"] == mod:
                    allowed |= {TMAX if d == INF else d for d in e[5].get("dls", ())}
            for (ts, m, slots, nw) in snaps:
                if m == mod:
                    for d, c in slots:
                        if d not in allowed:
                            return ("t=%d module %d: a timer slot for deadline %d exists, but no Sleep of the script has that deadline "
                                    "(now + duration computed inexactly?)" % (ts, m, d))
    if not snaps:
        return "no driver snapshots in the output"
    last = 0
    exp = expect_all(tasks)
    all_done = all(e[3] == "done" for e in exp)
    for k, (t, (lg, fin)) in enumerate(zip(tasks, res)):
        recs, _, fin_t, status, _, _ = exp[k]
        if status == "done":
            last = max(last, fin_t)
        i = 0
        for j, allowed in enumerate(recs):
            w = len(allowed[0])
            got = tuple(lg[i:i + w])
            if len(got) < w:
                step = "await #%d" % j
                return ("task %d: %s never returned (expected at t=%d); the task is stuck%s" %
                        (k, step, allowed[0][0], "" if not fin else " but reported finished"))
            if got not in allowed:
                want = allowed[0]
                if got[0] < want[0]:
                    return "task %d: await #%d returned EARLY at t=%d, deadline %d" % (k, j, got[0], want[0])
                if got[0] > want[0]:
                    return "task %d: await #%d returned LATE at t=%d, deadline %d" % (k, j, got[0], want[0])
                return "task %d: await #%d at t=%d reported %s, expected %s (timeout result / select branch / tick instant)" % (
                    k, j, got[0], list(got[1:]), " or ".join(str(list(a[1:])) for a in allowed))
            i += w
        if status != "done":
            continue        # waits for a boxed Sleep nobody sends (or a channel the monitor does not follow): nothing more is demanded
        if i != len(lg):
            return "task %d: %d extra log entries" % (k, len(lg) - i)
        if not fin:
            return "task %d did not finish" % k
    if all_done and not ok:
        return "Runtime::run returned an error although every task finished"
    if end < last:
        return "simulation ended at %d before the last deadline %d" % (end, last)
    return None


# ----------------------------------------------------------------------------- mechanisms
def mechanisms(script, out):
    mods, tasks = parse(script)
    m = set()
    if mods == 2 and len({t["mod"] for t in tasks}) == 2:
        m.add("two_modules")
    per_mod = {0: [], 1: []}
    exp = expect_all(tasks)
    sends = {}
    for e in exp:
        sends.update(e[4])
    for k, t in enumerate(tasks):
        if exp[k][3] == "blocked": m.add("receiver_without_sender")
        now = t["start"]
        for j, s in enumerate(t["steps"]):
            if s[0] == "recv" and (t["mod"], s[1]) in sends and exp[k][3] == "done":
                _, _, arrive, _, _, _ = walk_task({"mod": t["mod"], "start": t["start"], "steps": t["steps"][:j]}, sends,
                                               collections.defaultdict(lambda: (1, 1)))
                ts, dl = sends[(t["mod"], s[1])]
                tr = max(arrive, ts)
                m.add("handed_over_sleep_awaited_before_deadline" if tr < dl else "handed_over_sleep_already_due")
                if arrive < ts: m.add("receiver_waits_for_send")
                # the chain of tasks that polled this Sleep while it was registered, oldest first
                chain, ch, wrapped, early = [k], s[1], False, tr < dl
                for _ in range(len(tasks) * 8):
                    src = [(k2, q) for k2, t2 in enumerate(tasks) if t2["mod"] == t["mod"] for q in t2["steps"]
                           if (q[0] == "hand" and q[1] == ch) or (q[0] == "relay" and q[3] == ch)]
                    if len(src) != 1: break
                    chain.insert(0, src[0][0])
                    if src[0][1][0] == "hand": break
                    wrapped = wrapped or src[0][1][1]
                    early = early and sends[(t["mod"], ch)][0] < dl
                    ch = src[0][1][2]
                if len(chain) >= 3 and early:
                    m.add("registered_sleep_handed_over_more_than_once")
                    if wrapped: m.add("chain_link_polls_through_sub_executor_waker")
                    if any(chain[i] == chain[j] and any(x != chain[i] for x in chain[i + 1:j])
                           for i in range(len(chain)) for j in range(i + 2, len(chain))):
                        m.add("registered_sleep_returns_to_an_earlier_poller")
                        m.add("chain_" + "".join("ABCDEFGH"[sorted(set(chain), key=chain.index).index(x)] for x in chain))
    for k, t in enumerate(tasks):
        timers = exp[k][1]
        for tm in timers:
            per_mod[t["mod"]].append((k,) + tm)
        for s in t["steps"]:
            if s[0] == "timeout" and s[2] is not None and s[2] == s[1]: m.add("timeout_tie_value_wins")
            if s[0] == "timeout" and s[2] is not None and s[2] > s[1]: m.add("timeout_elapsed")
            if s[0] == "timeout" and s[2] is None and s[1] > 0: m.add("timeout_satisfied_in_creating_instant")
            if s[0] == "select" and s[2] == s[3]: m.add("select_equal_deadlines")
            if s[0] == "select" and not s[1]: m.add("select_unbiased")
            if s[0] == "reset" and s[1] and s[2] > 0: m.add("reset_registered_sleep")
            if s[0] == "reset" and s[1] and s[2] > 0 and s[3] > s[2]: m.add("reset_to_later")
            if s[0] == "reset" and s[1] and s[2] > 0 and s[3] == s[2]: m.add("reset_to_same_deadline")
            if s[0] == "drop" and s[1] > 0: m.add("drop_registered_sleep")
            if s[0] == "wrap" and 0 < s[2] < FARK:
                m.add("same_task_polls_registered_sleep_with_other_waker")
                m.add("sub_executor_waker_first_then_task_waker" if s[1] else "task_waker_first_then_sub_executor_waker")
            if s[0] == "sleep" and s[1] == 0: m.add("due_at_creation")
            if s[0] == "until" and s[1] <= t["start"]: m.add("due_at_creation")
    for k, t in enumerate(tasks):
        now = t["start"]
        for s in t["steps"]:
            if s[0] == "interval":
                dl = now
                for b in s[3]:
                    now = max(now, dl)
                    if now > dl + GRACE:
                        m.add("missed_tick_" + ["burst", "delay", "skip"][s[2]])
                        dl = [dl + s[1], now + s[1], skip_next(dl, now, s[1])][s[2]]
                    else:
                        if now > dl: m.add("late_tick_within_grace")
                        dl += s[1]
                    now += b
            else:
                _, _, now = expect_task({"mod": t["mod"], "start": now, "steps": [s]})
    keeps = []
    for k, t in enumerate(tasks):
        if exp[k][5]["far_after0"]: m.add("far_future_sleep_created_after_time_zero")
        if exp[k][5].get("far_at0"): m.add("far_future_sleep_created_at_time_zero")
        for kp in exp[k][5]["keeps"]:
            keeps.append((t["mod"], k, kp))
            if kp["cut"] is not None: m.add("keepalive_rearmed_or_dropped_before_deadline")
    for (m1, k1, a) in keeps:
        for (m2, k2, b) in keeps:
            if k1 < k2 and m1 == m2 and a["D"] == b["D"] and a["D"] != INF:
                m.add("keepalive_timers_armed_to_equal_deadline")
                first_cut = min([c for c in (a["cut"], b["cut"]) if c is not None] or [INF])
                if a["far0"] and b["far0"] and a["at"] > 0 and b["at"] > 0 and max(a["at"], b["at"]) <= first_cut:
                    m.add("two_far_future_sleeps_reset_to_equal_deadline")
                    if first_cut < a["D"]:
                        m.add("one_of_two_equal_far_future_timers_rearmed_or_dropped")
    # a message event cancels the timer the module's pending wake-up event was scheduled for
    for k, t in enumerate(tasks):
        for (D, ts, key) in exp[k][5]["cancels"]:
            m.add("timer_cancelled_by_arrival")
            snd = [x for x in tasks if x["mod"] == key[0] and any(q[0] == "hand" and q[1] == key[1] for q in x["steps"])]
            if not (snd and snd[0]["start"] == ts and ts > 0):
                continue
            m.add("timer_cancelled_by_message_event")
            si = tasks.index(snd[0])
            # the boxed Sleep that arrives is dropped by the receiver at once: not a live timer either
            others = [x for x in per_mod[t["mod"]] if x[3] and not (x[0] == k and x[2] == D)
                      and not (x[0] == si and x[1] == ts and x[2] == sends[key][1])]
            if any(x[1] <= ts < x[4] and x[2] <= D for x in others):
                continue
            m.add("earliest_timer_cancelled_by_message")
            if any(x[1] <= D < x[4] and x[2] > D for x in others) and not any(x[2] == D and x[1] < D <= x[4] for x in others):
                m.add("stale_wakeup_event_fires")
    for mod, tms in per_mod.items():
        live = [x for x in tms if x[3]]
        for a in live:
            k, cr, dl, reg, gone = a
            if dl - cr > 10**11: m.add("far_future")
            if gone < dl:
                m.add("cancelled_timer")
                if gone == cr: m.add("registered_and_cancelled_in_one_event")
                for b in live:
                    if b is a: continue
                    # b is live while a's emptied slot is still ahead of it in the queue
                    if b[2] > dl and max(gone, b[1]) < min(dl, b[4]):
                        m.add("emptied_slot_precedes_live_timer")
            for b in live:
                if b is not a and b[0] != k and b[2] == dl and b[4] == dl and gone == dl:
                    m.add("equal_deadlines_across_tasks")
        for t in tasks:
            if t["mod"] == mod and t["start"] > 0:
                if any(x[2] == t["start"] and x[4] >= t["start"] for x in live):
                    m.add("message_at_wakeup_instant")
                _, tt, _ = expect_task(t)
                mine = [x[1] for x in tt if x[2]]
                if mine and any(x[1] < t["start"] < x[2] and x[4] == x[2] and min(mine) < x[2] for x in live):
                    m.add("later_task_registers_earlier_deadline")
    return m


def nontrivial(script, out):
    return len(mechanisms(script, out)) >= 2


# ----------------------------------------------------------------------------- generator
def gen_dur(rng):
    r = rng.random()
    if r < 0.80: return rng.choice(SMALL)
    if r < 0.90: return rng.choice([MS, 3 * MS, 10 * MS, 20 * MS])
    if r < 0.98: return rng.randint(0, 40)
    return rng.choice(FAR)          # a far-future timer that fires costs ~1e6 calendar-queue scan steps


def gen_step(rng, now_hint):
    r = rng.random()
    if r < 0.22:
        return ("sleep", gen_dur(rng))
    if r < 0.28:
        return ("until", rng.choice([0, 5, 10, 20, now_hint, now_hint + 5, max(0, now_hint - 3)]))
    if r < 0.46:
        d = gen_dur(rng)
        c = rng.random()
        if c < 0.25: return ("timeout", d, None)
        if c < 0.45: return ("timeout", d, d)
        if c < 0.70: return ("timeout", d if rng.random() < 0.75 else rng.choice(FAR + FAR_ODD), rng.choice(SMALL))
        return ("timeout", d, gen_dur(rng))
    if r < 0.62:
        a = gen_dur(rng)
        b = a if rng.random() < 0.3 else gen_dur(rng)
        if rng.random() < 0.25: b = rng.choice(FAR + FAR_ODD)
        # an unbiased select! polls its branches in an order drawn from tokio's RNG: when one branch is ready at the first
        # poll the other one is registered (and dropped) or not -- visible in the driver snapshots -- so such selects are biased
        return ("select", rng.random() < 0.8 or min(a, b) == 0, a, b)
    if r < 0.72:
        p = rng.choice(PERIODS)
        busy = tuple(rng.choice(BUSY) for _ in range(rng.randint(1, 6)))
        return ("interval", p, rng.randint(0, 2), busy)
    if r < 0.84:
        d1 = gen_dur(rng)
        d2 = d1 if rng.random() < 0.2 else gen_dur(rng)
        if rng.random() < 0.15: d1 = rng.choice(FAR_ODD)       # the first deadline never fires: it is reset at once
        return ("reset", rng.random() < 0.8, d1, d2)
    if r < 0.95:
        return ("drop", gen_dur(rng) if rng.random() < 0.85 else rng.choice(FAR_ODD))
    return ("log",)


def gen_script(rng):
    mods = rng.choice([1, 1, 2])
    nt = rng.choice([1, 2, 2, 3, 3, 4, 6])
    tasks = []
    for k in range(nt):
        start = 0 if rng.random() < 0.6 else rng.choice([1, 5, 5, 10, 10, 15, 20, 3, 7, 10 * MS])
        steps = []
        t = {"mod": rng.randrange(mods), "start": start, "steps": steps}
        for _ in range(rng.choice([1, 2, 2, 3, 3, 4, 5, 7])):
            _, _, now = expect_task(t)
            steps.append(gen_step(rng, now))
        tasks.append(t)
    # hand-over: a boxed Sleep polled by one task and awaited by another task of the same module, one channel per pair
    ch = 0
    while rng.random() < (0.35 if ch == 0 else 0.25) and ch < 3:
        cand = [(i, j) for i in range(nt) for j in range(nt) if i != j and tasks[i]["mod"] == tasks[j]["mod"]]
        r = rng.random()
        if cand and r < 0.9:
            i, j = rng.choice(cand)
            tasks[i]["steps"].insert(rng.randint(0, len(tasks[i]["steps"])), ("hand", ch, rng.choice([5, 10, 10, 15, 20, 25, 0, 10 * MS])))
            tasks[j]["steps"].insert(rng.randint(0, len(tasks[j]["steps"])), ("recv", ch))
        elif r < 0.95:
            i = rng.randrange(nt)
            tasks[i]["steps"].insert(rng.randint(0, len(tasks[i]["steps"])), ("hand", ch, rng.choice([5, 10, 20])))
        else:
            i = rng.randrange(nt)
            tasks[i]["steps"].append(("recv", ch))
        ch += 1
    # hand-over chains: a registered Sleep is passed on more than once, also back to a task that polled it earlier
    # (A->B->A, A->B->C->A, A->B->A->B, ...); a link may poll it through the waker of a sub-executor
    if rng.random() < 0.16:
        m = rng.randrange(mods)
        ids = [i for i in range(len(tasks)) if tasks[i]["mod"] == m]
        while len(ids) < 3 and len(tasks) < 6 and (len(ids) < 2 or rng.random() < 0.5):
            tasks.append({"mod": m, "start": 0 if rng.random() < 0.7 else rng.choice([1, 3, 5]),
                          "steps": [gen_step(rng, 0) for _ in range(rng.choice([0, 0, 1, 2]))]})
            ids.append(len(tasks) - 1)
        if len(ids) >= 2:
            rng.shuffle(ids)
            pat = rng.choice(["ABA", "ABA", "ABA", "ABCA", "ABAB", "ABAB", "ABCB", "AABA", "ABBA", "ABCAB"])
            if len(ids) < 3 and "C" in pat: pat = rng.choice(["ABA", "ABAB", "AABA"])
            who = [ids["ABC".index(c)] for c in pat]
            d = rng.choice([10, 15, 20, 25, 25, 40, 10 * MS])
            pos = {}
            for n, i in enumerate(who):
                st = tasks[i]["steps"]
                at = rng.randint(pos.get(i, 0), len(st)) if rng.random() < 0.5 else pos.get(i, 0)
                if n == 0: step = ("hand", 10, d)
                elif n == len(who) - 1: step = ("recv", 10 + n - 1)
                else: step = ("relay", rng.random() < 0.2, 10 + n - 1, 10 + n)
                st.insert(at, step)
                pos[i] = at + 1
    # same task, other waker: a registered Sleep is polled first with the task's waker and then through a sub-executor
    # that polls with its own waker (and only when that waker was woken), or the other way round; other timers of the
    # module before / at / after its deadline
    if rng.random() < 0.14:
        for _ in range(rng.choice([1, 1, 2])):
            i = rng.randrange(len(tasks))
            d = rng.choice([5, 10, 10, 15, 20, 25, 3, 10 * MS, 0])
            tasks[i]["steps"].insert(rng.randint(0, len(tasks[i]["steps"])), ("wrap", rng.random() < 0.4, d))
    # keep-alive timers: created disarmed (far-future: sleep(Duration::MAX), at t = 0 or later), armed by reset, several tasks arm
    # theirs to the SAME deadline, one of them is re-armed or dropped before it -- every removal by id must hit the right entry
    if rng.random() < 0.18:
        m = rng.randrange(mods)
        D = rng.choice([10, 13, 15, 20, 25])
        for j in range(rng.choice([2, 2, 3])):
            p0 = rng.choice([0, 1, 3, 3, 5])
            if p0 >= D: p0 = 0
            d2 = D - p0 if rng.random() < 0.8 else rng.choice([5, 10, 20])
            early = (j == 0) if rng.random() < 0.8 else rng.random() < 0.5
            if rng.random() < 0.12:
                d2, early = rng.choice([10**16 + 1, 2**53 + 3, 10**16 + 7]), True      # armed far ahead (odd ns above 2^53), cut early
            x = rng.randint(1, max(1, min(d2, 40) - 1)) if early else d2 + rng.choice([0, 1, 30])
            d3 = rng.choice([5, 20, max(1, min(d2, 40) - x), 7, FARK if rng.random() < 0.1 else 9])
            d0 = FARK if rng.random() < 0.8 else rng.choice([50, 10**16 + 1, D])
            steps = ([("sleep", p0)] if p0 > 0 else []) + [("keep", rng.random() < 0.6, d0, d2, x, d3)]
            if rng.random() < 0.4:
                steps.append(gen_step(rng, p0 + min(d2, 40)))
            tasks.append({"mod": m, "start": 0 if rng.random() < 0.8 else rng.choice([2, 5]), "steps": steps})
        if rng.random() < 0.3:
            tasks.append({"mod": m, "start": 0, "steps": [("sleep", 3), ("reset", True, FARK, D - 3 if D > 3 else 7)]})
    # message-driven cancellation: a task waits in timeout(d, recv) / select{recv, sleep(d)}; a task spawned by a
    # message at a scripted instant sends at once (= a message event whose handler sends on the channel); later
    # timers of the receiver's module depend on the wake-up bookkeeping surviving the cancelled timer
    if rng.random() < 0.28:
        for attempt in range(4):
            cand = [dict(t, steps=list(t["steps"])) for t in tasks]
            j = rng.randrange(len(cand))
            pos = rng.randint(0, len(cand[j]["steps"]))
            d = rng.choice([10, 10, 15, 20, 25, 40])
            st = ("trecv", d, 7) if rng.random() < 0.6 else ("selrecv", rng.random() < 0.7, 7, d)
            cand[j]["steps"].insert(pos, st)
            if rng.random() < 0.85:
                tail = rng.choice([("sleep", d), ("sleep", 2 * d), ("until", 3 * d + cand[j]["start"]), ("timeout", 2 * d, 3 * d),
                                   ("select", True, d + 5, 2 * d), ("reset", True, d, 2 * d)])
                cand[j]["steps"].insert(pos + 1, tail)
            _, _, arr, stt, _, _ = walk_task(dict(cand[j], steps=cand[j]["steps"][:pos]), {}, collections.defaultdict(lambda: (1, 1)))
            if stt != "done":
                continue
            off = rng.choice([1, 2, 2, 5, 5, 7, 9, d - 1, d + 1, d + 5])
            snd = {"mod": cand[j]["mod"], "start": max(1, arr + off),
                   "steps": [("hand", 7, rng.choice([3, 5, 20, 50]))] + [gen_step(rng, arr + off) for _ in range(rng.choice([0, 0, 1, 2]))]}
            cand.append(snd)
            if any(e[5]["ties"] for e in expect_all(cand)):
                continue        # an arrival in the very instant of the deadline: outcome depends on tokio's task order
            tasks = cand
            break
    return encode(mods, tasks)


def affordable(script):
    """No timer FIRES later than ~5.5 h of simulated time (the calendar queue scans 2.5 ms buckets one by one)."""
    _, tasks = parse(script)
    for e in expect_all(tasks):
        for rec in e[0]:
            if rec[0][0] != INF and rec[0][0] > 2 * 10**13:
                return False
    return True


def gen(rng, n):
    k = 0
    while k < n:
        sc = gen_script(rng)
        if affordable(sc):
            k += 1
            yield sc


EX_SMALL = [("sleep", 5), ("sleep", 10), ("sleep", 15), ("timeout", 10, 5), ("timeout", 5, None),
            ("select", True, 5, 10), ("select", True, 10, 10), ("reset", True, 5, 10), ("drop", 5)]
EX_ALPHABET = [("sleep", 5), ("sleep", 10), ("sleep", 15),
               ("timeout", 10, 5), ("timeout", 10, 10), ("timeout", 10, 15), ("timeout", 5, None),
               ("select", True, 5, 10), ("select", True, 10, 10), ("select", True, 15, 10),
               ("reset", True, 5, 10), ("reset", True, 10, 5), ("drop", 5)]


def exhaustive():
    """(1) every script of two tasks on one module, both spawned at start-up, each of <= 3 steps over the 9-symbol alphabet
    EX_SMALL (durations 5/10/15), up to the order of the two tasks; (2) every script of two tasks on one module, the first of
    <= 3 steps spawned at start-up, the second of 1..2 steps spawned by a message at t=5, over the 13-symbol alphabet EX_ALPHABET;
    (3) every hand-over script [<=1 step] send(sleep 5/10/15) [<=1 step] | [<=1 step] receive+await [<=1 step] over EX_SMALL;
    (6) same task, other waker: [<=1 step] sub-executor step (either order, sleep 5/10) [<=1 step], alone and next to a one-step task;
    (7) hand-over chains A->B->A, A->B->A->B, A->B->C->A, A->A->B->A, A->B->C->B of a sleep 10/20, [<=1 step] before B's first
    link and after the final await, the first link polling directly or through a sub-executor;
    (5) keep-alive timers: two tasks, each [sleep 0|3] keepalive(d0 = MAX|50, armed to now+10|7, select against sleep(4|50), then
    re-arm(now+5|20) | drop) [sleep 5]: every pair;
    (4) every message-driven cancellation script [<=1 step] timeout(10, recv)|select{recv,sleep(10)} [<=1 step] with the sender
    spawned by a message at 2/5/12 = send(sleep 5/20) [<=1 step], over EX_SMALL"""
    seqs = [s for n in range(0, 4) for s in itertools.product(EX_SMALL, repeat=n)]
    for i, a in enumerate(seqs):
        for b in seqs[i:]:
            yield encode(1, [{"mod": 0, "start": 0, "steps": list(a)}, {"mod": 0, "start": 0, "steps": list(b)}])
    seqs3 = [s for n in range(0, 4) for s in itertools.product(EX_ALPHABET, repeat=n)]
    seqs2 = [s for n in range(1, 3) for s in itertools.product(EX_ALPHABET, repeat=n)]
    for a in seqs3:
        for b in seqs2:
            yield encode(1, [{"mod": 0, "start": 0, "steps": list(a)}, {"mod": 0, "start": 5, "steps": list(b)}])
    # (3) hand-over: sender = [<=1 step] send(sleep d) [<=1 step], receiver (spawned at 0 or by a message at 5) =
    # [<=1 step] receive+await [<=1 step], over EX_SMALL and d in 5/10/15
    opt = [()] + [(x,) for x in EX_SMALL]
    for pa in opt:
        for d in (5, 10, 15):
            for sa in opt:
                for st in (0, 5):
                    for pb in opt:
                        for sb in opt:
                            yield encode(1, [{"mod": 0, "start": 0, "steps": list(pa) + [("hand", 0, d)] + list(sa)},
                                             {"mod": 0, "start": st, "steps": list(pb) + [("recv", 0)] + list(sb)}])
    # (5) keep-alive timers
    one = []
    for p0 in (0, 3):
        for rearm in (True, False):
            for d0 in (FARK, 50):
                for d2 in (10, 7):
                    for x in (4, 50):
                        for d3 in ((5, 20) if rearm else (5,)):
                            for tail in ((), (("sleep", 5),)):
                                one.append(([("sleep", p0)] if p0 else []) + [("keep", rearm, d0, d2, x, d3)] + list(tail))
    for a in one:
        for b in one:
            yield encode(1, [{"mod": 0, "start": 0, "steps": a}, {"mod": 0, "start": 0, "steps": b}])
    # (6) same task, other waker: [<=1 step] wrap(order, 5|10) [<=1 step], alone and next to a second task [<=1 step] over EX_SMALL
    for pa in opt:
        for wf in (False, True):
            for d in (5, 10):
                for sa in opt:
                    yield encode(1, [{"mod": 0, "start": 0, "steps": list(pa) + [("wrap", wf, d)] + list(sa)}])
                    for pb in opt[1:]:
                        yield encode(1, [{"mod": 0, "start": 0, "steps": list(pa) + [("wrap", wf, d)] + list(sa)},
                                         {"mod": 0, "start": 0, "steps": list(pb)}])
    # (7) hand-over chains A->B->A, A->B->A->B, A->B->C->A, A->A'->B->A (A' = A through a sub-executor waker): sleep 10|20,
    # [<=1 step] before B's first link, [<=1 step] after the final await, every link plain or through a sub-executor (first only)
    for pat in ("ABA", "ABAB", "ABCA", "AABA", "ABCB"):
        for d in (10, 20):
            for pb in opt:
                for sz in opt:
                    for wr in (False, True):
                        who = ["ABC".index(c) for c in pat]
                        tasks = [{"mod": 0, "start": 0, "steps": []} for _ in range(max(who) + 1)]
                        tasks[1]["steps"] += list(pb)
                        for n, i in enumerate(who):
                            if n == 0: step = ("hand", 10, d)
                            elif n == len(who) - 1: step = ("recv", 10 + n - 1)
                            else: step = ("relay", wr and n == 1, 10 + n - 1, 10 + n)
                            tasks[i]["steps"].append(step)
                        tasks[who[-1]]["steps"] += list(sz)
                        yield encode(1, tasks)
    # (4) message-driven cancellation: receiver = [<=1 step] timeout(10, recv) | select{recv, sleep(10)} [<=1 step],
    # sender spawned by a message at 2 / 5 / 12 = send(sleep 5|20) [<=1 step]; arrivals in the instant of the deadline excluded
    for pb in opt:
        for rstep in (("trecv", 10, 0), ("selrecv", True, 0, 10), ("selrecv", False, 0, 10)):
            for sb in opt:
                for st in (2, 5, 12):
                    for d in (5, 20):
                        for sa in opt:
                            tasks = [{"mod": 0, "start": 0, "steps": list(pb) + [rstep] + list(sb)},
                                     {"mod": 0, "start": st, "steps": [("hand", 0, d)] + list(sa)}]
                            if any(e[5]["ties"] for e in expect_all(tasks)):
                                continue
                            yield encode(1, tasks)
