"""Shared by C01/C03: script format, generator and a reference interpreter for the
calendar queue scripts `n t op*` (see coq/CQueue/Model.v `run`)."""

NS = [1, 2, 3, 7, 32, 1028]
TS = [1, 3, 1000, 2500000, 1000000000]


def split(script):
    hdr, ops, i = script[:4], [], 4
    while i < len(script):
        k = {1: 3, 2: 2, 3: 1, 4: 1, 5: 1, 6: 1, 7: 1}.get(script[i])
        if k is None or i + k > len(script):
            break
        ops.append(script[i:i + k]); i += k
    return hdr, ops


def join(hdr, ops):
    out = list(hdr)
    for o in ops:
        out += o
    return out


def pretty(script):
    hdr, ops = split(script)
    names = {1: "add", 2: "cancel", 3: "fetch", 4: "len", 5: "time", 6: "peek", 7: "check-invariant"}
    s = "n=%d t=%dns start=%d unit=%dns: " % tuple(hdr)
    parts = []
    for o in ops:
        if o[0] == 1:
            parts.append("add(t=%d,p=%d)" % (o[1], o[2]))
        elif o[0] == 2:
            parts.append("cancel(#%d)" % o[1])
        else:
            parts.append(names[o[0]])
    return s + "; ".join(parts)


class Ref:
    """Two-list reference (the Coq Spec, in Python) used by generators and monitors."""
    def __init__(self, ts=0):
        self.tcur = ts; self.zero = []; self.rest = []; self.next = 0; self.handles = []

    def add(self, t, p):
        if t < self.tcur:
            return False
        e = (t, self.next, p)
        self.handles.append(self.next)
        self.next += 1
        if t == self.tcur:
            self.zero.append(e)
        else:
            self.rest.append(e); self.rest.sort(key=lambda x: (x[0], x[1]))
        return True

    def cancel(self, k):
        if not self.handles:
            return
        i = self.handles[k % len(self.handles)]
        self.zero = [e for e in self.zero if e[1] != i]
        self.rest = [e for e in self.rest if e[1] != i]

    def fetch(self):
        if self.zero:
            return self.zero.pop(0)
        if self.rest:
            e = self.rest.pop(0); self.tcur = e[0]; return e
        return None

    def pending(self):
        return self.zero + self.rest


def gen_script(rng, maxlen=60, tie_heavy=False):
    n = rng.choice(NS); t = rng.choice(TS)
    if rng.random() < 0.15:
        n = rng.randint(1, 40); t = rng.randint(1, 50)
    ts = 0
    if rng.random() < 0.25:
        ts = rng.choice([1, t - 1 if t > 1 else 1, t, t + 1, n * t, n * t + 1, 3 * n * t - 1, rng.randint(1, 5 * n * t)])
        ts = max(1, ts)
    ref = Ref(ts)
    ops = []
    L = rng.randint(1, maxlen)
    pay = 100
    year = n * t
    recent = []
    for _ in range(L):
        r = rng.random()
        if r < 0.50:
            base = ref.tcur
            c = rng.random()
            if tie_heavy and recent and c < 0.5:
                time = rng.choice(recent)
            elif c < 0.15:
                time = base
            elif c < 0.25:
                time = base + 1
            elif c < 0.33:
                time = base + t - 1
            elif c < 0.41:
                time = base + t
            elif c < 0.50:
                time = base + rng.randint(0, 5) * t
            elif c < 0.58:
                time = (base // year + rng.randint(0, 3)) * year
            elif c < 0.64:
                time = (base // year + 1) * year + rng.choice([-1, 1])
            elif c < 0.70:
                time = base + year * rng.randint(1, 4) + rng.randint(0, t)
            elif c < 0.75:
                # far-future outlier; the number of scan steps stays bounded so both runners finish quickly
                lim = max(2000, 200000 // n)
                time = base + t * rng.randint(lim // 10, lim) + rng.randint(0, t)
            elif c < 0.80 and recent:
                time = rng.choice(recent)
            elif c < 0.85 and base > 0:
                time = rng.randint(0, base - 1) if rng.random() < 0.7 else base - 1  # contract violation
            else:
                time = base + rng.randint(0, 3 * year + 3)
            time = max(0, time)
            ops.append([1, time, pay])
            if ref.add(time, pay):
                recent.append(time); recent = recent[-6:]
            pay += 1
        elif r < 0.78:
            ops.append([3]); ref.fetch()
        elif r < 0.90:
            k = rng.randint(0, max(0, len(ref.handles) + 1))
            ops.append([2, k]); ref.cancel(k)
        elif r < 0.92:
            ops.append([4])
        elif r < 0.95:
            ops.append([6])
        elif r < 0.98:
            ops.append([7])
        else:
            ops.append([5])
    if rng.random() < 0.6:  # drain
        for _ in range(len(ref.pending()) + 1):
            ops.append([3]); ref.fetch()
        ops.append([4])
    return join([n, t, ts, 0], ops)


def gen_far(rng):
    """Far-future outliers beyond 2^64 bucket widths (times given in units of 2^k ns): such events are
    added and cancelled (or left pending) but never fetched, because reaching them would take 2^64 scan
    steps; near events around them are scheduled and fetched normally."""
    n = rng.choice([1, 3, 7, 10, 32, 1028]); t = rng.choice([1, 3, 1000])
    unit = 1 << rng.choice([32, 34, 36])
    ts = rng.choice([0, 0, 1, rng.randint(1, 1000)])
    ref = Ref(ts)
    ops = []; pay = 100; far = []   # handle indices of far events
    farpay = set()
    for _ in range(rng.randint(4, 40)):
        r = rng.random()
        near_pending = [e for e in ref.pending() if e[2] not in farpay]
        if r < 0.25:
            # far: at least 2^64 * t ns ahead => time_units * unit >= 2^64 * t
            base = ((1 << 64) * t) // unit + 1
            time = base * rng.randint(1, 4) + rng.randint(0, 1000)
            if time < (1 << 61) and ref.add(time, pay):
                far.append(len(ref.handles) - 1); farpay.add(pay)
                ops.append([1, time, pay]); pay += 1
        elif r < 0.50:
            time = ref.tcur + rng.choice([0, 1, 2, rng.randint(0, 50)])
            # near events stay within a few thousand bucket widths of the clock (unit/t can be large)
            if ((time - ref.tcur) * unit) // t <= 200000 // n + 2000 and ref.add(time, pay):
                ops.append([1, time, pay]); pay += 1
        elif r < 0.70 and near_pending:
            ops.append([3]); ref.fetch()
        elif r < 0.85 and far:
            k = rng.choice(far)
            ops.append([2, k]); ref.cancel(k)
        elif r < 0.93:
            ops.append([4])
        else:
            ops.append([6] if near_pending or not ref.pending() else [4])
    # cancel every far event, then drain what is left
    for k in far:
        ops.append([2, k]); ref.cancel(k)
    ops.append([4]); ops.append([7])
    for _ in range(len(ref.pending()) + 1):
        ops.append([3]); ref.fetch()
    ops.append([4])
    return join([n, t, ts, unit], ops)


def gen_beyond(rng):
    """The whole history lives beyond 2^64 ns (a queue created with new_at out there): events are scheduled a few
    bucket widths ahead of the clock and fetched normally, so bucket-index arithmetic is exercised on timestamps that
    do not fit in 64 bits of nanoseconds."""
    unit = 1 << rng.choice([32, 34, 36])
    c = rng.choice([1, 2, 4, 8])
    # bucket widths: a power of two, or one that does not divide 2^64 (so truncated arithmetic shifts buckets unevenly)
    t = rng.choice([unit // c, 10**9, 2500000000, 999999937, 3 * (unit // 8)])
    if (40 * unit) // t > 5000:
        t = unit // c
    n = rng.choice([1, 3, 7, 10, 32])
    ts = (1 << 64) // unit + rng.randint(0, 50)
    ref = Ref(ts)
    ops = []; pay = 100
    for _ in range(rng.randint(5, 50)):
        r = rng.random()
        if r < 0.5:
            time = ref.tcur + rng.choice([0, 0, 1, 1, 2, 3, rng.randint(0, 40)])
            if rng.random() < 0.08 and ref.tcur > ts:
                time = ref.tcur - 1          # contract violation
            ops.append([1, time, pay]); ref.add(time, pay); pay += 1
        elif r < 0.78:
            ops.append([3]); ref.fetch()
        elif r < 0.9:
            k = rng.randint(0, len(ref.handles) + 1)
            ops.append([2, k]); ref.cancel(k)
        elif r < 0.94:
            ops.append([6])
        elif r < 0.97:
            ops.append([7])
        else:
            ops.append([rng.choice([4, 5])])
    for _ in range(len(ref.pending()) + 1):
        ops.append([3]); ref.fetch()
    ops.append([4])
    return join([n, t, ts, unit], ops)


def gen_hugeyear(rng):
    """Parameterisations whose calendar year n*t is 2^64 ns or more (bucket widths of decades): the year length, and
    for many timestamps the timestamp itself, no longer fit 64-bit nanoseconds while every single argument does."""
    t = rng.choice([1 << 60, (1 << 61) + 12345, 3155760000000000000, 1 << 63, (1 << 62) + 1, 10**18])
    n = rng.choice([k for k in (2, 3, 5, 8, 17, 32) if k * t >= (1 << 64)])
    c = rng.choice([1, 1, 2, 4, 8])
    unit = t // c
    ts = rng.choice([0, 0, 0, 1, c, n * c - 1])
    ref = Ref(ts)
    ops = []; pay = 100
    for _ in range(rng.randint(5, 45)):
        r = rng.random()
        if r < 0.5:
            time = ref.tcur + rng.choice([0, 0, 1, 1, 2, 3, c, n * c, n * c + 1, rng.randint(0, 2 * n * c + 2)])
            if rng.random() < 0.06 and ref.tcur > ts:
                time = ref.tcur - 1          # contract violation
            ops.append([1, time, pay]); ref.add(time, pay); pay += 1
        elif r < 0.78:
            ops.append([3]); ref.fetch()
        elif r < 0.9:
            k = rng.randint(0, len(ref.handles) + 1)
            ops.append([2, k]); ref.cancel(k)
        elif r < 0.94:
            ops.append([6])
        elif r < 0.97:
            ops.append([7])
        else:
            ops.append([rng.choice([4, 5])])
    for _ in range(len(ref.pending()) + 1):
        ops.append([3]); ref.fetch()
    ops.append([4])
    return join([n, t, ts, unit], ops)


def walk(script, out):
    """Align implementation output records with operations. Yields (op, record) or raises."""
    hdr, ops = split(script)
    i = 0
    recs = []
    for o in ops:
        if i >= len(out):
            raise ValueError("output too short")
        tag = out[i]
        ln = {1: 1, 2: 3, 3: 2, 4: 2, 5: 1, 9: 2, 8: 1, 7: 6}.get(tag)
        if tag == 6:
            ln = 3 if (i + 1 < len(out) and out[i + 1] == 1) else 2
        if ln is None:
            raise ValueError("bad record tag %d" % tag)
        recs.append((o, out[i:i + ln])); i += ln
    if i != len(out):
        raise ValueError("trailing output")
    return recs


def mechanisms(script, out):
    hdr, ops = split(script)
    n, t, ts, unit = hdr
    unit = unit or 1
    m = set()
    if ts: m.add("nonzero_start")
    if unit > 1: m.add("beyond_2^64_ns")
    ref = Ref(ts)
    for o in ops:
        if o[0] == 1:
            if o[1] == ref.tcur: m.add("add_at_current_time")
            if o[1] < ref.tcur: m.add("add_in_past")
            if o[1] > ref.tcur and (o[1] * unit) % (n * t) == 0: m.add("year_multiple")
            if o[1] > ref.tcur and (o[1] * unit) // (n * t) > (ref.tcur * unit) // (n * t): m.add("later_year")
            if (o[1] * unit) // t >= (1 << 64): m.add("slot_beyond_usize")
            if any(e[0] == o[1] for e in ref.pending()): m.add("tie")
            if ((o[1] - ref.tcur) * unit) // t > 1000: m.add("far_future")
            ref.add(o[1], o[2])
        elif o[0] == 2:
            if ref.handles:
                i = ref.handles[o[1] % len(ref.handles)]
                if any(e[1] == i for e in ref.pending()):
                    m.add("cancel_pending")
                    if any(e[1] == i and e[0] == ref.tcur for e in ref.rest): m.add("cancel_bucketed_at_current_time")
                else:
                    m.add("cancel_not_pending")
            ref.cancel(o[1])
        elif o[0] == 3:
            if not ref.pending(): m.add("fetch_empty")
            ref.fetch()
        elif o[0] == 6:
            m.add("peek")
        elif o[0] == 7:
            m.add("representation_invariant_checked")
    return m
