"""Shared by C02/C10/C11: script format, generators, output parser and the property
monitors for the generic runtime scripts (coq/Runtime/Model.v `run`, harness/src/bin/rt.rs).

script: n t u start budget cbk cbt  nb {bcall}  K {na {action}}  np {time label}  {sop}
  bcall  = 1 n (max_itr) | 2 T (max_time) | 3 tree (limit)
  tree   = 0 | 1 n | 2 T | 3 tree tree (And) | 4 tree tree (Or)
  action = kind x label   (kind 0: add_event_in(label, x); else add_event(label, x))
  sop    = 1 k | 2 T | 3 time label
cbk > 0: while the cbk-th event of each run is being handled another thread calls Builder::build with start time cbt
  (the model ignores both)
every time is in units of u ns (u = 0 means 1) and printed divided by u; n, t are plain ns
output: three blocks (U: no limit, A: configured limit via run(), B: stepped), each
  {1 | 9 1}^np  [step records]  4 count end  nlog {label now}  nadds {time label now ctx ok}  nrem {time label}
"""

# ----------------------------------------------------------------------------- structure
class Script:
    def __init__(self, n=4, t=1, start=0, budget=0, calls=None, table=None, pre=None, sched=None, unit=0, cb=(0, 0)):
        self.n, self.t, self.start, self.budget, self.unit, self.cb = n, t, start, budget, unit, tuple(cb)
        self.calls = calls or []      # ('itr', n) | ('time', T) | ('limit', tree)
        self.table = table or []      # list of list of (kind, x, label)
        self.pre = pre or []          # (time, label)
        self.sched = sched or []      # (1,k) | (2,T) | (3,time,label)

    def encode(self):
        out = [self.n, self.t, self.unit, self.start, self.budget, self.cb[0], self.cb[1], len(self.calls)]
        for c in self.calls:
            if c[0] == 'itr':
                out += [1, c[1]]
            elif c[0] == 'time':
                out += [2, c[1]]
            else:
                out += [3] + enc_tree(c[1])
        out.append(len(self.table))
        for acts in self.table:
            out.append(len(acts))
            for a in acts:
                out += list(a)
        out.append(len(self.pre))
        for p in self.pre:
            out += list(p)
        for o in self.sched:
            out += list(o)
        return out


def enc_tree(tr):
    k = tr[0]
    if k == 'none':
        return [0]
    if k == 'count':
        return [1, tr[1]]
    if k == 'time':
        return [2, tr[1]]
    return [3 if k == 'and' else 4] + enc_tree(tr[1]) + enc_tree(tr[2])


class Cur:
    def __init__(self, v):
        self.v, self.i = v, 0

    def done(self):
        return self.i >= len(self.v)

    def next(self):
        x = self.v[self.i] if self.i < len(self.v) else 0
        self.i += 1
        return x


def dec_tree(c):
    tag = c.next()
    if tag == 1:
        return ('count', c.next())
    if tag == 2:
        return ('time', c.next())
    if tag in (3, 4):
        a = dec_tree(c)
        b = dec_tree(c)
        return ('and' if tag == 3 else 'or', a, b)
    return ('none',)


def dec_counted(c, f):
    k = c.next()
    out = []
    while k > 0 and not c.done():
        out.append(f(c))
        k -= 1
    return out


def decode(script):
    s = Script(script[0] if script else 0, script[1] if len(script) > 1 else 0)
    s.unit = script[2] if len(script) > 2 else 0
    c = Cur(script[3:])
    s.start = c.next()
    s.budget = c.next()
    s.cb = (c.next(), c.next())

    def bc(c):
        tag = c.next()
        if tag == 1:
            return ('itr', c.next())
        if tag == 2:
            return ('time', c.next())
        return ('limit', dec_tree(c))
    s.calls = dec_counted(c, bc)
    s.table = dec_counted(c, lambda c: dec_counted(c, lambda c: (c.next(), c.next(), c.next())))
    s.pre = dec_counted(c, lambda c: (c.next(), c.next()))
    s.sched = []
    while not c.done():
        tag = c.next()
        if tag == 1:
            s.sched.append((1, c.next()))
        elif tag == 2:
            s.sched.append((2, c.next()))
        elif tag == 3:
            s.sched.append((3, c.next(), c.next()))
        else:
            break
    return s


# op-level structure for shrinking: header = [n,t,start,budget,K]; ops are tagged tuples
def split(script):
    s = decode(script)
    ops = [('call', c) for c in s.calls]
    for lb, acts in enumerate(s.table):
        ops += [('act', lb, a) for a in acts]
    ops += [('pre', p) for p in s.pre]
    ops += [('sop', o) for o in s.sched]
    return [s.n, s.t, s.start, s.budget, len(s.table), s.unit, s.cb[0], s.cb[1]], ops


def join(hdr, ops):
    s = Script(hdr[0], hdr[1], hdr[2], hdr[3], unit=hdr[5], cb=(hdr[6], hdr[7]))
    s.table = [[] for _ in range(hdr[4])]
    for o in ops:
        if o[0] == 'call':
            s.calls.append(o[1])
        elif o[0] == 'act':
            s.table[o[1]].append(o[2])
        elif o[0] == 'pre':
            s.pre.append(o[1])
        else:
            s.sched.append(o[1])
    return s.encode()


def show_tree(tr):
    k = tr[0]
    if k == 'none':
        return "None"
    if k == 'count':
        return "EventCount(%d)" % tr[1]
    if k == 'time':
        return "SimTime(%d)" % tr[1]
    return "(%s %s %s)" % (show_tree(tr[1]), "and" if k == 'and' else "or", show_tree(tr[2]))


def pretty(script):
    s = decode(script)
    parts = ["cqueue(n=%d,t=%dns) unit=%dns start_time=%d budget=%d" % (s.n, s.t, s.unit or 1, s.start, s.budget)]
    if s.cb[0]:
        parts.append("another thread calls Builder::start_time(%d).build() during event #%d" % (s.cb[1], s.cb[0]))
    for c in s.calls:
        parts.append({'itr': "max_itr(%d)", 'time': "max_time(%d)"}[c[0]] % c[1] if c[0] != 'limit' else "limit(%s)" % show_tree(c[1]))
    for lb, acts in enumerate(s.table):
        if acts:
            parts.append("on %d: %s" % (lb, ", ".join(("in(+%d)->%d" % (a[1], a[2])) if a[0] == 0 else ("at(%d)->%d" % (a[1], a[2])) for a in acts)))
    parts.append("pre: " + ", ".join("add_event(%d@%d)" % (p[1], p[0]) for p in s.pre))
    sch = []
    for o in s.sched:
        sch.append("dispatch_n_events(%d)" % o[1] if o[0] == 1 else "dispatch_events_until(%d)" % o[1] if o[0] == 2 else "add_event(%d@%d)" % (o[2], o[1]))
    parts.append("steps: " + "; ".join(sch) + "; dispatch_all; finish")
    return " | ".join(parts)


# ----------------------------------------------------------------------------- limits (the property's reading)
def applies(tr, itr, time):
    k = tr[0]
    if k == 'none':
        return False
    if k == 'count':
        return itr > tr[1]
    if k == 'time':
        return time > tr[1]
    if k == 'and':
        return applies(tr[1], itr, time) and applies(tr[2], itr, time)
    return applies(tr[1], itr, time) or applies(tr[2], itr, time)


def tree_of_calls(calls):
    """The Builder's composition read as the property states it: any of the given limits stops the run."""
    trs = []
    for c in calls:
        trs.append(('count', c[1]) if c[0] == 'itr' else ('time', c[1]) if c[0] == 'time' else c[1])
    if not trs:
        return ('none',)
    acc = trs[0]
    for x in trs[1:]:
        acc = ('or', acc, x)
    return acc


def tree_depth(tr):
    return 0 if tr[0] in ('none', 'count', 'time') else 1 + max(tree_depth(tr[1]), tree_depth(tr[2]))


# ----------------------------------------------------------------------------- output parser
def parse_blocks(script, out):
    s = decode(script)
    i = [0]

    def need(k):
        if i[0] + k > len(out):
            raise ValueError("output too short")
        v = out[i[0]:i[0] + k]
        i[0] += k
        return v

    def add_rec():
        tag = need(1)[0]
        if tag == 1:
            return True
        if tag == 9:
            need(1)
            return False
        raise ValueError("expected an add record, got tag %d" % tag)

    def final():
        tag = need(1)[0]
        if tag != 4:
            raise ValueError("expected the final record, got tag %d" % tag)
        cnt, end = need(2)
        nl = need(1)[0]
        lg = [tuple(need(2)) for _ in range(nl)]
        na = need(1)[0]
        ad = [tuple(need(5)) for _ in range(na)]
        nr = need(1)[0]
        rm = [tuple(need(2)) for _ in range(nr)]
        return dict(count=cnt, end=end, log=lg, adds=ad, rem=rm)

    blocks = {}
    for name in ("U", "A", "B"):
        b = dict(pre=[add_rec() for _ in s.pre], steps=[])
        if name == "B":
            for o in s.sched:
                if o[0] in (1, 2):
                    tag = need(1)[0]
                    if tag != 3:
                        raise ValueError("expected a status record, got tag %d" % tag)
                    d, r, now, na = need(4)
                    b["steps"].append(dict(op=o, dispatched=d, remaining=r, now=now, nadds=na))
                else:
                    b["steps"].append(dict(op=o, ok=add_rec()))
        b["final"] = final()
        blocks[name] = b
    if i[0] != len(out):
        raise ValueError("trailing output")
    return s, blocks


def ms(pairs):
    d = {}
    for p in pairs:
        d[p] = d.get(p, 0) + 1
    return d


def ms_sub(a, b):
    """multiset difference a - b; None when b is not contained in a"""
    d = dict(a)
    for k, v in b.items():
        if d.get(k, 0) < v:
            return None
        d[k] -= v
        if d[k] == 0:
            del d[k]
    return d


def accepted(adds):
    return [(a[0], a[1]) for a in adds if a[4]]


def handled(log):
    return [(t, l) for (l, t) in log]


# ----------------------------------------------------------------------------- monitors
def check_accounting(name, start, f):
    """every accepted add_event is handled exactly once at its own timestamp, or is still remaining"""
    rest = ms_sub(ms(accepted(f["adds"])), ms(handled(f["log"])))
    if rest is None:
        return "%s: an event was handled that was never scheduled with that (time,label), or handled twice: log=%s" % (name, f["log"])
    if rest != ms(f["rem"]):
        return "%s: scheduled-but-unhandled events %s differ from the reported remaining events %s" % (name, sorted(rest.items()), f["rem"])
    return None


def monitor_c11(script, out):
    try:
        s, bl = parse_blocks(script, out)
    except ValueError as e:
        return "malformed output: %s" % e
    U, A = bl["U"]["final"], bl["A"]["final"]
    L = tree_of_calls(s.calls)
    if bl["U"]["pre"] != bl["A"]["pre"]:
        return "the same add_event calls were answered differently in two runs"
    # the unlimited run handles everything
    if U["rem"] or U["count"] != len(U["log"]):
        return "unlimited run: remaining=%s count=%d log length=%d" % (U["rem"], U["count"], len(U["log"]))
    # longest admissible prefix of the unlimited dispatch sequence
    p = []
    for i, (l, t) in enumerate(U["log"]):
        if applies(L, i + 1, t):
            break
        p.append((l, t))
    if A["log"] != p:
        return "limit %s: dispatched %s, the longest admissible prefix of %s is %s" % (show_tree(L), A["log"], U["log"], p)
    if A["count"] != len(p):
        return "event_count %d but %d events were dispatched" % (A["count"], len(p))
    exp_end = p[-1][1] if p else s.start
    if A["end"] != exp_end:
        return "end time %d, expected %d (time of the last dispatched event, start time if none)" % (A["end"], exp_end)
    m = check_accounting("limited run", s.start, A)
    if m:
        return m
    # a single EventCount / SimTime limit, read literally
    if L[0] == 'count' and len(A["log"]) != min(L[1], len(U["log"])):
        return "EventCount(%d): %d dispatched of %d available" % (L[1], len(A["log"]), len(U["log"]))
    if L[0] == 'time':
        if any(t > L[1] for (_, t) in A["log"]) or any(t <= L[1] for (t, _) in A["rem"]):
            return "SimTime(%d): dispatched %s remaining %s" % (L[1], A["log"], A["rem"])
    return None


def monitor_c02(script, out):
    try:
        s, bl = parse_blocks(script, out)
    except ValueError as e:
        return "malformed output: %s" % e
    for name in ("U", "A", "B"):
        f = bl[name]["final"]
        # clock never decreases, starting from the start time
        prev = s.start
        for (l, t) in f["log"]:
            if t < prev:
                return "%s: clock went back from %d to %d (event %d)" % (name, prev, t, l)
            prev = t
        # now() inside a handler is the scheduled timestamp; each accepted event exactly once
        m = check_accounting(name, s.start, f)
        if m:
            return m
        # scheduling at/after now succeeds, before now panics
        for (t, l, now, ctx, ok) in f["adds"]:
            if ok != (t >= now):
                return "%s: add_event(label %d, time %d) at now=%d was %s" % (name, l, t, now, "accepted" if ok else "rejected")
            if ctx > 0:
                if ctx > len(f["log"]) or f["log"][ctx - 1][1] != now:
                    return "%s: now()=%d inside the handler of event #%d differs from the time logged by that handler" % (name, now, ctx)
        if f["end"] != (f["log"][-1][1] if f["log"] else s.start):
            return "%s: run ended at %d, last handled event at %s" % (name, f["end"], f["log"][-1:] or s.start)
    return None


def monitor_c10(script, out):
    try:
        s, bl = parse_blocks(script, out)
    except ValueError as e:
        return "malformed output: %s" % e
    U, B = bl["U"]["final"], bl["B"]["final"]
    L = tree_of_calls(s.calls)
    if bl["U"]["pre"] != bl["B"]["pre"]:
        return "the same add_event calls were answered differently in two runs"
    ext = any(o[0] == 3 for o in s.sched)
    # walk the steps on the stepped run's own records
    d_prev, now = 0, s.start
    for st in bl["B"]["steps"]:
        o = st["op"]
        if o[0] == 3:
            if st["ok"] != (o[1] >= now):
                return "paused at %d: add_event at %d was %s" % (now, o[1], "accepted" if st["ok"] else "rejected")
            continue
        d = st["dispatched"]
        if d < d_prev or d > len(B["log"]):
            return "dispatched counter went from %d to %d (log has %d entries)" % (d_prev, d, len(B["log"]))
        new = B["log"][d_prev:d]
        exp_now = B["log"][d - 1][1] if d > 0 else s.start
        if st["now"] != exp_now:
            return "paused after %d events: sim_time %d, last dispatched event at %d" % (d, st["now"], exp_now)
        pending = ms_sub(ms(accepted(B["adds"][:st["nadds"]])), ms(handled(B["log"][:d])))
        if pending is None:
            return "paused after %d events: dispatched events are not among the scheduled ones" % d
        npend = sum(pending.values())
        if st["remaining"] != npend:
            return "paused after %d events: num_events_remaining %d, undelivered events %d" % (d, st["remaining"], npend)
        if o[0] == 1:
            if not (d - d_prev == o[1] or (d - d_prev < o[1] and npend == 0)):
                return "dispatch_n_events(%d) dispatched %d events, %d remained" % (o[1], d - d_prev, npend)
        else:
            if any(t > o[1] for (_, t) in new):
                return "dispatch_events_until(%d) dispatched %s" % (o[1], new)
            if any(t <= o[1] for (t, _) in pending):
                return "dispatch_events_until(%d) left %s undelivered" % (o[1], sorted(pending))
        d_prev, now = d, st["now"]
    if not ext:
        # same events, same order, same times as the uninterrupted run; with a configured limit the
        # closing dispatch_all stops where that limit first applies from the position reached
        exp = list(U["log"][:d_prev])
        if B["log"][:d_prev] != exp:
            return "stepped run dispatched %s, uninterrupted run %s" % (B["log"], U["log"])
        for i in range(d_prev, len(U["log"])):
            if applies(L, i + 1, U["log"][i][1]):
                break
            exp.append(U["log"][i])
        if B["log"] != exp:
            return "stepped run dispatched %s, uninterrupted run %s (expected %s)" % (B["log"], U["log"], exp)
        if L[0] == 'none':
            for k in ("count", "end", "adds", "rem"):
                if B[k] != U[k]:
                    return "stepped run: %s = %s, uninterrupted run: %s" % (k, B[k], U[k])
    return None


def monitor_heap(script, out):
    """What the future event set owes the runtime whatever breaks ties (C01's time-order / exactly-once / len clauses
    and C02's clock clauses, as seen through Runtime<App>): in each of the three runs dispatch times never decrease
    from the start time on, now() in a handler is the scheduled timestamp, every accepted add_event is dispatched
    exactly once at its time or returned as remaining, add_event is accepted iff its time is not before now(),
    event_count / num_events_remaining count exactly those events, the unlimited run leaves nothing behind."""
    m = monitor_c02(script, out)
    if m:
        return m
    s, bl = parse_blocks(script, out)
    for name in ("U", "A", "B"):
        f = bl[name]["final"]
        if f["count"] != len(f["log"]):
            return "%s: event_count %d but %d events were handled" % (name, f["count"], len(f["log"]))
    if bl["U"]["final"]["rem"]:
        return "unlimited run left %s undelivered" % bl["U"]["final"]["rem"]
    # a run stops with events left only where its limit applies to the EARLIEST undelivered event
    # (peek_time is the time of the next fetch)
    L = tree_of_calls(s.calls)
    for name in ("A", "B"):
        f = bl[name]["final"]
        if f["rem"]:
            tmin = min(t for (t, _) in f["rem"])
            if not applies(L, f["count"] + 1, tmin):
                return "%s: stopped after %d events although the limit %s admits the next event at %d" % (name, f["count"], show_tree(L), tmin)
    # paused states of the stepped run: counters and the undelivered multiset
    B = bl["B"]["final"]
    d_prev = 0
    for st in bl["B"]["steps"]:
        if st["op"][0] == 3:
            continue
        d = st["dispatched"]
        if d < d_prev or d > len(B["log"]):
            return "dispatched counter %d exceeds the %d handled events" % (d, len(B["log"]))
        pending = ms_sub(ms(accepted(B["adds"][:st["nadds"]])), ms(handled(B["log"][:d])))
        if pending is None:
            return "paused after %d events: a handled event was not scheduled" % d
        if st["remaining"] != sum(pending.values()):
            return "paused after %d events: len() = %d, undelivered events %d" % (d, st["remaining"], sum(pending.values()))
        if any(t < st["now"] for (t, _) in pending):
            return "paused at %d with an undelivered event before that time: %s" % (st["now"], sorted(pending))
        o = st["op"]
        if o[0] == 1 and not (d - d_prev == o[1] or (d - d_prev < o[1] and not pending)):
            return "dispatch_n_events(%d) dispatched %d events, %d remained" % (o[1], d - d_prev, sum(pending.values()))
        if o[0] == 2 and (any(t > o[1] for (_, t) in B["log"][d_prev:d]) or any(t <= o[1] for (t, _) in pending)):
            return "dispatch_events_until(%d) dispatched %s and left %s" % (o[1], B["log"][d_prev:d], sorted(pending))
        d_prev = d
    return None


def oracle_labels(script, out):
    """The labels the implementation dispatched in its three runs (second pass input of the heap model)."""
    s, bl = parse_blocks(script, out)
    extra = [0]
    for name in ("U", "A", "B"):
        lg = bl[name]["final"]["log"]
        extra += [len(lg)] + [l for (l, _) in lg]
    return list(script) + extra


# ----------------------------------------------------------------------------- reference interpreter (generators only)
class RefRt:
    """The repaired semantics, used by the generators to aim limits, cuts and adds; never by a monitor."""
    def __init__(self, s, limit=('none',)):
        self.s = s
        self.tcur = s.start; self.zero = []; self.rest = []; self.nid = 0
        self.clock = s.start; self.itr = 0; self.budget = s.budget; self.limit = limit
        self.log = []
        for (t, l) in s.pre:
            self.add(t, l)

    def add(self, t, l):
        if t < self.tcur:
            return False
        e = (t, self.nid, l); self.nid += 1
        if t == self.tcur:
            self.zero.append(e)
        else:
            self.rest.append(e); self.rest.sort()
        return True

    def peek(self):
        if self.zero:
            return self.zero[0][0]
        if self.rest:
            return self.rest[0][0]
        return None

    def pending(self):
        return self.zero + self.rest

    def dispatch(self, limit):
        """returns False when stopped"""
        t = self.peek()
        if t is None or applies(limit, self.itr + 1, t):
            return False
        if self.zero:
            e = self.zero.pop(0)
        else:
            e = self.rest.pop(0); self.tcur = e[0]
        self.itr += 1; self.clock = e[0]; self.log.append((e[2], e[0]))
        acts = self.s.table[e[2]] if e[2] < len(self.s.table) else []
        for (k, x, l) in acts:
            if self.budget == 0:
                break
            self.budget -= 1
            self.add(self.clock + x if k == 0 else x, l)
        return True

    def dispatch_all(self, limit=None):
        lim = self.limit if limit is None else limit
        while self.dispatch(lim):
            pass


def unlimited(s):
    r = RefRt(s)
    r.dispatch_all(('none',))
    return r.log


# ----------------------------------------------------------------------------- generators
NT = [(1, 1), (2, 3), (3, 1000), (7, 2500000), (32, 1000), (1028, 2500000), (4, 1), (1, 1000)]


def gen_program(rng, below_start=True, at_start=True, beyond=None):
    """A random program: cqueue parameters, start time, table, pre-run adds.  With probability ~10% (or when
    `beyond` is set) the program lives around / beyond 2^64 ns: the time unit is 2^32..2^36 ns, the start time
    lies a few units below the boundary (so the run crosses it) or beyond it, the bucket width is unit/c."""
    if beyond is None:
        beyond = rng.random() < 0.10
    unit = 0
    if beyond:
        unit = 1 << rng.choice([32, 34, 36])
        n, t = rng.choice([1, 3, 7, 10, 32]), unit // rng.choice([1, 2, 4, 8])
        u, tt = 1, 1
        start = (1 << 64) // unit + rng.choice([-3, -2, -1, -1, 0, 1, 5, 50])
    else:
        n, t = rng.choice(NT)
        if rng.random() < 0.15:
            n, t = rng.randint(1, 40), rng.randint(1, 50)
        tt = t
        u = rng.choice([1, t, max(1, t - 1), t * n, 7 * t + 1, t + 1])
        c = rng.random()
        if c < 0.45:
            start = 0
        elif c < 0.65:
            start = rng.choice([1, u, 3 * u, 2 * t * n])
        elif c < 0.85:
            start = 1000 * t + rng.randint(0, 5)
        else:
            start = 150000 * t + rng.randint(0, t)
    K = rng.randint(1, 5)
    m = rng.randint(1, 4)
    base = sorted(set(start + rng.choice([0, 0, 1, 2, 3, 5, 8]) * u + rng.choice([0, 0, 0, 1]) for _ in range(m)))
    if not at_start and start > 0:
        base = [b if b > start else start + u for b in base]
    table = []
    for _ in range(K):
        acts = []
        for _ in range(rng.choice([0, 0, 1, 1, 2, 3])):
            lb = rng.randint(0, K - 1) if rng.random() < 0.93 else K + rng.randint(0, 2)
            c = rng.random()
            if c < 0.35:
                acts.append((0, 0, lb))
            elif c < 0.80:
                acts.append((0, rng.choice([1, u, 2 * u, tt, rng.randint(0, 3 * u)]), lb))
            else:
                x = rng.choice(base) + rng.choice([-1, 0, 0, 1, u, 4 * u])
                acts.append((1, max(0, x), lb))
        table.append(acts)
    pre = []
    for _ in range(rng.choice([0, 1, 2, 3, 3, 4, 5, 6, 8])):
        tm = rng.choice(base)
        c = rng.random()
        if below_start and start > 0 and c < 0.12:
            tm = rng.choice([start - 1, start // 2, 0, max(0, start - u)])
        pre.append((tm, rng.randint(0, K - 1)))
    budget = rng.choice([0, 1, 2, 3, 5, 8, 12, 20])
    return Script(n, t, start, budget, [], table, pre, [], unit)


def add_concurrent_build(rng, s, share=0.08):
    """With a modest probability: during one of the first events of each run another thread calls Builder::build
    with a start time before / after / equal to the running simulation's clock (each such run costs a few ms)."""
    if rng.random() < share:
        total = len(unlimited(s))
        if total > 0:
            k = rng.randint(1, min(total, 4))
            s.cb = (k, rng.choice([0, 0, s.start + 1000003, max(0, s.start - 1), s.start + 1]))
    return s


def interesting_times(log, start, rng):
    ts = sorted(set(t for (_, t) in log)) or [start]
    c = rng.random()
    x = rng.choice(ts)
    if c < 0.30:
        return x
    if c < 0.45:
        return max(0, x - 1)
    if c < 0.60:
        return x + 1
    if c < 0.70 and len(ts) > 1:
        i = rng.randint(0, len(ts) - 2)
        return (ts[i] + ts[i + 1]) // 2
    if c < 0.80:
        return max(0, ts[0] - rng.choice([1, 2, 5]))
    if c < 0.90:
        return ts[-1] + rng.choice([1, 2, 1000])
    return start


def gen_leaf(rng, log, start):
    total = len(log)
    if rng.random() < 0.5:
        n = rng.choice([0, 1, max(0, total - 1), total, total + 1, rng.randint(0, total + 1)])
        return ('count', n)
    return ('time', interesting_times(log, start, rng))


def gen_tree(rng, log, start, depth):
    if depth == 0 or rng.random() < 0.25:
        return gen_leaf(rng, log, start) if rng.random() < 0.95 else ('none',)
    return (rng.choice(['and', 'or']), gen_tree(rng, log, start, depth - 1), gen_tree(rng, log, start, depth - 1))


def gen_calls(rng, log, start):
    c = rng.random()
    if c < 0.08:
        return []
    calls = []
    for _ in range(rng.choice([1, 1, 1, 2, 2, 3])):
        k = rng.random()
        if k < 0.3:
            calls.append(('itr', rng.choice([0, 1, max(0, len(log) - 1), len(log), len(log) + 1, rng.randint(0, len(log) + 1)])))
        elif k < 0.6:
            calls.append(('time', interesting_times(log, start, rng)))
        else:
            calls.append(('limit', gen_tree(rng, log, start, rng.randint(0, 4))))
    return calls


def gen_schedule(rng, s, ext=True):
    """Step schedule aimed with the reference: cuts inside tie groups, adds at/below/above the reported time."""
    r = RefRt(s, tree_of_calls(s.calls))
    sched = []
    total = len(unlimited(s))
    for _ in range(rng.choice([1, 1, 2, 2, 3, 4, 6])):
        c = rng.random()
        pend = sorted(e[0] for e in r.pending())
        if c < 0.40:
            k = rng.choice([0, 1, 1, 1, 2, 3, total, total + 3])
            sched.append((1, k))
            r.dispatch_all(('count', r.itr + k))
        elif c < 0.72 or not ext:
            cand = [r.clock, max(0, r.clock - 1)] + pend[:3] + [p + 1 for p in pend[:2]] + [max(0, p - 1) for p in pend[:2]] + ([pend[-1] + 1] if pend else [])
            T = rng.choice(cand)
            sched.append((2, T))
            r.dispatch_all(('time', T))
        else:
            cand = [r.clock, r.clock, r.clock + 1, max(0, r.clock - 1)]
            if pend:
                cand += [pend[0], max(r.clock, pend[0] - 1), (r.clock + pend[0]) // 2, pend[-1] + 1]
            tm = rng.choice(cand)
            lb = rng.randint(0, max(0, len(s.table) - 1))
            sched.append((3, tm, lb))
            r.add(tm, lb)
    return sched


def small_programs(at_start=True):
    """Small-scope enumeration of programs: up to 3 pre-run events over 2 timestamps and the labels of
    a tiny table with zero-delay / unit-delay follow-ups."""
    out = []
    for start in (0, 2, (1 << 32) - 1):
        # the third start time is one unit (2^32 ns) below 2^64 ns: every such run crosses the boundary
        n, t, unit = (2, 1, 0) if start < 10 else (3, 1 << 31, 1 << 32)
        for table in ([[]], [[(0, 0, 0)]], [[(0, 1, 0)]], [[(0, 0, 1)], []], [[(0, 0, 1), (0, 1, 1)], []]):
            K = len(table)
            t0 = start if (at_start or start == 0) else start + 1
            slots = [(tm, lb) for tm in (t0, t0 + 1) for lb in range(K)]
            pres = [[]]
            layer = [[]]
            for _ in range(3):
                layer = [p + [x] for p in layer for x in slots]
                pres += layer
            for pre in pres:
                for budget in ((0,) if table == [[]] else (1, 3)):
                    out.append(Script(n, t, start, budget, [], table, list(pre), [], unit))
    return out


# ----------------------------------------------------------------------------- mechanisms
def mechanisms(script, out):
    m = set()
    try:
        s, bl = parse_blocks(script, out)
    except Exception:
        return m
    U, A, B = bl["U"]["final"], bl["A"]["final"], bl["B"]["final"]
    L = tree_of_calls(s.calls)
    times = [t for (_, t) in U["log"]]
    if any(a == b for a, b in zip(times, times[1:])):
        m.add("tie_group")
    if any(a[4] and a[3] > 0 and a[0] == a[2] for a in U["adds"]):
        m.add("zero_delay_followup")
    if any(a[3] > 0 and not a[4] for a in U["adds"]):
        m.add("handler_add_in_past")
    if s.start > 0:
        m.add("start_nonzero")
        if any(p[0] < s.start for p in s.pre): m.add("pre_add_below_start")
        if any(p[0] == s.start for p in s.pre): m.add("pre_add_at_start")
    if s.cb[0] and s.cb[0] <= len(U["log"]):
        m.add("concurrent_build")
    un = s.unit or 1
    if s.start * un >= 1 << 64: m.add("start_beyond_2^64ns")
    elif times and times[-1] * un >= 1 << 64: m.add("run_crosses_2^64ns")
    if len(s.calls) > 1: m.add("builder_multi")
    if L[0] != 'none':
        if tree_depth(L) >= 2: m.add("tree_depth>=2")
        if len(A["log"]) < len(U["log"]):
            m.add("stopped_early")
            cut = len(A["log"])
            if cut > 0 and times[cut - 1] == times[cut]: m.add("limit_cut_inside_tie")
        else:
            m.add("limit_not_reached")
        if A["rem"]: m.add("remaining_nonempty")

        def leaves(tr):
            return [tr] if tr[0] in ('none', 'count', 'time') else leaves(tr[1]) + leaves(tr[2])
        for lf in leaves(L):
            if lf[0] == 'count' and lf[1] == len(U["log"]): m.add("count_eq_total")
            if lf[0] == 'count' and lf[1] == 0: m.add("count_zero")
            if lf[0] == 'time' and lf[1] in times: m.add("time_at_timestamp")
            if lf[0] == 'time' and times and lf[1] < times[0]: m.add("time_below_first")
        if 'and' in str(L): m.add("and")
        if 'or' in str(L): m.add("or")
    now, d_prev, nadds = s.start, 0, len(s.pre)
    for st in bl["B"]["steps"]:
        o = st["op"]
        if o[0] == 3:
            if o[1] == now: m.add("paused_add_at_now")
            elif o[1] < now: m.add("paused_add_below_now")
            else:
                m.add("paused_add_above_now")
                pending = ms_sub(ms(accepted(B["adds"][:nadds])), ms(handled(B["log"][:d_prev])))
                if pending and o[1] < min(t for (t, _) in pending): m.add("paused_add_before_next_event")
            nadds += 1
            continue
        nadds = st["nadds"]
        d = st["dispatched"]
        if d < len(B["log"]) and d > 0 and B["log"][d - 1][1] == B["log"][d][1]:
            m.add("step_cut_inside_tie")
        if o[0] == 1 and d - d_prev < o[1]: m.add("n_step_exhausts")
        if o[0] == 1 and o[1] == 0: m.add("n_step_zero")
        if o[0] == 2 and o[1] < now: m.add("until_below_now")
        if o[0] == 2 and d > d_prev and B["log"][d - 1][1] == o[1]: m.add("until_at_timestamp")
        if st["remaining"] > 0: m.add("paused_with_pending")
        d_prev, now = d, st["now"]
    return m
