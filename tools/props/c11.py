"""C11 — runtime limits stop the run exactly where specified without losing events."""
from props.rt_common import *  # noqa
from props import rt_common as R

ID = "C11"; MODEL = "rt"; IMPL = "rt"
COQ_PROP = "Properties/C11.v"; COQ_DIRS = ["Common", "CQueue", "Runtime"]
COQ_MODULE = "Runtime.ModelCq"; RUN_FN = "run"
THEOREMS = ["C11_limited_log_is_longest_admissible_prefix", "C11_longest_admissible_prefix_spec", "C11_nothing_lost", "C11_end_time_and_count", "C11_event_count_limit", "C11_time_limit", "C11_and_or", "C11_limit_algebra", "C11_builder_composes_with_or", "C11_run_total", "C11_run_over_cqueue_eq_run_over_spec", "C11_limited_log_is_longest_admissible_prefix_cq", "C11_nothing_lost_cq", "C11_event_count_limit_cq", "C11_time_limit_cq", "C11_run_total_cq", "C11_any_event_set_limited_log_is_longest_admissible_prefix", "C11_any_event_set_nothing_lost", "C11_any_event_set_event_count_limit", "C11_any_event_set_time_limit", "C11_any_event_set_and_or", "C11_any_event_set_run_total", "C11_limited_log_over_spec_event_set", "C11_limited_log_over_calendar_queue_event_set", "C11_limited_log_is_longest_admissible_prefix_heap", "C11_nothing_lost_heap", "C11_event_count_limit_heap", "C11_time_limit_heap", "C11_and_or_heap", "C11_run_total_heap"]
QUICK_N = 2500; THOROUGH_N = 150000
CLAIM = dict(
    text="Machine-checked (Coq 8.16, axiom-free) for every scripted event program, start time, pre-run schedule and every limit tree (None, EventCount, SimTime, nested And/Or): the run with the limit handles exactly the longest prefix of the unlimited run's dispatch sequence no element of which, at its position and time, satisfies RuntimeLimit::applies (same events, order, times; prefix/admissible/stopper/longest characterisation proved); EventCount(n) = first min(n, available) events; SimTime(T) = exactly the events with timestamp <= T; Or stops with the earlier, And with the later component; nothing is lost (accepted add_events = handled + remaining as a multiset of (time,label)); end time = time of the last handled event (start time if none); event_count = number handled; the Boolean algebra of And/Or and monotonicity of applies; Builder::max_itr/max_time/limit compose with Or; the event loop terminates. The model is tied to des::runtime by differential runs (extracted model vs the real Runtime<App> over the real CQueue, three runs per script) on every invocation, plus an independent monitor that evaluates the property on the implementation's own unlimited and limited runs. COMPOSITION: Runtime/ModelCq.v is the same runtime threading the concrete calendar-queue state (cq_new_at n t start, add, peek_time, fetch_next, len, where the cqueue-backed FutureEventSet calls them); Runtime/Compose.v proves by forward simulation (queue part: C01's refinement relation) that for all n,t>=1 it prints exactly what the model over the specification prints (run_over_cqueue_eq_run_over_spec), and the headline statements are restated and proved for the runtime over the calendar queue for every queue parameterisation (*_cq theorems); the extracted runner executes this composed model with the script's (n,t). GENERIC LEVEL: every statement is also proved for the runtime over ANY future event set satisfying an explicit interface (Runtime/EvSet.v: new/add/peek_time/fetch_next/len with six facts, peek purity by type), with an oracle for backends whose order among equal timestamps is unspecified (C1x_any_event_set_* theorems), and instantiated for the specification, the calendar queue (every n,t>=1) and the BinaryHeap backend of a des built without `cqueue` (every oracle; *_heap theorems; that backend is exercised by `check.py C01 --part heap`).",
    note="Trusted: Coq kernel; extraction (ExtrOcamlBasic only) cross-checked in-Coq by vm_compute on a sample each run; harness/generator quality bounds the tie to the code; the event set is the two-list specification of C01 (C01_refines_spec / _at tie it to the calendar queue for every n,t, incl. new_at and peek_time), composed with the runtime model inside Coq (Runtime/Compose.v); user code is a scripted handler table with a global action budget; usize/Duration overflow out of scope.",
    technique="Coq proof by induction over the event loop (fuelled, fuel sufficiency proved from a decreasing measure) + invariant + differential correspondence check",
    design="6/C11")
RULE = ("scripts = random event program (1-5 labels whose handlers schedule follow-ups with zero / unit / bucket-sized delays"
        " under a global budget, 0-8 pre-run events over 1-4 distinct timestamps so that ties are frequent, start time"
        " 0/small/large, several cqueue parameterisations) x Builder calls max_itr/max_time/limit(tree): EventCount(n) for n"
        " around the number of events of the unlimited run, SimTime(T) below/at/between/above its timestamps, random And/Or"
        " trees of depth <= 4; non-trivial = distinct script (sha1) hitting at least two targeted mechanisms"
        " (stopped_early, limit_cut_inside_tie, count_eq_total, time_at_timestamp, tree_depth>=2, builder_multi, ...)")
TRUSTED = ["the future event set is the two-list specification CQueue.Spec (C01_refines_spec ties it to the calendar queue for"
           " every n,t; the non-destructive peek and the start-time constructor of the repaired event set are modelled on the"
           " specification directly)",
           "user code is the scripted handler of harness/src/bin/rt.rs (a table label -> add_event_in/add_event actions"
           " under a global budget)",
           "usize/Duration overflow is outside the model"]
ASSUMPTIONS = ["times fit in 63 bits; start_time/bucket width below ~2e5 so that both runners finish quickly"]


def gen(rng, n):
    for _ in range(n):
        s = R.gen_program(rng, below_start=True, at_start=True)
        log = R.unlimited(s)
        s.calls = R.gen_calls(rng, log, s.start)
        yield R.add_concurrent_build(rng, s, 0.04).encode()


def exhaustive():
    for s in R.small_programs(at_start=True):
        log = R.unlimited(s)
        ts = sorted(set(t for (_, t) in log))
        leaves = [('count', n) for n in range(0, len(log) + 2)]
        cand = set()
        for t in ts:
            cand.update([max(0, t - 1), t, t + 1])
        leaves += [('time', T) for T in sorted(cand)]
        for lf in leaves:
            s2 = R.Script(s.n, s.t, s.start, s.budget, [('limit', lf)], s.table, s.pre, [], unit=s.unit)
            yield s2.encode()
        if len(s.pre) <= 2:
            for a in leaves:
                for b in leaves:
                    if a[0] != b[0]:
                        for k in ('and', 'or'):
                            yield R.Script(s.n, s.t, s.start, s.budget, [('limit', (k, a, b))], s.table, s.pre, [], unit=s.unit).encode()


monitor = R.monitor_c11


def nontrivial(script, out):
    return len(R.mechanisms(script, out)) >= 2
