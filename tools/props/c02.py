"""C02 — the simulation clock is monotone and equals the timestamp of the running event."""
from props.rt_common import *  # noqa
from props import rt_common as R

ID = "C02"; MODEL = "rt"; IMPL = "rt"
COQ_PROP = "Properties/C02.v"; COQ_DIRS = ["Common", "CQueue", "Runtime"]
COQ_MODULE = "Runtime.Model"; RUN_FN = "run"
THEOREMS = ["C02_clock_monotone", "C02_now_is_event_time", "C02_dispatch_sorted_once", "C02_add_at_or_after_now_ok", "C02_add_before_now_panics", "C02_all_adds_ok_iff", "C02_run_reachable", "C02_run_total"]
QUICK_N = 2500; THOROUGH_N = 150000
RULE = ("scripts = random event program: handlers schedule follow-ups with add_event_in (zero, unit, bucket-sized delays) and"
        " with add_event at absolute times around the program's timestamps (so some lie in the past), pre-run add_event calls"
        " incl. at / one below / far below a non-zero start time, start time 0/small/large, several cqueue parameterisations,"
        " optionally a limit and a step schedule with add_event while paused; non-trivial = distinct script hitting at least"
        " two targeted mechanisms (start_nonzero, pre_add_below_start, handler_add_in_past, zero_delay_followup, tie_group, ...)")
TRUSTED = ["the future event set is the two-list specification CQueue.Spec (tied to the calendar queue by C01)",
           "user code is the scripted handler of harness/src/bin/rt.rs",
           "usize/Duration overflow is outside the model"]
ASSUMPTIONS = ["times fit in 63 bits; start_time/bucket width below ~2e5"]


def gen(rng, n):
    for _ in range(n):
        s = R.gen_program(rng, below_start=True, at_start=True)
        c = rng.random()
        if c < 0.3:
            s.calls = R.gen_calls(rng, R.unlimited(s), s.start)
        if c > 0.5:
            s.sched = R.gen_schedule(rng, s, ext=True)
        yield s.encode()


def exhaustive():
    for s in R.small_programs(at_start=True):
        yield s.encode()
        if s.start > 0 and len(s.pre) <= 2:
            for tm in (0, s.start - 1):
                for i in range(len(s.pre) + 1):
                    pre = s.pre[:i] + [(tm, 0)] + s.pre[i:]
                    yield R.Script(s.n, s.t, s.start, s.budget, [], s.table, pre, []).encode()


monitor = R.monitor_c02


def nontrivial(script, out):
    return len(R.mechanisms(script, out)) >= 2
