"""C02 — the simulation clock is monotone and equals the timestamp of the running event."""
from props.rt_common import *  # noqa
from props import rt_common as R

ID = "C02"; MODEL = "rt"; IMPL = "rt"
COQ_PROP = "Properties/C02.v"; COQ_DIRS = ["Common", "CQueue", "Runtime"]
COQ_MODULE = "Runtime.ModelCq"; RUN_FN = "run"
THEOREMS = ["C02_clock_monotone", "C02_now_is_event_time", "C02_dispatch_sorted_once", "C02_add_at_or_after_now_ok", "C02_add_before_now_panics", "C02_all_adds_ok_iff", "C02_run_reachable", "C02_run_total", "C02_run_over_cqueue_eq_run_over_spec", "C02_holds_over_cqueue", "C02_run_total_cq", "C02_holds_over_heap", "C02_heap_now_is_event_time", "C02_concurrent_build_irrelevant"]
QUICK_N = 2500; THOROUGH_N = 150000
CLAIM = dict(
    text="Machine-checked (Coq 8.16, axiom-free) for every start time and every state a runtime can reach (before the run, between events, inside a handler, paused; any program, limit and step schedule -- via a transition system that over-approximates the runtime and is proved to contain every run of every script): the clock starts at the start time and no transition decreases it; the only writer is the dispatch of the next event, which sets it to exactly the timestamp the event was scheduled with before the handler runs; handled timestamps are non-decreasing and every accepted add_event is handled exactly once at its own time or still pending (multiset equation); add_event at or after now() always succeeds and makes the event pending, add_event_in never fails, add_event before now() is rejected with a panic and changes nothing, including before a non-zero start time; the event loop terminates. Stated for the code after fix: commits d335396 (event set starts at start_time) and f4552a6; Refuted/C02.v proves the pinned behaviour violates the statements (F2, F8). Tied to des::runtime by differential runs (extracted model vs real Runtime<App> over the real CQueue, handlers logging SimTime::now(), catch_unwind around every add_event) and an independent monitor on the implementation's outputs. COMPOSITION: Runtime/ModelCq.v is the same runtime threading the concrete calendar-queue state (cq_new_at n t start, add, peek_time, fetch_next, len, where the cqueue-backed FutureEventSet calls them); Runtime/Compose.v proves by forward simulation (queue part: C01's refinement relation) that for all n,t>=1 it prints exactly what the model over the specification prints (run_over_cqueue_eq_run_over_spec), and the headline statements are restated and proved for the runtime over the calendar queue for every queue parameterisation (*_cq theorems); the extracted runner executes this composed model with the script's (n,t). PARTS: `--part time` proves the representation of simulated time faithful: SimTime/Duration as the (secs: u64, nanos: u32) pair with std's carry/borrow/range checks, the two-atomics clock and the start-time boundary of CQueue::new_at are modelled in coq/Time, every script over the pair-level interpreter is proved to print what plain nanosecond arithmetic on N prints (C02_time_as_nanoseconds_is_faithful), and the pair-level model is run against the real SimTime over the whole 2^64 s range; the heap part of C01 instantiates the clock clauses for the BinaryHeap backend (C02_holds_over_heap).",
    note="Trusted: Coq kernel; extraction cross-checked in-Coq each run; harness/generators; event set = C01's specification, composed with the calendar-queue model in Coq (Runtime/Compose.v); scripted handlers (add_event_in / add_event actions under a global budget); usize/Duration overflow out of scope.",
    technique="Coq invariant proof over a transition system + differential correspondence check",
    design="6/C02")
RULE = ("scripts = random event program: handlers schedule follow-ups with add_event_in (zero, unit, bucket-sized delays) and"
        " with add_event at absolute times around the program's timestamps (so some lie in the past), pre-run add_event calls"
        " incl. at / one below / far below a non-zero start time, start time 0/small/large, several cqueue parameterisations,"
        " optionally a limit and a step schedule with add_event while paused; non-trivial = distinct script hitting at least"
        " two targeted mechanisms (start_nonzero, pre_add_below_start, handler_add_in_past, zero_delay_followup, tie_group, ...)")
TRUSTED = ["the future event set is the two-list specification CQueue.Spec (tied to the calendar queue by C01)",
           "user code is the scripted handler of harness/src/bin/rt.rs",
           "usize/Duration overflow is outside the model"]
ASSUMPTIONS = ["times fit in 63 bits; start_time/bucket width below ~2e5"]


def gen(rng, n):
    for _ in range(n):
        s = R.gen_program(rng, below_start=True, at_start=True)
        c = rng.random()
        if c < 0.3:
            s.calls = R.gen_calls(rng, R.unlimited(s), s.start)
        if c > 0.5:
            s.sched = R.gen_schedule(rng, s, ext=True)
        yield R.add_concurrent_build(rng, s).encode()


def exhaustive():
    for s in R.small_programs(at_start=True):
        yield s.encode()
        if s.start > 0 and len(s.pre) <= 2:
            for tm in (0, s.start - 1):
                for i in range(len(s.pre) + 1):
                    pre = s.pre[:i] + [(tm, 0)] + s.pre[i:]
                    yield R.Script(s.n, s.t, s.start, s.budget, [], s.table, pre, [], unit=s.unit).encode()


monitor = R.monitor_c02


def nontrivial(script, out):
    return len(R.mechanisms(script, out)) >= 2
