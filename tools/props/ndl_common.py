"""Shared by the NDL property (C18): description data structure, rendering to the strings def.rs parses,
wire encoding (see coq/Ndl/Model.v), an independent Python reading of the description language
(grammar, elaboration errors, denotation as flat sets) used by the monitor, and output parsers."""

WS = " \t\n\r\x0b\x0c"
K_IO, K_MISSING_REG, K_DUP_SYMBOL, K_UNKNOWN_LINK, K_UNKNOWN_MODULE, K_UNRESOLVABLE = 3, 1, 2, 4, 5, 6
K_INVALID_GATE, K_INVALID_SUBMODULE, K_UNKNOWN_GATE, K_UNKNOWN_SUB, K_INDEX, K_UNEQUAL = 7, 8, 9, 10, 11, 12
K_INVALID_TYP, K_GENERIC_PASSED, K_NOT_CONFORM = 13, 14, 15
KIND_NAMES = {0: "Other", 1: "MissingRegistrySymbol", 2: "SymbolAlreadyDefined", 3: "Io", 4: "UnknownLink", 5: "UnknownModule",
              6: "UnresolvableDependency", 7: "InvalidGate", 8: "InvalidSubmodule", 9: "UnknownGateInConnection",
              10: "UnknownSubmoduleInConnection", 11: "ConnectionIndexOutOfBounds", 12: "UnequalPeers",
              13: "InvalidTypStatement", 14: "GenericPassedAsTypArgument", 15: "AssignedTypDoesNotConformToInterface"}
REGISTERED = {"M%d" % i for i in range(32)} | {"T%d" % i for i in range(8)} | {"m%d" % i for i in range(8)}
USIZE_MAX = 2 ** 64 - 1


# ----------------------------------------------------------------------------- rendering a structured description
def r_field(f):
    if isinstance(f, str):
        return f
    name, k = f
    return name if k is None else "%s[%d]" % (name, k)


def r_tc(t):
    if isinstance(t, str):
        return t
    name, args = t
    return name if not args else "%s(%s)" % (name, ", ".join(args))


def r_key(m):
    if "rawkey" in m:
        return m["rawkey"]
    if not m.get("generics"):
        return m["name"]
    return "%s(%s)" % (m["name"], ", ".join("%s <- %s" % g for g in m["generics"]))


def r_ep(e):
    if isinstance(e, str):
        return e
    return "/".join(r_field(f) for f in e)


def render(desc):
    """structured description -> raw document (every parsed item a string)"""
    mods = []
    for m in desc["modules"]:
        mods.append({"key": r_key(m), "inherit": m.get("inherit"),
                     "gates": [r_field(g) for g in m.get("gates", [])],
                     "subs": [(r_field(f), r_tc(t)) for f, t in m.get("subs", [])],
                     "conns": [(r_ep(a), r_ep(b), l) for a, b, l in m.get("conns", [])]})
    return {"entry": desc["entry"], "modules": mods, "links": list(desc.get("links", []))}


# ----------------------------------------------------------------------------- wire format
def e_str(s):
    b = s.encode("latin-1")
    return [len(b)] + [x % 128 for x in b]


def e_opt(s):
    return [0] if s is None else [1] + e_str(s)


def encode_doc(raw, mode, tag=0):
    out = [1, mode] + e_str(raw["entry"]) + [len(raw["modules"])]
    for m in raw["modules"]:
        out += e_str(m["key"]) + e_opt(m["inherit"]) + [len(m["gates"])]
        for g in m["gates"]:
            out += e_str(g)
        out += [len(m["subs"])]
        for f, t in m["subs"]:
            out += e_str(f) + e_str(t)
        out += [len(m["conns"])]
        for a, b, l in m["conns"]:
            out += e_str(a) + e_str(b) + e_opt(l)
    out += [len(raw["links"])]
    for name, lat, jit, rate in raw["links"]:
        out += e_str(name) + [lat, jit, rate]
    return out + [tag]


def encode_grammar(which, s):
    return [0, which] + [x % 128 for x in s.encode("latin-1")]


class Cur:
    def __init__(self, v, i=0):
        self.v, self.i = v, i

    def left(self):
        return max(0, len(self.v) - self.i)

    def next(self):
        x = self.v[self.i] if self.i < len(self.v) else 0
        self.i += 1
        return x

    def lp(self):
        if self.i >= len(self.v):
            return []
        k = self.next()
        out = []
        for _ in range(k):
            if self.i >= len(self.v):
                break
            out.append(self.next())
        return out

    def str(self):
        return "".join(chr(x % 128) for x in self.lp())

    def opt(self):
        return self.str() if self.next() % 2 == 1 else None

    def counted(self, one):
        n = self.next()
        return [one() for _ in range(min(n, self.left()))]


def decode_doc(script):
    """script -> (mode, raw document, tag)"""
    c = Cur(script, 1)
    mode = c.next()
    entry = c.str()

    def mod():
        key = c.str()
        inh = c.opt()
        gates = c.counted(c.str)
        subs = c.counted(lambda: (c.str(), c.str()))
        conns = c.counted(lambda: (c.str(), c.str(), c.opt()))
        return {"key": key, "inherit": inh, "gates": gates, "subs": subs, "conns": conns}
    mods = c.counted(mod)
    links = c.counted(lambda: (c.str(), c.next(), c.next(), c.next()))
    tag = c.next()
    return mode, {"entry": entry, "modules": mods, "links": links}, tag


# ----------------------------------------------------------------------------- the grammar, read independently
class ParseErr(Exception):
    pass


def p_usize(s):
    if s.startswith("+"):
        s = s[1:]
        if s == "":
            raise ParseErr("int")
    if s == "" or any(ch not in "0123456789" for ch in s):
        raise ParseErr("int")
    n = int(s)
    if n > USIZE_MAX:
        raise ParseErr("int")
    return n


def p_field(s):
    if s.endswith("]"):
        if "[" not in s:
            raise ParseErr("bracket")
        ident, _, cl = s.partition("[")
        return (ident, p_usize(cl.rstrip("]")))
    return (s, None)


def p_generic(s):
    if "<-" not in s:
        raise ParseErr("arg")
    a, _, b = s.partition("<-")
    return (a.strip(WS), b.strip(WS))


def p_tc(s, arg):
    if "(" not in s:
        return (s, [])
    ident, _, rem = s.partition("(")
    if not rem.endswith(")"):
        raise ParseErr("paren")
    rem = rem.rstrip(")")
    return (ident.strip(WS), [arg(a) for a in rem.split(", ")])


def p_ep(s):
    return [p_field(x) for x in s.split("/")]


def d_field(f):
    return f[0] if f[1] is None else "%s[%d]" % f


def parse_doc(raw):
    """raw document -> parsed description, or raises ParseErr (serde error, ErrorKind::Io when loaded through Ndl::from_str)"""
    mods = []
    for m in raw["modules"]:
        name, gens = p_tc(m["key"], p_generic)
        mods.append({"name": name, "generics": gens, "inherit": m["inherit"],
                     "gates": [p_field(g) for g in m["gates"]],
                     "subs": [(p_field(f), p_tc(t, lambda x: x)) for f, t in m["subs"]],
                     "conns": [(p_ep(a), p_ep(b), l) for a, b, l in m["conns"]]})
    return {"entry": raw["entry"], "modules": mods, "links": {n: (a, b, c) for n, a, b, c in reversed(raw["links"])}}


# ----------------------------------------------------------------------------- elaboration, read independently (top-down, memoised)
class NdlErr(Exception):
    def __init__(self, kind):
        Exception.__init__(self, KIND_NAMES.get(kind, str(kind)))
        self.kind = kind


class Ambiguous(Exception):
    """the description leaves the outcome to hash-map iteration order (or is outside what this reading covers)"""


class PNode:
    __slots__ = ("typ", "subs", "gates", "conns")

    def __init__(self, typ, subs, gates, conns):
        self.typ, self.subs, self.gates, self.conns = typ, subs, gates, conns

    def key(self):
        return (self.typ, tuple((f, n.key()) for f, n in self.subs), frozenset(self.gates), tuple(self.conns))

    def renamed(self, typ):
        return PNode(typ, self.subs, self.gates, self.conns)


def conforms(node, iface):
    if not set(iface.gates) <= set(node.gates):
        return False
    mine = [(f, n.key()) for f, n in node.subs]
    if not all((f, n.key()) in mine for f, n in iface.subs):
        return False
    return all(c in node.conns for c in iface.conns)


def required(m):
    binds = {g[0] for g in m["generics"]}
    need = set()
    for _, (t, args) in m["subs"]:
        need.add(t)
        need.update(args)
    need -= binds
    need.update(g[1] for g in m["generics"])
    if m["inherit"] is not None:
        need.add(m["inherit"])
    return need


def access(defk, acck, name):
    if defk is None and acck is None:
        return [(name, None)]
    if defk is not None and acck is not None:
        if acck < defk:
            return [(name, acck)]
        raise NdlErr(K_INDEX)
    if defk is None:
        raise NdlErr(K_INDEX)
    return [(name, i) for i in range(defk)]


def expand_ep(pos, accs, subs, gates):
    a = accs[0]
    if len(accs) == 1:
        cand = [g for g in gates if g[0] == a[0]]
        if not cand:
            raise NdlErr(K_UNKNOWN_GATE)
        if len(cand) > 1:
            raise Ambiguous("two gate clusters named %s" % a[0])
        return [pos + (x,) for x in access(cand[0][1], a[1], a[0])]
    cand = [(f, n) for f, n in subs if f[0] == a[0]]
    if not cand:
        raise NdlErr(K_UNKNOWN_SUB)
    if len({f for f, _ in cand}) > 1:
        raise Ambiguous("two submodule fields named %s" % a[0])
    f, n = cand[0]
    out = []
    for x in access(f[1], a[1], a[0]):
        out += expand_ep(pos + (x,), accs[1:], n.subs, n.gates)
    return out


class Elab:
    def __init__(self, d):
        self.d = d
        self.byname = {}
        for m in d["modules"]:
            if m["name"] in self.byname:
                raise Ambiguous("two definitions named %s" % m["name"])
            self.byname[m["name"]] = m
        self.memo = {}

    def resolvable(self):
        ok = set()
        changed = True
        while changed:
            changed = False
            for m in self.d["modules"]:
                if m["name"] not in ok and required(m) <= ok:
                    ok.add(m["name"])
                    changed = True
        return len(ok) == len(self.d["modules"])

    def arch(self, name):
        """(node, generics) or an NdlErr instance (memoised); dependencies are assumed resolvable"""
        if name not in self.memo:
            try:
                self.memo[name] = self.module(self.byname[name])
            except NdlErr as e:
                self.memo[name] = e
        return self.memo[name]

    def dep(self, name):
        r = self.arch(name)
        if isinstance(r, NdlErr):
            raise DepFailed()
        return r

    def submodule(self, m, field, typ):
        if field[1] == 0:
            raise NdlErr(K_INVALID_SUBMODULE)
        t, args = typ
        binds = dict(m["generics"][::-1])
        if not args:
            node, reqs = self.dep(binds.get(t, t))
            if reqs:
                raise NdlErr(K_INVALID_TYP)
            return (field, node.renamed(t))
        if t in binds:
            raise NdlErr(K_INVALID_TYP)
        node, reqs = self.dep(t)
        if len(reqs) != len(args):
            raise NdlErr(K_INVALID_TYP)
        subs = list(node.subs)
        for (binding, bound), a in zip(reqs, args):
            if a in binds:
                raise NdlErr(K_GENERIC_PASSED)
            repl, rdeps = self.dep(a)
            if rdeps:
                raise NdlErr(K_INVALID_TYP)
            iface, _ = self.dep(bound)
            if not conforms(repl, iface):
                raise NdlErr(K_NOT_CONFORM)
            subs = [(f, repl) if n.typ == binding else (f, n) for f, n in subs]
        return (field, PNode(node.typ, subs, node.gates, node.conns))

    def module(self, m):
        gens = m["generics"]
        if len({g[0] for g in gens}) != len(gens):
            raise NdlErr(K_DUP_SYMBOL)
        if any(g[1] == 0 for g in m["gates"]):
            raise NdlErr(K_INVALID_GATE)
        gates = []
        for g in m["gates"]:
            if g not in gates:
                gates.append(g)
        subs, errs = [], []
        for field, typ in m["subs"]:
            try:
                subs.append(self.submodule(m, field, typ))
            except NdlErr as e:
                errs.append(e.kind)
        if errs:
            e = NdlErr(errs[0])
            e.all = set(errs)
            raise e
        conns = []
        if m["inherit"] is not None:
            par, _ = self.dep(m["inherit"])
            gates += [g for g in par.gates if g not in gates]
            subs += par.subs
            conns += par.conns
        seen = set()
        for (name, k), _ in subs:                      # fix a6f4ffc: one name, one shape
            key = (name, k is None)
            if key in seen:
                raise NdlErr(K_DUP_SYMBOL)
            seen.add(key)
        for a, b, l in m["conns"]:
            lhs = expand_ep((), a, subs, gates)
            rhs = expand_ep((), b, subs, gates)
            if len(lhs) != len(rhs):
                raise NdlErr(K_UNEQUAL)
            link = None
            if l is not None:
                if l not in self.d["links"]:
                    raise NdlErr(K_UNKNOWN_LINK)
                link = self.d["links"][l]
            conns += [(x, y, link) for x, y in zip(lhs, rhs)]
        return (PNode(m["name"], subs, tuple(gates), tuple(conns)), gens)


class DepFailed(Exception):
    pass


def elaborate(d):
    """parsed description -> ("ok", PNode) | ("err", set of kinds that may be reported)"""
    el = Elab(d)
    if not el.resolvable():
        return ("err", {K_UNRESOLVABLE})
    kinds = set()
    for m in d["modules"]:
        try:
            r = el.arch(m["name"])
        except DepFailed:
            el.memo[m["name"]] = NdlErr(-1)       # a dependency is faulty; that one reports
            continue
        if isinstance(r, NdlErr) and r.kind >= 0:
            kinds |= getattr(r, "all", {r.kind})
    if kinds:
        return ("err", kinds)
    if d["entry"] not in el.byname:
        return ("err", {K_UNKNOWN_MODULE})
    return ("ok", el.arch(d["entry"])[0])


# ----------------------------------------------------------------------------- what the tree denotes as a built simulation
def flatten(node, path=()):
    """-> mods {path: symbol}, gates {path: set((name,size,pos))}, conns [(gatepos, gatepos, link)], dup paths"""
    mods, gates, conns, dups = {}, {}, [], []

    def go(n, p):
        if p in mods:
            dups.append(p)
        mods[p] = n.typ
        gs = gates.setdefault(p, set())
        for name, k in n.gates:
            size = 1 if k is None else k
            for pos in range(size):
                gs.add((name, size, pos))
        for (name, k), sn in n.subs:
            for idx in ([None] if k is None else range(k)):
                go(sn, p + ((name, idx),))
        for a, b, link in n.conns:
            conns.append((absg(p, a), absg(p, b), link))

    def absg(p, e):
        return (p + e[:-1], e[-1][0], e[-1][1] or 0)
    go(node, path)
    return mods, gates, conns, dups


def realise(conns):
    """connection statements -> (set of directed half-edges, problem or None)"""
    peers, edges = {}, set()
    for a, b, link in conns:
        if a == b:
            return edges, "self"
        if b in peers.get(a, []):
            continue
        if len(peers.get(a, [])) >= 2 or len(peers.get(b, [])) >= 2:
            return edges, "full"
        peers.setdefault(a, []).append(b)
        peers.setdefault(b, []).append(a)
        edges.add((a, b, link))
        edges.add((b, a, link))
    return edges, None


# ----------------------------------------------------------------------------- parsing runner output
def o_str(c):
    return "".join(chr(x) for x in c.lp())


def o_path(c):
    n = c.next()
    out = []
    for _ in range(n):
        name = o_str(c)
        i = c.next()
        out.append((name, None if i == 0 else i - 1))
    return tuple(out)


def o_link(c):
    if c.next() == 0:
        return None
    return (c.next(), c.next(), c.next())


def o_tree(c):
    typ = o_str(c)
    gates = []
    for _ in range(c.next()):
        name = o_str(c)
        k = c.next()
        gates.append((name, None if k == 0 else k - 1))
    subs = []
    for _ in range(c.next()):
        name = o_str(c)
        k = c.next()
        subs.append(((name, None if k == 0 else k - 1), o_tree(c)))
    conns = []
    for _ in range(c.next()):
        conns.append((o_path(c), o_path(c), o_link(c)))
    return {"typ": typ, "gates": gates, "subs": subs, "conns": conns}


def parse_doc_output(out):
    """-> dict(kind='err', kinds=[..]) | dict(kind='panic', site) | dict(kind='ok', tree, build=None|...)"""
    if not out:
        raise ValueError("empty output")
    if out[0] == 2:
        return {"kind": "err", "kinds": out[1:]}
    if out[0] == 9:
        return {"kind": "panic", "site": out[1] if len(out) > 1 else -1}
    if out[0] != 1:
        raise ValueError("unexpected leading %d" % out[0])
    c = Cur(out, 1)
    tree = o_tree(c)
    res = {"kind": "ok", "tree": tree, "build": None}
    if c.left() == 0:
        return res
    t = c.next()
    if t == 4:
        res["build"] = {"kind": "skipped"}
        return res
    if t != 5:
        raise ValueError("unexpected section %d" % t)
    r = c.next()
    if r == 2:
        res["build"] = {"kind": "err", "code": c.next()}
    elif r == 9:
        res["build"] = {"kind": "panic", "site": c.next()}
    elif r == 1:
        mods, gates = {}, {}
        for _ in range(c.next()):
            p = o_path(c)
            sym = o_str(c)
            gs = set()
            for _ in range(c.next()):
                name = o_str(c)
                gs.add((name, c.next(), c.next()))
            if p in mods:
                raise ValueError("path listed twice")
            mods[p] = sym
            gates[p] = gs
        edges = set()
        for _ in range(c.next()):
            a = (o_path(c), o_str(c), c.next())
            b = (o_path(c), o_str(c), c.next())
            edges.add((a, b, o_link(c)))
        res["build"] = {"kind": "ok", "mods": mods, "gates": gates, "edges": edges, "den": c.next()}
    else:
        raise ValueError("unexpected build result %d" % r)
    return res


def fmt_path(p):
    return ".".join(n if i is None else "%s[%d]" % (n, i) for n, i in p) or "<root>"


def fmt_gate(g):
    return "%s:%s[%d]" % (fmt_path(g[0]), g[1], g[2])
