"""C17 — configuration entries reach exactly the modules they address.

Script `inc_at op*` (strings = length-prefixed UTF-8 bytes; see harness/src/bin/props.rs, coq/Props/Model.v `run`):
  1 <key> val | 12 <key> form n (<sub> val)*n (mapping-valued entry, form even = flow, odd = block YAML) | 2 <path> | 3 m <name> ty | 4 m <name> ty val | 5 m <name> | 6 <key> val (late include)
  | 7 at (the entries that follow form a separate include, issued once `at` modules exist)
  | 8 m <name> ty (typed handle, kept) | 9 h val (set through handle h) | 10 h (get through handle h) | 11 m <name> (clear)
"""
import itertools

ID = "C17"; MODEL = "props"; IMPL = "props"
COQ_PROP = "Properties/C17.v"; COQ_DIRS = ["Common", "Props"]
COQ_MODULE = "Props.Model"; RUN_FN = "run"
THEOREMS = ["C17_capture_sound", "C17_capture_complete", "C17_no_foreign_entries", "C17_include_order_irrelevant",
            "C17_typed_stable", "C17_include_keeps_slot", "C17_typed_stable_across_includes", "C17_late_keeps_type",
            "C17_time_order_perm", "C17_multi_capture_sound", "C17_multi_capture_complete", "C17_handle_of_other_type"]
QUICK_N = 2500; THOROUGH_N = 150000
CLAIM = dict(
    text="Machine-checked (Coq 8.16, axiom-free) about a byte-level model of Cfg::new (compartmentalize) and Props::update_from: "
         "for EVERY flat dotted-key configuration whose keys are distinct, have non-empty segments, use '<any>' only as a whole "
         "segment and end in a property name, and that is outside the known-finding class entry_at_wildcard_prefix (two keys K and "
         "K.<any>.R), and for every module path (any depth; segments without '.', none literally '<any>'): a property (name, value) "
         "is captured only if some entry's key is the path - '<any>' matching exactly one segment - followed by that name and the "
         "value is that entry's (soundness); every such entry yields a property of that name holding the value of a matching "
         "entry (completeness); two configurations that agree on the entries addressing a module give it the same property names, "
         "a module nobody addresses receives nothing, and an entry for a same-depth sibling never addresses this module whatever "
         "text the names share (alice/alicent, a/a\u00e9); however the entries are partitioned into separate include_cfg calls and "
         "wherever each call sits in the node-creation sequence, every module - created before, between or after them - ends up with "
         "the capture in turn of all configurations in inclusion order (Vec<Cfg>, first set wins), and that is sound and complete "
         "for the UNION of the entries (each include guarded on its own); once a property holds a value of type T every later typed "
         "read/write with another type is the InvalidInput error and changes nothing - also across configurations included while "
         "the node exists: such an include never changes a property that already has a slot, whatever the slot's state (configured, "
         "typed, or the empty slot a lookup left; Props::set is first-set-wins), so typed accesses interleaved with arbitrary late "
         "includes still answer like a cell of the first type - through fresh lookups AND through long-lived typed handles "
         "(Prop<T>): a set through a handle of another type panics before anything is written and never changes the property, a "
         "get through it panics, creating one is InvalidInput; the first typed read converts the "
         "configuration number once to that very number or fails leaving it untouched. Refutation witnesses show the guards are "
         "needed. Tied to the code on every run by differential execution of the extracted model against des_net_utils::props "
         "(YAML text -> from_str -> Cfg::new -> capture_for_into) AND against des (Sim::include_cfg before/between/after Sim::node, "
         "ModuleContext::props_keys/prop_raw/prop::<T>) on generated configurations, plus a monitor stating C17 itself on the "
         "implementation's output; the three earlier defects (56781a0, 9508c1f, 47d42fd) are re-found when their fixes are reverted.",
    note="Trusted: Coq kernel; extraction (ExtrOcamlBasic) cross-checked in-Coq by vm_compute each run; the harness/generator bound "
         "the tie to the code; serde_yml's parser (exercised, not modelled: the model starts from the ordered key/value list and "
         "rejects repeated keys as the parser does); values are unsigned integers; keys are YAML strings. KNOWN FINDING "
         "entry_at_wildcard_prefix: `a: 1` next to `a.<any>.x: 2` makes the wildcard entry disappear (module a.z does not receive x) "
         "- excluded by hypothesis, witness in coq/Refuted/C17.v, re-demonstrated on every run; the suppression is narrow: only when "
         "the implementation's output equals the model's AND the only complaints are 'a module does not receive a property addressed "
         "solely by entries K.<any>.R with a partner K in their include' - any other complaint on the same input (foreign entry, "
         "wrong or '<any>'-carrying value, empty name) and any model/implementation difference is reported. Outside the quantifier (no property "
         "name / malformed keys): keys ending in '<any>', empty segments, '<any>' inside a segment - checked for crashes and "
         "model/code agreement only. Looking a property up before include_cfg creates an empty slot that blocks the later "
         "configuration value (Props::set keeps the first entry): modelled and exercised (late stream), accepted by the monitor "
         "since the property's text does not speak about it.",
    technique="Coq: denotation of nested mappings as flat segment-keyed entries, shape invariant of compartmentalised mappings, "
              "permutation-preservation proof for compartmentalize (induction on fuel/keys), soundness+completeness of update_from "
              "by induction on path length, entry state machine + differential correspondence check at two API levels",
    design="6/C17")
RULE = ("scripts = flat configuration (1..12 dotted keys over a segment alphabet built to share byte prefixes: a, ab, abc, "
        "a-b, é, aé, alice, alicent; '<any>' at every depth; property names that are themselves module names or dotted) + "
        "1..6 module paths of depth 1..4 (addressed modules, their prefix-sharing siblings, ancestors, descendants) + include "
        "position (before / between / after node creation) + typed read/write/raw operations; 14% mapping stream: mapping-valued "
        "entries (hand-nested YAML in flow and block form, 0..3 real sub-keys) keyed K next to a wildcard entry K.<any>.R (either "
        "order, at top level and below a wildcard) and plain ones, with the modules above K (the mapping is a property), at K (its "
        "sub-keys are properties) and below K; 17% handle stream: two or three "
        "typed handles Prop<T> of different types for one (mostly still absent) property are created before its first write and "
        "kept, then written/read through in random order, interleaved with fresh typed lookups, RawProp::clear and re-typing "
        "(stale handles); 28% multi-include stream: the "
        "entries are partitioned into 2..4 separate include_cfg calls, each at its own point of the node-creation sequence, with "
        "wildcard entries sharing the text before their first '<any>' placed in different includes and the addressed module "
        "mostly created after all of them; 18% late stream: once all nodes "
        "exist a property is read / written / looked up through a handle, only then further one-entry configurations addressing "
        "it (specifically or through '<any>') are included, and it is re-read with another and with the same type; final state of "
        "every module's properties is dumped; 12% malformed stream (wildcard "
        "inside a segment, empty segments, trailing wildcard, duplicate keys, entry keyed by another entry's address prefix); "
        "non-trivial = distinct script (sha1) hitting at least two targeted mechanisms")
TRUSTED = ["YAML text -> serde_yml::Value (parser) is exercised by the harness but not modelled: the model starts from the "
           "ordered key/value list, rejecting duplicate keys as the parser does",
           "configuration values are unsigned integers (opaque ids) or one-level mappings of such; keys are always YAML strings; "
           "the theorems speak about the flat number-valued configurations (C17_cfg_new_v_numbers), mapping-valued entries are "
           "modelled byte-exactly, correspondence-checked and monitored (value of a property = value of a matching entry, no "
           "synthesised '<any>' node inside a value) but not covered by a theorem",
           "FxHashMap iteration order of Props is canonicalised by sorting; insertion order of serde_yml::Mapping (indexmap, "
           "swap_remove) is modelled exactly"]
ASSUMPTIONS = ["names consist of printable ASCII and two-byte UTF-8 sequences; module path segments are non-empty and distinct "
               "modules have distinct paths", "script numbers < 2^62",
               "the quantifier's configurations are those whose keys are distinct, have non-empty segments, use '<any>' only as a "
               "whole segment and end in a property name (last segment not '<any>'): 'followed by the property name'. Other keys "
               "(malformed stream) are run through both runners and must not crash, but the iff is not demanded of them",
               "module path segments contain no '.' and none is literally '<any>'"]

ANY = b"<any>"
NAMES = [b"a", b"ab", b"abc", b"a-b", "é".encode(), "aé".encode(), b"alice", b"alicent"]
PROPS = [b"x", b"y", b"addr", b"log", b"tcp.mss", b"tcp.sack", b"a", b"ab", b"alice", "é".encode(), b"x.y", b"t.addr"]
TYN = {0: "u64", 1: "i64", 2: "String", 3: "bool"}


# ----------------------------------------------------------------------------- script structure
def lp(b):
    return [len(b)] + list(b)


def e_entry(key, val):
    """val: a number, or ("M", form, ((sub-key, number), ...)) for a mapping-valued entry"""
    if isinstance(val, tuple):
        out = [12] + lp(key) + [val[1], len(val[2])]
        for sk, sv in val[2]:
            out += lp(sk) + [sv]
        return out
    return [1] + lp(key) + [val]
def e_module(path): return [2] + lp(path)
def e_read(m, name, ty): return [3, m] + lp(name) + [ty]
def e_write(m, name, ty, v): return [4, m] + lp(name) + [ty, v]
def e_raw(m, name): return [5, m] + lp(name)
def e_late(key, val): return [6] + lp(key) + [val]
def e_group(at): return [7, at]
def e_handle(m, name, ty): return [8, m] + lp(name) + [ty]
def e_hset(h, v): return [9, h, v]
def e_hget(h): return [10, h]
def e_clear(m, name): return [11, m] + lp(name)


def split(script):
    hdr, ops, i = script[:1], [], 1
    n = len(script)

    def take(j):
        if j >= n: return None
        k = script[j]
        if j + 1 + k > n: return None
        return j + 1 + k
    while i < n:
        t = script[i]
        if t == 1 or t == 6:
            j = take(i + 1); j = None if j is None or j + 1 > n else j + 1
        elif t == 2:
            j = take(i + 1)
        elif t == 3:
            j = take(i + 2); j = None if j is None or j + 1 > n else j + 1
        elif t == 4:
            j = take(i + 2); j = None if j is None or j + 2 > n else j + 2
        elif t == 5:
            j = take(i + 2)
        elif t == 7 or t == 10:
            j = min(i + 2, n)
        elif t == 8:
            j = take(i + 2); j = None if j is None or j + 1 > n else j + 1
        elif t == 9:
            j = min(i + 3, n)
        elif t == 11:
            j = take(i + 2)
        elif t == 12:
            j = take(i + 1)
            if j is not None:
                cnt = script[j + 1] if j + 1 < n else 0
                j = min(j + 2, n)
                for _ in range(cnt):
                    if j >= n:
                        break
                    j2 = take(j)
                    if j2 is None:       # truncated sub-key: the runners take what is left
                        j = n; break
                    j = min(j2 + 1, n)
        else:
            j = None
        if j is None:
            break
        ops.append(script[i:j]); i = j
    return hdr, ops


def join(hdr, ops):
    out = list(hdr)
    for o in ops:
        out += o
    return out


def _b(xs):
    return bytes(x & 255 for x in xs)


def _entry(o):
    """(key, value) of an entry op (tag 1 or 12)"""
    key = _b(o[2:2 + o[1]])
    if o[0] == 1:
        return key, (o[-1] if len(o) > 2 + o[1] else 0)
    i = 2 + o[1]
    form = o[i] if i < len(o) else 0
    cnt = o[i + 1] if i + 1 < len(o) else 0
    i += 2; subs = []
    for _ in range(cnt):
        if i >= len(o):
            break
        ln = o[i]; sk = _b(o[i + 1:i + 1 + ln]); i += 1 + ln
        sv = o[i] if i < len(o) else 0
        i += 1
        subs.append((sk, sv))
    return key, ("M", form, tuple(subs))


def is_map(v):
    return isinstance(v, tuple)


def enc(v):
    """a configuration value in the form the dumps are decoded to"""
    if is_map(v):
        return (1, tuple((sk, (0, sv)) for sk, sv in v[2]))
    return (0, v)


def parse(script):
    """-> (inc_at, entries [(key, val)], paths [bytes], late ops in order: typed accesses (3|4|5, m, name, ..) and
    late includes (6, None, key, val))"""
    hdr, ops = split(script)
    entries, paths, tops = [], [], []
    for o in ops:
        if o[0] in (1, 12):
            entries.append(_entry(o))
        elif o[0] == 2:
            paths.append(_b(o[2:2 + o[1]]))
        elif o[0] == 3:
            tops.append((3, o[1], _b(o[3:3 + o[2]]), o[-1] % 4))
        elif o[0] == 4:
            tops.append((4, o[1], _b(o[3:3 + o[2]]), o[-2] % 4, o[-1]))
        elif o[0] == 5:
            tops.append((5, o[1], _b(o[3:3 + o[2]])))
        elif o[0] == 6:
            tops.append((6, None, _b(o[2:2 + o[1]]), o[-1]))
        elif o[0] == 8:
            tops.append((8, o[1], _b(o[3:3 + o[2]]), o[-1] % 4))
        elif o[0] == 9:
            tops.append((9, (o + [0, 0])[1], b"", (o + [0, 0])[2]))
        elif o[0] == 10:
            tops.append((10, (o + [0])[1], b""))
        elif o[0] == 11:
            tops.append((11, o[1], _b(o[3:3 + o[2]])))
    return (hdr[0] if hdr else 0), entries, paths, tops


def parse_groups(script):
    """-> [(at, [(key, val)])]: the separate includes of the script, in script order"""
    hdr, ops = split(script)
    groups = [(hdr[0] if hdr else 0, [])]
    for o in ops:
        if o[0] in (1, 12):
            groups[-1][1].append(_entry(o))
        elif o[0] == 7:
            groups.append((o[1] if len(o) > 1 else 0, []))
    return groups


def yaml_ok(es):
    """the YAML parser rejects a mapping with a repeated key, on either level"""
    ks = [k for k, _ in es]
    if len(set(ks)) != len(ks):
        return False
    return all(len(set(sk for sk, _ in v[2])) == len(v[2]) for _, v in es if is_map(v))


def accepted(groups):
    """entries of the includes the YAML parser accepts"""
    out = []
    for _, es in groups:
        if yaml_ok(es):
            out += es
    return out


def show(v):
    if is_map(v):
        body = ", ".join("%s: %d" % (_s(sk), sv) for sk, sv in v[2])
        return "{%s}" % body if v[1] % 2 == 0 or not v[2] else "{|%s|}" % body
    return "%d" % v


def _s(b):
    return b.decode("utf-8", "replace")


def pretty(script):
    inc, entries, paths, tops = parse(script)
    gs = parse_groups(script)
    if len(gs) == 1:
        cfg = "; ".join("%s: %s" % (_s(k), show(v)) for k, v in entries)
    else:
        cfg = " | ".join("@%d: " % at + "; ".join("%s: %s" % (_s(k), show(v)) for k, v in es) for at, es in gs)
    mods = ", ".join(_s(p) for p in paths)
    t = []
    for o in tops:
        if o[0] == 3: t.append("m%d.prop::<%s>(%s)" % (o[1], TYN[o[3]], _s(o[2])))
        elif o[0] == 4: t.append("m%d.prop::<%s>(%s).set(%d)" % (o[1], TYN[o[3]], _s(o[2]), o[4]))
        elif o[0] == 6: t.append("include_cfg{%s: %d}" % (_s(o[2]), o[3]))
        elif o[0] == 8: t.append("h%d = m%d.prop::<%s>(%s)" % (sum(1 for x in t if x.startswith("h") and " = m" in x), o[1], TYN[o[3]], _s(o[2])))
        elif o[0] == 9: t.append("h[%d].set(%d)" % (o[1], o[3]))
        elif o[0] == 10: t.append("h[%d].get()" % o[1])
        elif o[0] == 11: t.append("m%d.prop_raw(%s).clear()" % (o[1], _s(o[2])))
        else: t.append("m%d.prop_raw(%s)" % (o[1], _s(o[2])))
    return "cfg {%s} modules [%s] include_cfg after %d nodes%s" % (cfg, mods, inc, ("; " + "; ".join(t)) if t else "")


# ----------------------------------------------------------------------------- the specification (C17 itself)
def flatten(entries):
    """[(flat key, encoded value, source key, min depth)]: a mapping-valued entry K: {s: v} is itself an entry (for a module
    above K the property named by the rest of K holds the mapping) and is the hand-nested form of K.s: v for the modules at
    or below K (module paths of at least len(K) segments)"""
    out = []
    for k, v in entries:
        out.append((k, enc(v), k, 0))
        if is_map(v):
            for sk, sv in v[2]:
                out.append((k + b"." + sk, (0, sv), k, len(k.split(b"."))))
    return out


def spec_src(entries, path):
    """property name -> [(admissible value, key of the entry it comes from)] for the module with dotted path `path`:
    an entry contributes iff its key is (segments matching the path, '<any>' = exactly one segment) + (property name)."""
    p = path.split(b".")
    res = {}
    for k, v, src, depth in flatten(entries):
        ks = k.split(b".")
        if len(ks) <= len(p) or len(p) < depth:
            continue
        q, r = ks[:len(p)], ks[len(p):]
        if all(a == ANY or a == b for a, b in zip(q, p)) and ANY not in r:
            res.setdefault(b".".join(r), []).append((v, src))
    return res


def spec(entries, path):
    """property name -> set of admissible numbers (scalar entries; the form used by the typed clauses and generators)"""
    return {name: set(v[1] for v, _ in vs if v[0] == 0) for name, vs in spec_src(entries, path).items()}


def valid(script):
    _, entries, paths, tops = parse(script)

    def okb(b):
        try:
            s = b.decode("utf-8")
        except UnicodeDecodeError:
            return False
        return all(0x20 <= ord(c) <= 0x7e or 0xc0 <= ord(c) <= 0x7ff for c in s)
    hdr, ops = split(script)
    if join(hdr, ops) != list(script) and len(script) > 0:
        pass  # trailing garbage is ignored by both runners
    if not script:
        return False
    for k, v in entries:
        if not okb(k): return False
        if is_map(v) and not all(okb(sk) for sk, _ in v[2]): return False
    for p in paths:
        if not okb(p) or any(s == b"" for s in p.split(b".")): return False
    if len(set(paths)) != len(paths): return False
    return all(okb(o[2]) for o in tops)   # names of typed accesses and keys of late includes


def wf_key(k):
    ss = k.split(b".")
    return all(x != b"" and (x == ANY or ANY not in x) for x in ss) and ss[-1] != ANY


def wf_entry(k, v):
    """inside the quantifier (extended to hand-nested mappings): well-formed key; sub-keys well-formed and wildcard free"""
    return wf_key(k) and (not is_map(v) or all(wf_key(sk) and ANY not in sk for sk, _ in v[2]))


def known_pair(k1, k2):
    """k2 = k1 . <any> . R  (segmentwise)"""
    a, b = k1.split(b"."), k2.split(b".")
    return len(b) > len(a) and b[:len(a)] == a and b[len(a)] == ANY


def has_known_pair(keys):
    return any(known_pair(a, b) for a in keys for b in keys)


# ----------------------------------------------------------------------------- output walking
class Bad(Exception):
    pass


def _lpb(out, i):
    n = out[i]
    return _b(out[i + 1:i + 1 + n]), i + 1 + n


def _value(out, i):
    if i >= len(out): raise Bad("truncated value")
    t = out[i]
    if t in (0, 2, 3):
        if i + 1 >= len(out): raise Bad("truncated value")
        return (t, out[i + 1]), i + 2
    if t == 1:
        n = out[i + 1]; i += 2; items = []
        for _ in range(n):
            if out[i] == 999:
                k = None; i += 1
            else:
                k, i = _lpb(out, i)
            v, i = _value(out, i)
            items.append((k, v))
        return (1, tuple(items)), i
    if t in (4, 6):
        return (t,), i + 1
    raise Bad("bad value tag %d" % t)


def _dump(out, i, tag):
    if i >= len(out) or out[i] != tag: raise Bad("expected a dump record (%d) at %d" % (tag, i))
    n = out[i + 1]; i += 2; d = []
    for _ in range(n):
        k, i = _lpb(out, i)
        v, i = _value(out, i)
        d.append((k, v))
    return d, i


def walk_level(out, i, nmods, tops):
    """-> (panic site | None, dumps [[(name, value)]], results per late op, final dumps, next index)"""
    dumps, res, fin = [], [], []
    if i < len(out) and out[i] == 9:
        return out[i + 1], [], [], [], i + 2
    for _ in range(nmods):
        d, i = _dump(out, i, 10)
        dumps.append(d)
    if nmods:
        for o in tops:
            t = out[i] if i < len(out) else None
            if o[0] == 6:
                if t == 9 and out[i + 1] == 3:
                    res.append((9, 3)); i += 2
                else:
                    res.append((6,))
            elif t == 9:
                res.append((9, out[i + 1])); i += 2
            elif t == 3:
                if out[i + 1] == 1:
                    res.append((3, 1, out[i + 2])); i += 3
                else:
                    res.append((3, out[i + 1])); i += 2
            elif t == 4:
                res.append((4, out[i + 1])); i += 2
            elif t == 5:
                v, i = _value(out, i + 1)
                res.append((5, v))
            elif t in (8, 13):
                res.append((t, out[i + 1])); i += 2
            elif t == 14:
                if out[i + 1] == 1:
                    res.append((14, 1, out[i + 2])); i += 3
                else:
                    res.append((14, out[i + 1])); i += 2
            elif t == 15:
                res.append((15,)); i += 1
            else:
                raise Bad("bad typed record %s" % t)
        for _ in range(nmods):
            d, i = _dump(out, i, 12)
            fin.append(d)
    return None, dumps, res, fin, i


def walk(script, out):
    """-> None for a rejected script, else dict(l1=(panic, cfgflag, dumps, res, final), l2=(panic, dumps, res, final))"""
    if out == [7]:
        return None
    _, entries, paths, tops = parse(script)
    if not out or out[0] != 100: raise Bad("no level-1 marker")
    i = 1
    if out[i] == 9:
        l1 = (out[i + 1], None, [], [], []); i += 2
    else:
        ng = out[i]; flag = out[i + 1:i + 1 + ng]; i += 1 + ng
        p, d, r, f, i = walk_level(out, i, len(paths), tops)
        l1 = (p, flag, d, r, f)
    if i >= len(out) or out[i] != 200: raise Bad("no level-2 marker at %d" % i)
    i += 1
    p, d, r, f, i = walk_level(out, i, len(paths), tops)
    if i != len(out): raise Bad("trailing output")
    return dict(l1=l1, l2=(p, d, r, f))


# ----------------------------------------------------------------------------- monitor
def _norm(v):
    """mappings are compared without regard to the order of their entries"""
    if v[0] == 1:
        return (1, tuple(sorted((k, _norm(x)) for k, x in v[1])))
    return v


def has_partner(src, groups):
    """src = K.<any>.R and its include also holds an entry keyed exactly K: the pair of the known finding"""
    for _, es in groups:
        ks = [k for k, _ in es]
        if src in ks and any(known_pair(k, src) for k in ks):
            return True
    return False


def check_capture(entries, groups, path, dump, where):
    """-> [(kind, message)]; kind 'known' = exactly what the known finding entry_at_wildcard_prefix says: the module does not
    receive a property that only entries K.<any>.R with a partner entry K in their include address"""
    want = spec_src(entries, path)
    out = []
    got = {}
    for k, v in dump:
        if k in got:
            out.append(("twice", "%s: module %s lists property %r twice" % (where, _s(path), _s(k))))
        got[k] = v
    for k in got:
        if k not in want:
            out.append(("foreign", "%s: module %s received property '%s' = %s but no entry addresses it (foreign or synthesised "
                        "entry)" % (where, _s(path), _s(k), got[k])))
    for k in want:
        if k not in got:
            if all(v == (1, ()) for v, _ in want[k]):
                continue     # an empty mapping holds no data: its presence as a property is not demanded
            kind = "known" if all(has_partner(src, groups) for _, src in want[k]) else "miss"
            out.append((kind, "%s: module %s did not receive property '%s' although an entry addresses it (values %s)" % (
                where, _s(path), _s(k), sorted(str(v) for v, _ in want[k]))))
    for k, v in got.items():
        if k in want and _norm(v) not in [_norm(x) for x, _ in want[k]]:
            out.append(("value", "%s: module %s property '%s' has value %s, not the value of a matching entry %s" % (
                where, _s(path), _s(k), v, sorted(str(x) for x, _ in want[k]))))
    return out


def enc_typed(ty, v):
    return {0: (0, v), 1: (0, v), 2: (2, v), 3: (3, v)}[ty]


def check_typed(entries, paths, dumps, tops, res, final, where):
    """A property keeps the type it was first (successfully) read or written with: once typed as T every later read as
    U != T is an error and reads as T return the same value - whatever configuration is included in between and through
    whatever handle the access goes: a write through a handle of another type must not change the property."""
    fixed = {}      # (m, name) -> (ty, number | None = not yet observed)
    touched = set() # (m, name) that has a slot because of an access
    cleared = set() # (m, name) emptied by RawProp::clear: configuration values no longer apply
    late = {}       # (m, name) -> values of late includes addressing it so far
    late_ok = True  # all late keys well-formed
    handles = []    # (m, name, ty) | None

    def admissible(key, cfgv):
        if key in cleared:
            return set()
        if cfgv is not None:
            return {cfgv[1]} if cfgv[0] == 0 else set()
        return set(late.get(key, ())) if late_ok else None

    for o, r in zip(tops, res):
        if r[0] == 9 and r[1] not in (4, 5):
            return "%s: operation panicked (%s)" % (where, o)
        if o[0] == 6:
            if not wf_key(o[2]):
                late_ok = False
            for m, path in enumerate(paths):
                for name, vals in spec([(o[2], o[3])], path).items():
                    if (m, name) not in touched:
                        late.setdefault((m, name), set()).update(vals)
            continue
        if o[0] in (9, 10):
            h = handles[o[1] % len(handles)] if handles else None
            if h is None:
                if r != ((13, 7) if o[0] == 9 else (14, 7)):
                    return "%s: access through a handle that was never created gave %s" % (where, r)
                continue
            m, name, hty = h; key = (m, name)
            if o[0] == 9:
                nv = o[3] % 2 if hty == 3 else o[3]
                if key in fixed and fixed[key][0] != hty:
                    if r != (9, 4):
                        return ("%s: property '%s' of %s is typed as %s; a write through a %s handle was not refused (%s): "
                                "the property was re-typed" % (where, _s(name), _s(paths[m]), TYN[fixed[key][0]], TYN[hty], r))
                elif r == (13, 0):
                    fixed[key] = (hty, nv)
                else:
                    return "%s: write through a %s handle to '%s' (%s) failed: %s" % (
                        where, TYN[hty], _s(name), "same type" if key in fixed else "no type yet", r)
            else:
                if key in fixed and fixed[key][0] != hty:
                    if r != (9, 5):
                        return "%s: property '%s' of %s is typed as %s; a read through a %s handle was not an error: %s" % (
                            where, _s(name), _s(paths[m]), TYN[fixed[key][0]], TYN[hty], r)
                elif key in fixed:
                    fty, fv = fixed[key]
                    if r[:2] != (14, 1) or (fv is not None and r[2] != fv):
                        return "%s: property '%s' (type %s, value %s) read through its handle as %s" % (where, _s(name), TYN[fty], fv, r)
                    fixed[key] = (fty, r[2])
                elif r != (14, 0):
                    return "%s: untyped property '%s' read through a handle as %s" % (where, _s(name), r)
            continue
        m = o[1] % len(paths); key = (m, o[2])
        cfgv = dict(dumps[m]).get(o[2])
        if key in cleared:
            cfgv = None
        if o[0] == 11:
            if r != (15,):
                return "%s: clear gave %s" % (where, r)
            fixed.pop(key, None); cleared.add(key); touched.add(key)
            continue
        if o[0] in (3, 8):
            ty = o[3]
            ok_val = r[:2] == (3, 1) if o[0] == 3 else r == (8, 0)
            ok_abs = r == (3, 0) if o[0] == 3 else r == (8, 0)
            if key in fixed:
                fty, fv = fixed[key]
                if fty != ty:
                    if ok_val or ok_abs:
                        return "%s: property '%s' of %s, typed as %s (value %s), was accessed as %s without an error: %s" % (
                            where, _s(o[2]), _s(paths[m]), TYN[fty], fv, TYN[ty], r)
                elif o[0] == 3:
                    if r[:2] != (3, 1) or (fv is not None and r[2] != fv):
                        return "%s: property '%s' of %s (type %s, value %s) read back as %s" % (where, _s(o[2]), _s(paths[m]), TYN[fty], fv, r)
                    fixed[key] = (fty, r[2])
                elif r != (8, 0):
                    return "%s: handle of the property's own type %s refused: %s" % (where, TYN[ty], r)
            else:
                adm = admissible(key, cfgv)
                if o[0] == 3 and r[:2] == (3, 1):
                    if cfgv is not None and cfgv[0] != 0:
                        return "%s: non-scalar property '%s' produced a typed value %s" % (where, _s(o[2]), r)
                    if adm is not None and (ty not in (0, 1) or r[2] not in adm):
                        return "%s: read of property '%s' as %s produced %s; admissible configuration values: %s" % (
                            where, _s(o[2]), TYN[ty], r, sorted(adm))
                    fixed[key] = (ty, r[2])
                elif o[0] == 3 and r == (3, 0):
                    if cfgv is not None or adm:
                        return "%s: configured property '%s' read as absent" % (where, _s(o[2]))
                elif o[0] == 8 and r == (8, 0):
                    if cfgv is not None:
                        if cfgv[0] != 0 or ty not in (0, 1):
                            return "%s: configuration value %s of '%s' accepted as %s" % (where, cfgv, _s(o[2]), TYN[ty])
                        fixed[key] = (ty, cfgv[1])
                    elif adm:
                        if ty not in (0, 1):
                            return "%s: configuration value of '%s' accepted as %s" % (where, _s(o[2]), TYN[ty])
                        fixed[key] = (ty, None)
            if o[0] == 8:
                handles.append((m, o[2], ty) if r == (8, 0) else None)
        elif o[0] == 4:
            ty, v = o[3], o[4]
            nv = v % 2 if ty == 3 else v
            if key in fixed and fixed[key][0] != ty:
                if r == (4, 0):
                    return "%s: property '%s' typed as %s was written as %s without an error" % (where, _s(o[2]), TYN[fixed[key][0]], TYN[ty])
            elif r == (4, 0):
                fixed[key] = (ty, nv)
            elif key in fixed:
                return "%s: write of the property's own type %s failed: %s" % (where, TYN[ty], r)
        elif o[0] == 5:
            if key in fixed and fixed[key][1] is not None:
                fty, fv = fixed[key]
                if r[1] != enc_typed(fty, fv):
                    return "%s: raw value of '%s' is %s, expected %s" % (where, _s(o[2]), r[1], enc_typed(fty, fv))
        touched.add(key)
    # the final state of every module
    for m, (path, fd) in enumerate(zip(paths, final)):
        got = dict(fd)
        init = dict(dumps[m])
        for (mm, name), (fty, fv) in fixed.items():
            if mm == m and fv is not None and got.get(name) != enc_typed(fty, fv):
                return "%s: at the end property '%s' of %s holds %s, but it was typed as %s with value %d" % (
                    where, _s(name), _s(path), got.get(name), TYN[fty], fv)
        for (mm, name) in cleared:
            if mm == m and (m, name) not in fixed and got.get(name) != (6,):
                return "%s: at the end the cleared property '%s' of %s holds %s" % (where, _s(name), _s(path), got.get(name))
        for name, v in init.items():
            if (m, name) not in touched and got.get(name) != v:
                return "%s: untouched property '%s' of %s changed from %s to %s" % (where, _s(name), _s(path), v, got.get(name))
        if late_ok:
            for (mm, name), vals in late.items():
                if mm == m and (m, name) not in touched and name not in init:
                    if name not in got or got[name][0] != 0 or got[name][1] not in vals:
                        return "%s: late include did not deliver '%s' to %s (final value %s, entries %s)" % (
                            where, _s(name), _s(path), got.get(name), sorted(vals))
            for name in got:
                if name not in init and (m, name) not in touched and (m, name) not in late:
                    return "%s: at the end %s has a property '%s' nobody addressed" % (where, _s(path), _s(name))
    return None


def _monitor(script, out):
    """-> (message | None, kind).  Every complaint is collected; one that is NOT of the known finding's kind is reported first,
    so that a different violation on an input that also shows the known finding is never hidden."""
    if not valid(script):
        return (None, None) if out == [7] else ("malformed script was not rejected: %s" % out[:8], "other")
    try:
        w = walk(script, out)
    except (Bad, IndexError) as e:
        return "malformed output: %s" % e, "other"
    if w is None:
        return "valid script rejected", "other"
    _, _, paths, tops = parse(script)
    groups = parse_groups(script)
    entries = accepted(groups)     # the union of all accepted includes: what the iff is computed from
    p1, flag, d1, r1, f1 = w["l1"]
    p2, d2, r2, f2 = w["l2"]
    if p1 is not None:
        return "capture panicked (des_net_utils::props)", "other"
    if p2 is not None:
        return "include_cfg / node creation panicked", "other"
    for path, a, b in zip(paths, d1, d2):
        if sorted(k for k, _ in a) != sorted(k for k, _ in b):
            return ("module %s: property set depends on when the configurations are included relative to node creation: %s vs %s" % (
                _s(path), sorted(_s(k) for k, _ in a), sorted(_s(k) for k, _ in b))), "other"
    if len(flag) != len(groups):
        return "malformed output: %d include flags for %d includes" % (len(flag), len(groups)), "other"
    for (at, es), fl in zip(groups, flag):
        if (not yaml_ok(es)) != (fl == 5):
            return ("include %s: YAML parser verdict %d does not match 'a repeated key is rejected'" % (
                [_s(k) for k, _ in es], fl)), "other"
    complaints = []
    for path, a, b in zip(paths, d1, d2):
        for where, d in (("props", a), ("des", b)):
            # whatever the keys look like: a property never has an empty name and never holds a synthesised '<any>' node
            for k, v in d:
                if _has_any_node(v):
                    complaints.append(("anynode", "%s: property '%s' of module %s holds a synthesised '<any>' address node: %s" % (
                        where, _s(k), _s(path), v)))
    if all(wf_entry(k, v) for k, v in entries):
        for path, a, b in zip(paths, d1, d2):
            complaints += check_capture(entries, groups, path, a, "props") + check_capture(entries, groups, path, b, "des")
    other = [c for c in complaints if c[0] != "known"]
    if other:
        return other[0][1], other[0][0]
    if paths:
        m = (check_typed(entries, paths, d1, tops, r1, f1, "props") or
             check_typed(entries, paths, d2, tops, r2, f2, "des"))
        if m:
            return m, "other"
    if complaints:
        return complaints[0][1], "known"
    return None, None


def _has_any_node(v):
    return v[0] == 1 and any(k == ANY or _has_any_node(x) for k, x in v[1])


def monitor(script, out):
    """C17 evaluated on the implementation's output alone (the specification, not the model)."""
    return _monitor(script, out)[0]


def known_class(script, out, model_out):
    """known finding entry_at_wildcard_prefix, narrowly: (1) the implementation's output equals the model's (the byte-level
    model reproduces the unchanged code on these inputs, the defect included) and (2) the ONLY complaints are of the finding's
    own kind: a module does not receive a property that is addressed solely by entries K.<any>.R whose include also holds an
    entry keyed exactly K.  Any other complaint, and any model/implementation disagreement, is reported normally."""
    if out is None or (model_out is not None and out != model_out):
        return None
    msg, kind = _monitor(script, out)
    return "entry_at_wildcard_prefix" if msg is not None and kind == "known" else None


def known_witness(cls):
    if cls == "entry_at_wildcard_prefix":
        # a: 1; a.<any>.x: 2; modules a.z (entitled to x = 2, receives nothing) and a
        return join([0], [e_entry(b"a", 1), e_entry(b"a.<any>.x", 2), e_module(b"a.z"), e_module(b"a")])
    return None


# ----------------------------------------------------------------------------- generator
def seg_ok(s):
    return s != b"" and ANY not in s or s == ANY


def gen_script(rng, malformed=False):
    names = rng.sample(NAMES, rng.randint(2, 5))
    if rng.random() < 0.5:
        # force a prefix-sharing pair
        names = list(set(names) | set(rng.choice([(b"a", b"ab"), (b"alice", b"alicent"), (b"a", "aé".encode()), (b"ab", b"abc"), (b"a", b"a-b")])))
    props = rng.sample(PROPS, rng.randint(2, 5)) + names[:2]

    def rpath(d=None):
        d = d or rng.choice([1, 1, 2, 2, 3, 4])
        return [rng.choice(names) for _ in range(d)]
    base = [rpath() for _ in range(rng.randint(1, 3))]
    entries, keys = [], set()
    ne = rng.randint(1, 12)
    val = 1
    while len(entries) < ne:
        c = rng.random()
        p = list(rng.choice(base)) if c < 0.7 else rpath()
        if rng.random() < 0.25 and len(p) > 1:
            p = p[:rng.randint(1, len(p))]
        if rng.random() < 0.2 and len(p) < 4:
            p.append(rng.choice(names))
        # wildcards at every depth
        w = rng.random()
        if w < 0.45:
            for i in range(len(p)):
                if rng.random() < (0.5 if w < 0.3 else 0.9):
                    p[i] = ANY
        name = rng.choice(props)
        if rng.random() < 0.15:
            name = name + b"." + rng.choice(props)
        k = b".".join(p + [name])
        if malformed:
            m = rng.random()
            if m < 0.15: k = k.replace(b"." + ANY + b".", ANY, 1) if (b"." + ANY + b".") in k else rng.choice(names) + ANY + name
            elif m < 0.25: k = k.replace(b".", b"..", 1)
            elif m < 0.32: k = b"." + k
            elif m < 0.39: k = k + b"."
            elif m < 0.50: k = b".".join(p + [ANY])
            elif m < 0.56: k = ANY
            elif m < 0.70 and entries:
                # an entry keyed by the text in front of another entry's wildcard
                o = rng.choice(entries)[0]
                if ANY in o:
                    k = o.split(ANY)[0].rstrip(b".") or k
            elif m < 0.78 and entries:
                k = rng.choice(entries)[0]   # duplicate key
            elif m < 0.85: k = b".".join(p + [ANY, name, ANY, rng.choice(props)])
        if k in keys and not malformed:
            continue
        keys.add(k)
        entries.append((k, val)); val += 1
        if len(keys) > 40:
            break
    # modules: addressed ones, siblings sharing prefixes, ancestors, descendants
    mods = []

    def add(p):
        p = [s for s in p if s]
        if p and len(p) <= 4 and all(ANY not in s for s in p):
            t = b".".join(p)
            if t not in mods:
                mods.append(t)
    for _ in range(rng.randint(1, 6)):
        c = rng.random()
        k = rng.choice(entries)[0].split(b".")
        inst = [rng.choice(names) if s == ANY or not seg_ok(s) else s for s in k]
        if c < 0.45:
            add(inst[:rng.randint(1, max(1, len(inst) - 1))])
        elif c < 0.6:
            q = inst[:rng.randint(1, max(1, len(inst) - 1))]
            q[rng.randrange(len(q))] = rng.choice(names)   # sibling
            add(q)
        elif c < 0.7:
            add(inst[:max(1, len(inst) - 1)] + [rng.choice(names)])
        elif c < 0.8:
            add(inst)
        else:
            add(rpath())
    if not mods:
        add(rpath())
    inc = rng.choice([0, 0, 1, 2, len(mods), 99])
    ops = [e_entry(k, v) for k, v in entries] + [e_module(p) for p in mods]
    if rng.random() < 0.3:
        rng.shuffle(ops)
    # typed operations
    for _ in range(rng.choice([0, 0, 2, 4, 7])):
        m = rng.randrange(len(mods))
        cand = list(spec(entries, mods[m]).keys()) + [rng.choice(props)]
        name = rng.choice(cand)
        c = rng.random()
        ty = rng.choice([0, 0, 1, 2, 3])
        if c < 0.55: ops.append(e_read(m, name, ty))
        elif c < 0.8: ops.append(e_write(m, name, ty, rng.randint(0, 300)))
        else: ops.append(e_raw(m, name))
    return join([inc], ops)


def gen_late(rng):
    """nodes exist -> a property is read / written / looked up through a handle -> only then a configuration with a
    matching entry (specific or '<any>') is included -> the property is re-read with another and with the same type"""
    base = gen_script(rng, malformed=False)
    inc, entries, paths, _ = parse(base)
    hdr, ops = split(base)
    ops = [o for o in ops if o[0] in (1, 2)]
    if not paths:
        return base
    val = 500
    for _ in range(rng.randint(1, 4)):
        m = rng.randrange(len(paths))
        names = list(spec(entries, paths[m]).keys())
        name = rng.choice(names) if names and rng.random() < 0.5 else rng.choice(PROPS)
        ty = rng.choice([0, 0, 1, 2, 3])
        c = rng.random()
        if c < 0.35: ops.append(e_read(m, name, ty))
        elif c < 0.75: ops.append(e_write(m, name, ty, rng.randint(0, 300)))
        elif c < 0.85: ops.append(e_raw(m, name))
        # else: untouched before the include
        segs = paths[m].split(b".")
        w = rng.random()
        if w < 0.5:
            segs = [ANY if rng.random() < 0.6 else x for x in segs]
        elif w < 0.6 and len(paths) > 1:
            segs = paths[rng.randrange(len(paths))].split(b".")   # possibly another module
        for _ in range(rng.choice([1, 1, 2])):
            ops.append(e_late(b".".join(segs + [name]), val)); val += 1
        other = rng.choice([t for t in range(4) if t != ty])
        tail = [e_read(m, name, other), e_read(m, name, ty)]
        if rng.random() < 0.4: tail.append(e_raw(m, name))
        if rng.random() < 0.3: tail.append(e_write(m, name, other, rng.randint(0, 9)))
        if rng.random() < 0.3: tail.insert(0, e_read(rng.randrange(len(paths)), name, rng.choice([0, 1])))
        rng.shuffle(tail)
        ops += tail
    return join([inc], ops)


def gen_multi(rng):
    """the entries are partitioned into 2..4 separate includes, each issued at its own point of the node-creation
    sequence; wildcard entries that share the text in front of their first '<any>' are put into different includes
    and (mostly) a module they address is created after both"""
    base = gen_script(rng, malformed=False)
    inc, entries, paths, _ = parse(base)
    hdr, ops = split(base)
    tail = [o for o in ops if o[0] in (3, 4, 5)]
    n = len(paths)
    ng = rng.randint(2, 4)
    groups = [[] for _ in range(ng)]
    keys = set(k for k, _ in entries)
    for e in entries:
        groups[rng.randrange(ng)].append(e)
    val = 700
    target = None
    for _ in range(rng.randint(1, 3)):
        target = rng.randrange(n)
        segs = paths[target].split(b".")
        d = rng.randrange(len(segs))
        front = segs[:d] + [ANY] + [ANY if rng.random() < 0.2 else x for x in segs[d + 1:]]
        ga, gb = rng.sample(range(ng), 2)
        for g in (ga, gb, rng.randrange(ng)):
            k = b".".join(front + [rng.choice(PROPS)])
            if k not in keys:
                keys.add(k); groups[g].append((k, val)); val += 1
    ats = [rng.randint(0, n) for _ in range(ng)]
    if target is not None and rng.random() < 0.7:
        ats = [rng.randint(0, target) for _ in range(ng)]     # the addressed module is created after all includes
        if rng.random() < 0.5:
            ats[rng.randrange(ng)] = rng.randint(0, n)
    out = []
    for g in range(ng):
        if g > 0:
            out.append(e_group(ats[g]))
        out += [e_entry(k, v) for k, v in groups[g]]
    out += [e_module(p) for p in paths] + tail
    return join([ats[0]], out)


def gen_handles(rng):
    """typed handles that outlive their lookup: several handles of different types for one (mostly still absent) property
    are created before its first write, then written and read through in some order, interleaved with fresh typed
    lookups, RawProp::clear and re-typing"""
    base = gen_script(rng, malformed=False)
    inc, entries, paths, _ = parse(base)
    hdr, ops = split(base)
    ops = [o for o in ops if o[0] in (1, 2)]
    if not paths:
        return base
    nh = 0
    for _ in range(rng.randint(1, 3)):
        m = rng.randrange(len(paths))
        names = list(spec(entries, paths[m]).keys())
        name = rng.choice(names) if names and rng.random() < 0.25 else rng.choice(PROPS)
        tys = rng.sample(range(4), rng.choice([2, 2, 3]))
        if rng.random() < 0.15:
            tys.append(tys[0])                      # two handles of the same type as well
        mine = []
        for ty in tys:
            ops.append(e_handle(m, name, ty)); mine.append(nh); nh += 1
        body = []
        for _ in range(rng.randint(2, 6)):
            c = rng.random()
            h = rng.choice(mine)
            if c < 0.45: body.append(e_hset(h, rng.randint(0, 300)))
            elif c < 0.70: body.append(e_hget(h))
            elif c < 0.80: body.append(e_read(m, name, rng.choice(tys + [rng.randrange(4)])))
            elif c < 0.86: body.append(e_write(m, name, rng.choice(tys), rng.randint(0, 300)))
            elif c < 0.90: body.append(e_raw(m, name))
            elif c < 0.96:
                body.append(e_clear(m, name))
                if rng.random() < 0.7:
                    ty2 = rng.randrange(4)
                    if rng.random() < 0.5:
                        body.append(e_write(m, name, ty2, rng.randint(0, 300)))
                    else:
                        body.append(e_handle(m, name, ty2)); mine.append(nh); nh += 1
                        body.append(e_hset(mine[-1], rng.randint(0, 300)))
                body.append(e_hset(rng.choice(mine), rng.randint(0, 300)))   # a stale handle
            else:
                body.append(e_late(paths[m] + b"." + name, 900 + nh))
        ops += body
        ops += [e_hget(h) for h in mine if rng.random() < 0.5] + [e_read(m, name, rng.choice(tys))]
    return join([inc], ops)


def gen_mapped(rng):
    """mapping-valued entries (hand-nested YAML, flow and block form, with 0..3 real sub-keys): next to a wildcard entry
    K.<any>.R an entry K: {..} (before or after it, at top level and below a wildcard), plain ones, and the modules that see
    the mapping as a property (the parent of K), its sub-keys as properties (K itself) and the wildcard entry (K's children)"""
    base = gen_script(rng, malformed=False)
    inc, entries, paths, _ = parse(base)
    hdr, ops = split(base)
    tail = [o for o in ops if o[0] in (3, 4, 5)]
    keys = set(k for k, _ in entries)
    mods = list(paths)
    val = 800

    def subs():
        ks = rng.sample([b"mtu", b"mss", b"x", b"log", b"tcp.sack", b"a", "é".encode()], rng.choice([0, 1, 1, 2, 3]))
        return tuple((k, rng.randint(1, 2000)) for k in ks)

    def addmod(p):
        if p and all(x and ANY not in x for x in p) and len(p) <= 4:
            t = b".".join(p)
            if t not in mods: mods.append(t)

    def inst(segs):
        return [rng.choice(NAMES[:4]) if x == ANY else x for x in segs]
    for _ in range(rng.randint(1, 3)):
        c = rng.random()
        wild = [k for k, _ in entries if ANY in k.split(b".")[1:]]
        if c < 0.65:
            # K next to K.<any>.R
            if wild and rng.random() < 0.5:
                kw = rng.choice(wild)
                segs = kw.split(b".")
                i = [j for j, x in enumerate(segs) if x == ANY and j > 0][0]
                K = segs[:i]
            else:
                K = [rng.choice(NAMES[:5]) for _ in range(rng.choice([1, 2, 2, 3]))]
                if rng.random() < 0.3: K[0] = ANY
                kw = b".".join(K + [ANY, rng.choice(PROPS)])
                if kw in keys: continue
                keys.add(kw)
                e = (kw, val); val += 1
                entries.insert(rng.randint(0, len(entries)), e)
            kk = b".".join(K)
            if kk in keys or K[-1] == ANY: continue
            keys.add(kk)
            pos = rng.randint(0, len(entries))
            entries.insert(pos, (kk, ("M", rng.randint(0, 1), subs())))
            ik = inst(K)
            addmod(ik[:-1]); addmod(ik); addmod(ik + [rng.choice(NAMES[:4])])
        else:
            K = [rng.choice(NAMES[:5]) for _ in range(rng.choice([1, 2, 3]))]
            if rng.random() < 0.3: K[rng.randrange(len(K))] = ANY
            kk = b".".join(K + [rng.choice(PROPS)])
            if kk in keys: continue
            keys.add(kk)
            entries.append((kk, ("M", rng.randint(0, 1), subs())))
            ik = inst(kk.split(b"."))
            addmod(ik[:-1]); addmod(ik)
    ops = [e_entry(k, v) for k, v in entries] + [e_module(p) for p in mods]
    for _ in range(rng.choice([0, 0, 2, 3])):
        m = rng.randrange(len(mods))
        cand = list(spec_src(entries, mods[m]).keys()) or [rng.choice(PROPS)]
        name = rng.choice(cand)
        ops.append(rng.choice([e_read(m, name, rng.choice([0, 2])), e_raw(m, name)]))
    return join([rng.choice([0, 0, 1, len(mods), 99])], ops + tail)


def gen(rng, n):
    for i in range(n):
        c = rng.random()
        if c < 0.16:
            yield gen_late(rng)
        elif c < 0.40:
            yield gen_multi(rng)
        elif c < 0.57:
            yield gen_handles(rng)
        elif c < 0.71:
            yield gen_mapped(rng)
        else:
            yield gen_script(rng, malformed=(c > 0.91))


def exhaustive():
    """all configurations of <= 2 keys of <= 3 segments over {a, ab, x, <any>} x all module paths of <= 2 segments over
    {a, ab, x} (all twelve in one script) x include before / after"""
    segs = [b"a", b"ab", b"x", ANY]
    keys = [b".".join(t) for n in (1, 2, 3) for t in itertools.product(segs, repeat=n)]
    mods = [b".".join(t) for n in (1, 2) for t in itertools.product(segs[:3], repeat=n)]
    mops = [e_module(p) for p in mods]
    cfgs = [[]] + [[k] for k in keys] + [[k1, k2] for k1 in keys for k2 in keys if k1 != k2]
    for i, c in enumerate(cfgs):
        yield join([0 if i % 2 == 0 else 99], [e_entry(k, j + 1) for j, k in enumerate(c)] + mops)


# ----------------------------------------------------------------------------- measurements
def mechanisms(script, out):
    m = set()
    if not valid(script):
        m.add("rejected_script"); return m
    inc, entries, paths, tops = parse(script)
    keys = [k for k, _ in entries]
    if len(set(keys)) != len(keys): m.add("duplicate_key")
    for k in keys:
        ks = k.split(b".")
        if ANY in ks:
            m.add("wildcard")
            if ks.index(ANY) > 0: m.add("wildcard_below_top")
            if ks.count(ANY) > 1: m.add("several_wildcards")
            if ks[-1] == ANY: m.add("trailing_wildcard")
        if any(ANY in s and s != ANY for s in ks): m.add("wildcard_inside_segment")
        if b"" in ks: m.add("empty_segment")
        if any(o != k and o.startswith(k) and o[len(k):].startswith(b"." + ANY) for o in keys): m.add("entry_keyed_by_wildcard_prefix")
    for p in paths:
        sp = spec(entries, p)
        if sp: m.add("module_receives")
        if any(len(v) > 1 for v in sp.values()): m.add("several_entries_one_property")
        if len(sp) > 1: m.add("several_properties_one_module")
        ps = p.split(b".")
        for k in keys:
            ks = k.split(b".")
            if len(ks) > len(ps):
                q = ks[:len(ps)]
                if all(a == ANY or a == b for a, b in zip(q, ps)):
                    if ANY in q: m.add("wildcard_match")
                    else: m.add("specific_match")
                    if ANY in ks[len(ps):]: m.add("wildcard_below_module")
                else:
                    # textual prefix that is not a segment prefix
                    if ANY not in k and k.startswith(p) and not k.startswith(p + b"."): m.add("sibling_textual_prefix")
                    for a, b in zip(q, ps):
                        if a != b and a != ANY and (a.startswith(b) or b.startswith(a)): m.add("sibling_segment_prefix")
        if any(ord(c) > 127 for c in p.decode("utf-8", "replace")): m.add("non_ascii_module")
        if len(ps) >= 3: m.add("deep_module")
    if paths:
        if inc == 0: m.add("include_before_nodes")
        elif inc >= len(paths): m.add("include_after_nodes")
        else: m.add("include_between_nodes")
    for k, v in entries:
        if is_map(v):
            m.add("mapping_valued_entry")
            m.add("mapping_block_form" if v[1] % 2 and v[2] else "mapping_flow_form")
            if not v[2]: m.add("mapping_without_sub_keys")
            if any(known_pair(k, o) for o in keys):
                m.add("mapping_valued_entry_at_wildcard_prefix")
    groups = parse_groups(script)
    if len(groups) > 1:
        m.add("several_includes")

        def front(k):
            return k.split(ANY)[0]
        for i, (_, a) in enumerate(groups):
            for j, (_, b) in enumerate(groups):
                if i < j and any(ANY in k1 and ANY in k2 and front(k1) == front(k2) for k1, _ in a for k2, _ in b):
                    m.add("wildcards_sharing_prefix_in_different_includes")
        for i in range(len(paths)):
            if sum(1 for at, es in groups if es and min(at, len(paths)) <= i) >= 2:
                m.add("node_created_after_two_includes")
        if any(min(at, len(paths)) > 0 for at, _ in groups) and any(min(at, len(paths)) < len(paths) for at, _ in groups):
            m.add("includes_interleaved_with_nodes")
    hk = []       # handles: (module, name, ty)
    written = set()
    for o in tops:
        if not paths:
            break
        if o[0] == 8:
            key = (o[1] % len(paths), o[2])
            m.add("handle_created")
            if key not in written and any(k == key and t != o[3] for k, t in hk):
                m.add("two_handles_different_types_before_first_write")
            hk.append((key, o[3]))
        elif o[0] == 9 and hk:
            key, t = hk[o[1] % len(hk)]
            m.add("write_through_handle")
            if any(k == key and t2 != t for k, t2 in hk) and key in written:
                m.add("write_through_handle_after_other_handle_wrote")
            written.add(key)
        elif o[0] == 10 and hk:
            m.add("read_through_handle")
        elif o[0] == 4:
            written.add((o[1] % len(paths), o[2]))
        elif o[0] == 11:
            m.add("clear")
            if any(k == (o[1] % len(paths), o[2]) for k, _ in hk):
                m.add("clear_with_live_handles")
    acc = {}   # (module, name) -> kinds of access seen before
    for o in tops:
        if o[0] == 3: m.add("typed_read")
        if o[0] == 4: m.add("typed_write")
        if o[0] == 5: m.add("raw_read")
        if o[0] == 6:
            m.add("late_include")
            if ANY in o[2].split(b"."): m.add("late_include_wildcard")
            for i, p in enumerate(paths):
                for name in spec([(o[2], o[3])], p):
                    k = acc.get((i, name), set())
                    if 4 in k: m.add("late_include_onto_written_property")
                    if 3 in k: m.add("late_include_onto_read_property")
                    if k and not (k - {5}): m.add("late_include_onto_looked_up_slot")
                    if not k and name in spec(entries, p): m.add("late_include_onto_configured_property")
                    if not k and name not in spec(entries, p): m.add("late_include_onto_fresh_property")
                    acc.setdefault((i, name), set()).add(6)
        elif paths and o[0] in (3, 4, 5):
            k = acc.setdefault((o[1] % len(paths), o[2]), set())
            if 6 in k and o[0] == 3: m.add("typed_read_after_late_include")
            k.add(o[0])
    try:
        w = walk(script, out) if out else None
    except (Bad, IndexError):
        w = None
    if w:
        for r in w["l1"][3]:
            if r == (3, 2) or r == (4, 2) or r == (8, 2): m.add("type_mismatch_error")
            if r == (9, 4): m.add("write_through_mismatching_handle_panics")
            if r == (9, 5): m.add("read_through_mismatching_handle_panics")
            if r == (3, 3) or r == (4, 3): m.add("conversion_error")
    return m


def nontrivial(script, out):
    return len(mechanisms(script, out) - {"rejected_script"}) >= 2
