"""C16 — message bodies are type safe, value preserving and measured consistently.

Script kinds (first number; see coq/Body/Model.v `run`, harness/src/bin/body.rs):
  0 op*        body protocol on 4 message slots over a universe of 17 Rust types
  1 decl       des_macros_core::message_body::derive_impl on a generated declaration (canonical token form)
  2 fam k l*   byte_len() of a value of one of six #[derive(MessageBody)] types compiled into the harness
"""
import itertools

ID = "C16"; MODEL = "body"; IMPL = "body"
COQ_PROP = "Properties/C16.v"; COQ_DIRS = ["Common", "Body"]
COQ_MODULE = "Body.Model"; RUN_FN = "run"
THEOREMS = ["C16_cast_iff_same_tag", "C16_value_preserved", "C16_value_preserved_set", "C16_clone_preserves_value",
            "C16_clone_source_unchanged", "C16_drop_exactly_once", "C16_heap_persists",
            "C16_length_is_header_plus_declared", "C16_length_of_view", "C16_derive_sums_active_variant",
            "C16_no_undefined_behaviour"]
QUICK_N = 4000; THOROUGH_N = 250000
RULE = ("70% body scripts from a structured generator tracking a reference state (creation in all four constructor modes, "
        "casts/borrows with the matching tag, a layout-compatible other tag or a random tag, repeated failed casts before a "
        "successful one, clones incl. onto the source slot and of non-clonable bodies, overwrites, drops of slots and of "
        "cast-out values in all orders), 18% derive_impl declarations (struct/enum x named/unnamed/unit x generics shapes), "
        "12% compiled derived-type family; non-trivial = distinct script (sha1) hitting at least two targeted mechanisms")
TRUSTED = ["values are identified by a serial that the harness' counted types draw on creation and on Clone; destructor "
           "calls of types without a Drop impl (primitives, String, Vec) are not observable and not counted",
           "mem::size_of of the harness types (x86_64) enters the model as constants for Body::new_non_debugable",
           "Message::try_content_mut (in-place mutation, after which the declared length is stale) is outside the script language"]
ASSUMPTIONS = ["fewer than 65536 messages per script (MessageId is u16)", "script numbers < 2^62"]

NT = 17
HEADER = 64
BAD = 999999
P32 = 1 << 32
SER_TAGS = {9, 10, 12, 13, 14, 15, 16}     # values carrying a serial
LOG_TAGS = SER_TAGS | {11}                 # values with an observable destructor (11 = zero-sized Z)
LAYOUT_GROUPS = [[1, 2, 3, 4], [9, 10, 12, 14], [11, 17], [6, 8], [13, 16]]
SIZES = {1: 4, 2: 4, 3: 4, 4: 4, 5: 8, 6: 24, 7: 16, 8: 24, 9: 8, 10: 8, 11: 0, 12: 8, 13: 12, 14: 8, 15: 40, 16: 12, 17: 0}
ARITY = {1: 6, 2: 6, 3: 3, 4: 3, 5: 3, 6: 3, 7: 3, 8: 2, 9: 2, 10: 2, 11: 2, 12: 2}
RECLEN = {0: 1, 1: 3, 2: 2, 3: 4, 4: 7, 5: 3, 6: 1, 7: 2, 8: 1, 9: 2, 10: 1, 11: 2, 12: 1, 13: 7}
TAGNAME = {1: "u32", 2: "i32", 3: "f32", 4: "[u8;4]", 5: "u64", 6: "String", 7: "&str", 8: "Vec<u16>", 9: "Tok", 10: "Tok2",
           11: "Z", 12: "NoClone", 13: "Option<Tok>", 14: "Box<Tok>", 15: "DS", 16: "DE", 17: "()"}


def ctag(t):
    return 1 + t % NT


def norm(tag, v):
    """the value the Rust object built from script number v carries"""
    if tag in (1, 2, 4, 9, 10, 12, 13, 14, 15, 16): return v % P32
    if tag == 3: return v % (1 << 24)
    if tag == 5: return v
    if tag == 6: return v % 41
    if tag == 7: return v % 27
    if tag == 8: return v % 65536
    return 0


def byte_len(tag, w):
    """MessageBody::byte_len of the value (w already normalised). Derived types: sum over the fields of the active variant."""
    tok = (w % 5) * 3
    if tag in (1, 2, 3, 4): return 4
    if tag == 5: return 8
    if tag in (6, 7): return w
    if tag == 8: return 2 * (w % 8 + 1)
    if tag in (9, 13, 14): return tok
    if tag == 10: return 7
    if tag == 12: return 5
    if tag == 15: return tok + 8 + w % 7                  # DS { tok: Tok, n: u64, s: String }
    if tag == 16: return tok if w % 2 == 0 else tok + 2   # DE::A(Tok) | DE::B { t: Tok, x: u16 }
    return 0


def eff_mode(tag, mode):
    return 1 if tag == 12 else mode % 4


def declared(tag, mode, w, L):
    m = eff_mode(tag, mode)
    if m == 2: return SIZES[tag]
    if m == 3: return L
    return byte_len(tag, w)


# ----------------------------------------------------------------------------- script structure
def split(script):
    if not script:
        return [], []
    hdr, rest = script[:1], script[1:]
    if hdr[0] != 0:
        return hdr, [[x] for x in rest]
    ops, i = [], 0
    while i < len(rest):
        k = ARITY.get(rest[i])
        if k is None or i + k > len(rest):
            break
        ops.append(rest[i:i + k]); i += k
    return hdr, ops


def join(hdr, ops):
    out = list(hdr)
    for o in ops:
        out += o
    return out


def pretty(script):
    hdr, ops = split(script)
    if not hdr:
        return "(empty)"
    if hdr[0] == 1:
        return "derive_impl on: " + decl_src(dec_decl(script[1:]))
    if hdr[0] == 2:
        return "family type %s variant %s field lens %s" % (script[1] % 6 if len(script) > 1 else "?", script[2:3], script[3:])
    if hdr[0] != 0:
        return "unknown kind %s" % hdr[0]
    names = {3: "can_cast", 4: "try_cast", 5: "try_content"}
    modes = {0: "new", 1: "non_clonable", 2: "non_debugable", 3: "with_len"}
    parts = []
    for o in ops:
        c = o[0]
        if c in (1, 2):
            t = ctag(o[3])
            parts.append("%s[%d] %s(%s %d%s)" % ("new" if c == 1 else "set", o[1] % 4, modes[eff_mode(t, o[2])], TAGNAME[t], o[4],
                                                 ", len=%d" % o[5] if eff_mode(t, o[2]) == 3 else ""))
        elif c in (3, 4, 5):
            parts.append("%s[%d]::<%s>" % (names[c], o[1] % 4, TAGNAME[ctag(o[2])]))
        elif c in (6, 7):
            parts.append("[%d] := [%d].%s()" % (o[2] % 4, o[1] % 4, "try_clone" if c == 6 else "clone"))
        elif c == 8: parts.append("drop[%d]" % (o[1] % 4))
        elif c == 9: parts.append("length[%d]" % (o[1] % 4))
        elif c == 10: parts.append("drop_held(%d)" % o[1])
        elif c == 11: parts.append("observe[%d]" % (o[1] % 4))
        elif c == 12: parts.append("new[%d] (no content)" % (o[1] % 4))
    return "; ".join(parts)


# ----------------------------------------------------------------------------- reference tracker (what was put in)
class Msg:
    __slots__ = ("hid", "tag", "val", "ser", "len", "clon")

    def __init__(self, hid, tag=0, val=0, ser=0, ln=0, clon=True):
        self.hid, self.tag, self.val, self.ser, self.len, self.clon = hid, tag, val, ser, ln, clon

    def obs(self):
        return [self.tag, self.val, self.ser, self.len, self.len + HEADER, self.hid]


class Ref:
    """What a user may rely on, tracked from the script and the serials the implementation reported."""
    def __init__(self):
        self.slots = [None] * 4
        self.held = []          # (tag, ser)
        self.hid = 1

    def body(self, tag, mode, v, L, ser):
        w = norm(tag, v)
        return tag, w, ser, declared(tag, mode, w, L), eff_mode(tag, mode) != 1


# ----------------------------------------------------------------------------- monitor
def records(script, out):
    """Align output records with the operations of a body script."""
    hdr, ops = split(script)
    i, recs = 0, []
    for o in ops:
        if i >= len(out):
            raise ValueError("output too short")
        n = RECLEN.get(out[i])
        if n is None or i + n + 1 > len(out):
            raise ValueError("bad record %s at %d" % (out[i], i))
        k = out[i + n]
        if i + n + 1 + k > len(out):
            raise ValueError("truncated destructor log")
        recs.append((o, out[i:i + n], out[i + n + 1:i + n + 1 + k])); i += n + 1 + k
    if i + 3 > len(out) or out[i] != 14 or len(out) != i + 3 + out[i + 2]:
        raise ValueError("bad final record")
    return recs, out[i + 1], out[i + 3:]


def monitor(script, out):
    if not script:
        return None
    if script[0] == 0:
        return monitor_body(script, out)
    if script[0] == 1:
        return monitor_derive(script, out)
    if script[0] == 2:
        return monitor_family(script, out)
    return None


def monitor_body(script, out):
    """C16 on the implementation's output alone: cast/borrow succeeds iff same type and returns the value put in,
    a failed cast returns the message intact, every value is dropped exactly once and never while it is still stored,
    length = 64 + declared length."""
    try:
        recs, nser, final_log = records(script, out)
    except ValueError as e:
        return "malformed output: %s" % e
    R = Ref()
    live = set()          # serials of values that exist and have not been dropped
    dead = set()
    zlive = 0             # zero-sized values (no serial) alive
    seen = 0              # highest serial handed out

    def fresh(tag, ser):
        nonlocal seen, zlive
        if tag in SER_TAGS:
            if ser != seen + 1:
                return "a new %s value reported serial %d, expected %d" % (TAGNAME[tag], ser, seen + 1)
            seen = ser; live.add(ser)
        else:
            if ser != 0:
                return "a %s value reported a serial" % TAGNAME[tag]
            if tag == 11:
                zlive += 1
        return None

    def stored():
        s = {m.ser for m in R.slots if m is not None and m.tag in SER_TAGS}
        s |= {ser for (t, ser) in R.held if t in SER_TAGS}
        z = sum(1 for m in R.slots if m is not None and m.tag == 11) + sum(1 for (t, _) in R.held if t == 11)
        return s, z

    for idx, (o, r, log) in enumerate(recs):
        c = o[0]
        where = "op %d (%s): " % (idx, pretty([0] + o))
        s = o[1] % 4
        m = R.slots[s] if c != 10 else None
        if c in (2, 3, 4, 5, 6, 7, 8, 9, 11) and m is None:
            if r != [0]:
                return where + "empty slot but result %s" % r
        elif c == 1 or c == 2:
            t = ctag(o[3])
            tag, w, _, ln, clon = R.body(t, o[2], o[4], o[5], 0)
            if r[0] != 1:
                return where + "creation failed: %s" % r
            e = fresh(t, r[1])
            if e: return where + e
            if r[2] != ln:
                return where + "body declares %d bytes, the value's byte length is %d" % (r[2], ln)
            if c == 1:
                R.slots[s] = Msg(R.hid, tag, w, r[1], ln, clon); R.hid += 1
            else:
                R.slots[s] = Msg(m.hid, tag, w, r[1], ln, clon)
        elif c == 12:
            if r != [1, 0, 0]:
                return where + "result %s" % r
            R.slots[s] = Msg(R.hid); R.hid += 1
        elif c == 3:
            want = int(m.tag == ctag(o[2]))
            if r != [2, want]:
                return where + "can_cast says %s but the body was created as %s" % (r, TAGNAME.get(m.tag, "nothing"))
        elif c == 5:
            if m.tag == ctag(o[2]):
                if r != [5, m.val, m.ser]:
                    return where + "borrow returned %s, the value put in was (%d, serial %d)" % (r, m.val, m.ser)
            elif r != [6]:
                return where + "borrow as another type than %s returned %s" % (TAGNAME.get(m.tag, "nothing"), r)
        elif c == 4:
            if m.tag == ctag(o[2]):
                if r != [3, m.val, m.ser, m.hid]:
                    return where + "cast returned %s, the value put in was (%d, serial %d, header %d)" % (r, m.val, m.ser, m.hid)
                R.held.append((m.tag, m.ser)); R.slots[s] = None
            else:
                if r[0] != 4:
                    return where + "cast to another type than %s succeeded or misbehaved: %s" % (TAGNAME.get(m.tag, "nothing"), r)
                if r[1:] != m.obs():
                    return where + "failed cast did not return the message intact: %s, expected %s" % (r[1:], m.obs())
        elif c == 6 or c == 7:
            d = o[2] % 4
            if m.tag != 0 and not m.clon:
                if r != ([8] if c == 6 else [9, 1]):
                    return where + "clone of a non-clonable body returned %s" % r
            else:
                if r[0] != 7:
                    return where + "clone of a clonable message failed: %s" % r
                if m.tag != 0:
                    e = fresh(m.tag, r[1])
                    if e: return where + e
                elif r[1] != 0:
                    return where + "clone of an empty message reported a serial"
                R.slots[d] = Msg(m.hid, m.tag, m.val, r[1], m.len, m.clon)
        elif c == 8:
            if r != [10]:
                return where + "result %s" % r
            R.slots[s] = None
        elif c == 9:
            if r != [11, HEADER + m.len]:
                return where + "length %s, expected 64 + %d" % (r, m.len)
        elif c == 10:
            if not R.held:
                if r != [0]:
                    return where + "nothing held but result %s" % r
            else:
                if r != [12]:
                    return where + "result %s" % r
                R.held.pop(o[1] % len(R.held))
        elif c == 11:
            if r[0] != 13 or r[1:] != m.obs():
                if r[0] == 13 and r[1] == 99:
                    return where + "the body can be cast to %d different types" % r[2]
                return where + "observed %s, expected %s" % (r, m.obs())
        # destructor log of this operation
        keep, zkeep = stored()
        for ser in log:
            if ser == 0:
                zlive -= 1
                if zlive < zkeep:
                    return where + "a zero-sized value was destroyed while still stored (or destroyed twice)"
            else:
                if ser in dead:
                    return where + "value with serial %d destroyed twice" % ser
                if ser not in live:
                    return where + "destructor ran for unknown serial %d" % ser
                if ser in keep:
                    return where + "value with serial %d destroyed while still stored in a message / held by the caller" % ser
                live.discard(ser); dead.add(ser)
    if nser != seen:
        return "final: %d serials drawn, %d reported by the operations" % (nser, seen)
    for ser in final_log:
        if ser == 0:
            zlive -= 1
        else:
            if ser in dead:
                return "final: value with serial %d destroyed twice" % ser
            if ser not in live:
                return "final: destructor ran for unknown serial %d" % ser
            live.discard(ser); dead.add(ser)
    if live:
        return "final: values never destroyed (leaked): serials %s" % sorted(live)
    if zlive != 0:
        return "final: zero-sized values created and destroyed differ by %d" % zlive
    return None


# ---- derive scripts
def dec_fields(l):
    if not l:
        return ("unit",), []
    kind, r = l[0], l[1:]
    if kind > 1 or not r:
        return ("unit",), r
    k, r = r[0] % 8, r[1:]
    if kind == 0:
        ps = []
        for _ in range(k):
            if len(r) < 2:
                r = []
                break
            ps.append((r[0], r[1] % 8)); r = r[2:]
        return ("named", ps), r
    ts = []
    for _ in range(k):
        if not r:
            break
        ts.append(r[0] % 8); r = r[1:]
    return ("unnamed", ts), r


def dec_decl(l):
    if len(l) < 2:
        return dict(name=0, gen=0, kind="struct", fields=("unit",))
    name, gen, r = l[0], l[1] % 6, l[2:]
    if r and r[0] == 0:
        return dict(name=name, gen=gen, kind="struct", fields=dec_fields(r[1:])[0])
    if len(r) >= 2:
        nv, r = r[1] % 8, r[2:]
        vs = []
        for _ in range(nv):
            if not r:
                break
            vn, r = r[0], r[1:]
            f, r = dec_fields(r)
            vs.append((vn, f))
        return dict(name=name, gen=gen, kind="enum", variants=vs)
    return dict(name=name, gen=gen, kind="struct", fields=("unit",))


TYPES = ["L", "u32", "Vec<u8>", "()", "T", "Option<String>", "[u8; 4]", "std::collections::HashMap<u16, Inner<T>>"]
GENS = [("", ""), ("<T>", ""), ("<T: Copy + Eq>", ""), ("<T>", " where T: Copy"), ("<'a, T, const K: usize>", ""), ("<T, U>", "")]


def fields_src(f):
    if f[0] == "named":
        return "{ " + ", ".join("f%d: %s" % (n, TYPES[t]) for n, t in f[1]) + " }"
    if f[0] == "unnamed":
        return "(" + ", ".join(TYPES[t] for t in f[1]) + ")"
    return ""


def decl_src(d):
    g, w = GENS[d["gen"]]
    if d["kind"] == "struct":
        f = d["fields"]
        if f[0] == "named":
            return "struct D%d%s%s %s" % (d["name"], g, w, fields_src(f))
        return "struct D%d%s%s%s;" % (d["name"], g, fields_src(f), w)
    return "enum D%d%s%s { %s }" % (d["name"], g, w, ", ".join("V%d%s" % (vn, fields_src(f)) for vn, f in d["variants"]))


def expected_terms(f, self_access):
    if f[0] == "named":
        return [len(f[1])] + [x for n, t in f[1] for x in (t, 1 if self_access else 3, n)]
    if f[0] == "unnamed":
        return [len(f[1])] + [x for i, t in enumerate(f[1]) for x in (t, 2 if self_access else 4, i)]
    return [0]


def monitor_derive(script, out):
    """derive(MessageBody) generates: struct -> the sum of byte_len over all fields (each with its declared type);
    enum -> one match arm per variant binding exactly that variant's fields and summing exactly those."""
    d = dec_decl(script[1:])
    tp = {0: 0, 5: 2}.get(d["gen"], 1)
    if d["kind"] == "struct":
        want = [tp, 1] + expected_terms(d["fields"], True)
    elif not d["variants"]:
        want = [0, 1, 0]
    else:
        want = [tp, 2, len(d["variants"])]
        for vn, f in d["variants"]:
            if f[0] == "named":
                want += [1, vn, len(f[1])] + [n for n, _ in f[1]]
            elif f[0] == "unnamed":
                want += [2, vn, len(f[1])] + list(range(len(f[1])))
            else:
                want += [3, vn, 0]
            want += expected_terms(f, False)
    if out != want:
        return "derive_impl on `%s` generated (canonical form) %s, the sum over the declared fields is %s" % (decl_src(d), out, want)
    return None


def fam_expected(script):
    if len(script) < 3:
        return [7]
    fam, k = script[1], script[2]
    ls = script[3:]

    def l(i):
        return (ls[i] if i < len(ls) else 0) % 1000

    def e3(a, b, c):
        return [0, a + b + c, a + b, a][k % 4]
    f = fam % 6
    if f == 0: return [0]
    if f == 1: return [l(0) + l(1) + l(2)]
    if f == 2: return [l(0) + l(1)]
    if f == 3: return [e3(l(0), l(1), l(2))]
    if f == 4: return [l(0) + l(1)]
    return [l(0) + l(1) + l(2) + e3(l(3), l(4), l(5)) + (l(7) if l(6) % 2 == 1 else 0) + (l(9) % 4) * l(8)]


def monitor_family(script, out):
    want = fam_expected(script)
    if out != want:
        return "derived byte_len() = %s, the sum over the fields of the active variant is %s" % (out, want)
    return None


# ----------------------------------------------------------------------------- mechanisms
def mechanisms(script, out):
    m = set()
    if not script:
        return m
    if script[0] == 1:
        d = dec_decl(script[1:])
        if d["kind"] == "struct":
            m.add("derive_struct_" + d["fields"][0])
        else:
            m.add("derive_enum" if d["variants"] else "derive_empty_enum")
            for _, f in d["variants"]:
                m.add("derive_variant_" + f[0])
        if d["gen"]:
            m.add("derive_generic")
        return m
    if script[0] == 2:
        if len(script) >= 3:
            m.add(["family_unit", "family_named", "family_unnamed", "family_enum", "family_generic", "family_nested"][script[1] % 6])
            if script[1] % 6 in (3, 5):
                m.add("family_enum_variant_%d" % (script[2] % 4))
        return m
    if script[0] != 0:
        return m
    _, ops = split(script)
    slots = [None] * 4     # (tag, clonable, is_clone)
    held = 0
    failed = [0] * 4
    for o in ops:
        c, s = o[0], o[1] % 4
        cur = slots[s] if c != 10 else None
        if c in (1, 2):
            if c == 2 and cur is None:
                continue
            t = ctag(o[3]); em = eff_mode(t, o[2])
            if cur is not None and cur[0] in LOG_TAGS: m.add("overwrite_drops_old_value")
            m.add(["mode_new", "mode_non_clonable", "mode_non_debugable", "mode_with_len"][em])
            if t in (15, 16): m.add("derived_body")
            if t == 11: m.add("zst_with_drop")
            slots[s] = (t, em != 1, False); failed[s] = 0
        elif c == 12:
            slots[s] = (0, True, False); failed[s] = 0
        elif cur is None and c != 10:
            m.add("op_on_empty_slot")
        elif c in (3, 4, 5):
            t = ctag(o[2])
            kind = {3: "can_cast", 4: "cast", 5: "content"}[c]
            if cur[0] == 0:
                m.add(kind + "_no_body")
            elif cur[0] == t:
                m.add(kind + "_same_tag")
                if c == 4:
                    if failed[s]: m.add("cast_ok_after_failed_casts")
                    if failed[s] >= 2: m.add("cast_ok_after_repeated_failed_casts")
                    if cur[2]: m.add("cast_of_clone")
                    if cur[0] == 11: m.add("cast_zst")
                    held += 1; slots[s] = None
            else:
                m.add(kind + "_other_tag")
                if any(cur[0] in g and t in g for g in LAYOUT_GROUPS): m.add(kind + "_layout_compatible_tag")
                if c == 4:
                    failed[s] += 1
                    if cur[0] in LOG_TAGS: m.add("failed_cast_of_counted_value")
        elif c in (6, 7):
            d = o[2] % 4
            if cur[0] != 0 and not cur[1]:
                m.add("try_clone_non_clonable" if c == 6 else "clone_panics")
            else:
                m.add("clone_counted" if cur[0] in SER_TAGS else "clone")
                if s == d: m.add("clone_onto_itself")
                if slots[d] is not None and slots[d][0] in LOG_TAGS: m.add("overwrite_drops_old_value")
                slots[d] = (cur[0], cur[1], True); failed[d] = 0
        elif c == 8:
            m.add("drop_message")
            slots[s] = None
        elif c == 9:
            m.add("length")
        elif c == 10:
            if held:
                m.add("drop_cast_out_value"); held -= 1
        elif c == 11:
            m.add("observe")
    if held: m.add("cast_out_value_alive_at_end")
    if any(x is not None and x[0] in LOG_TAGS for x in slots): m.add("counted_value_alive_at_end")
    return m


def nontrivial(script, out):
    return len(mechanisms(script, out)) >= 2


# ----------------------------------------------------------------------------- generators
def raw_tag(rng, tag):
    return tag - 1 + NT * rng.choice([0, 0, 0, 1, 5])


def pick_tag(rng):
    r = rng.random()
    if r < 0.30: return rng.choice([1, 2, 3, 4])
    if r < 0.60: return rng.choice([9, 10, 12, 14])
    if r < 0.72: return rng.choice([11, 17])
    if r < 0.84: return rng.choice([15, 16, 13])
    return rng.randint(1, NT)


def other_tag(rng, tag):
    """a tag different from `tag`, preferably one with the same memory layout"""
    if rng.random() < 0.6:
        for g in LAYOUT_GROUPS:
            if tag in g:
                c = [x for x in g if x != tag]
                if c: return rng.choice(c)
    while True:
        t = rng.randint(1, NT)
        if t != tag: return t


def pick_val(rng):
    r = rng.random()
    if r < 0.5: return rng.randint(0, 60)
    if r < 0.8: return rng.randint(0, 1 << 20)
    if r < 0.9: return rng.choice([P32 - 1, P32, P32 + 5, (1 << 24) + 3, 65535, 65536, (1 << 31), (1 << 61) + 12345])
    return rng.randint(0, (1 << 62) - 1)


def gen_body(rng, maxlen=40):
    slots = [None] * 4        # tag or 0 (no content)
    held = 0
    ops = []
    n = rng.randint(1, maxlen)
    while len(ops) < n:
        r = rng.random()
        live = [i for i in range(4) if slots[i] is not None]
        s = rng.choice(live) if live and rng.random() < 0.9 else rng.randint(0, 3)
        s_raw = s + 4 * rng.choice([0, 0, 1])
        if r < 0.22 or not live:
            t = pick_tag(rng)
            ops.append([1, s_raw, rng.choice([0, 0, 0, 1, 2, 3]), raw_tag(rng, t), pick_val(rng), rng.choice([0, 1, 17, 1500, 1 << 40])])
            slots[s] = t
        elif r < 0.25:
            ops.append([12, s_raw]); slots[s] = 0
        elif r < 0.31:
            t = pick_tag(rng)
            ops.append([2, s_raw, rng.choice([0, 0, 1, 2, 3]), raw_tag(rng, t), pick_val(rng), rng.choice([0, 3, 999])])
            if slots[s] is not None: slots[s] = t
        elif r < 0.58:
            cur = slots[s]
            if cur and rng.random() < 0.35:
                # a burst of failed casts / borrows, then (mostly) the right one
                for _ in range(rng.randint(1, 4)):
                    ops.append([rng.choice([4, 4, 5, 3]), s_raw, raw_tag(rng, other_tag(rng, cur))])
                if rng.random() < 0.8:
                    ops.append([4, s_raw, raw_tag(rng, cur)]); slots[s] = None; held += 1
            else:
                same = cur and rng.random() < 0.55
                t = cur if same else (other_tag(rng, cur) if cur else pick_tag(rng))
                c = rng.choice([3, 4, 4, 5, 5])
                ops.append([c, s_raw, raw_tag(rng, t)])
                if c == 4 and same:
                    slots[s] = None; held += 1
        elif r < 0.72:
            d = rng.randint(0, 3) if rng.random() < 0.85 else s
            ops.append([rng.choice([6, 6, 7]), s_raw, d])
            if slots[s] is not None and slots[s] != 12:
                slots[d] = slots[s]
        elif r < 0.80:
            ops.append([8, s_raw]); slots[s] = None
        elif r < 0.85:
            ops.append([9, s_raw])
        elif r < 0.92:
            ops.append([10, rng.randint(0, 5)]); held = max(0, held - 1)
        else:
            ops.append([11, s_raw])
    if rng.random() < 0.4:
        # tear down explicitly, in a random order
        order = [[8, i] for i in range(4)] + [[10, rng.randint(0, 3)] for _ in range(held)]
        rng.shuffle(order)
        ops += order
    return join([0], ops)


def gen_fields(rng):
    k = rng.random()
    if k < 0.45:
        n = rng.randint(0, 5)
        names = rng.sample(range(0, 12), n)
        out = [0, n + 8 * rng.choice([0, 0, 1])]
        for x in names:
            out += [x, rng.randint(0, 7) + 8 * rng.choice([0, 0, 2])]
        return out
    if k < 0.8:
        n = rng.randint(0, 5)
        return [1, n] + [rng.randint(0, 7) for _ in range(n)]
    return [rng.choice([2, 2, 5])]


def gen_derive(rng):
    s = [1, rng.randint(0, 99), rng.randint(0, 11)]
    if rng.random() < 0.45:
        s += [0] + gen_fields(rng)
    else:
        nv = rng.choice([0, 1, 2, 3, 3, 4, 5, 7])
        s += [rng.choice([1, 1, 3]), nv]
        for vn in rng.sample(range(0, 10), nv):
            s += [vn] + gen_fields(rng)
    if rng.random() < 0.1 and len(s) > 3:
        s = s[:rng.randint(2, len(s) - 1)]      # truncated script: decodes to a shorter declaration
    return s


def gen_family(rng):
    return [2, rng.randint(0, 11), rng.randint(0, 7)] + [rng.choice([0, 1, rng.randint(0, 999), rng.randint(0, 5000)])
                                                        for _ in range(rng.randint(0, 11))]


def gen(rng, n):
    for _ in range(n):
        r = rng.random()
        if r < 0.70:
            yield gen_body(rng)
        elif r < 0.88:
            yield gen_derive(rng)
        else:
            yield gen_family(rng)


def exhaustive():
    """All operation words of length <= 4 over three tags (Tok, Tok2 — same layout —, NoClone — not clonable) on a
    message slot 0 with slot 1 as clone target, plus every family type x variant."""
    tags = [8, 9, 11]     # raw tags of Tok (9), Tok2 (10), NoClone (12)
    alphabet = []
    for t in tags:
        alphabet += [[1, 0, 0, t, 3, 0], [2, 0, 0, t, 4, 0], [3, 0, t], [4, 0, t], [5, 0, t], [4, 1, t]]
    alphabet += [[6, 0, 1], [7, 0, 1], [8, 0], [8, 1], [10, 0], [9, 0]]
    for n in range(0, 5):
        for w in itertools.product(alphabet, repeat=n):
            yield join([0], list(w))
    for fam in range(6):
        for k in range(4):
            yield [2, fam, k, 1, 20, 300, 4, 50, 600, 1, 7, 9, 3]
