"""C01 — future event set: time-ordered, exactly-once, cancellable dispatch."""
from props.cq_common import *  # noqa

ID = "C01"; MODEL = "cq"; IMPL = "cq"
COQ_PROP = "Properties/C01.v"; COQ_DIRS = ["Common", "CQueue"]
COQ_MODULE = "CQueue.Model"; RUN_FN = "run"
THEOREMS = ["C01_refines_spec", "C01_refines_spec_at", "C01_indistinguishable_by_any_client", "C01_invariant_reachable", "C01_invariant_bits_reachable", "C01_scan_terminates", "C01_fetch_nondecreasing",
            "C01_exactly_once", "C01_cancelled_never_returned", "C01_len_formula", "C01_cancel_after_fetch_noop"]
QUICK_N = 3000; THOROUGH_N = 300000
CLAIM = dict(
    text="Machine-checked refinement (Coq 8.16, axiom-free): for every bucket count n>=1, width t>=1 and every add/cancel/fetch/len history the calendar-queue model returns exactly what a two-list priority-queue specification returns; the scan terminates; on the specification: non-decreasing fetch order, exactly-once accounting as a multiset equation, cancelled-never-returned, len formula, cancel-after-fetch no-op. The model is tied to des-cqueue by differential runs (extracted model vs real CQueue on the same generated histories) on every invocation, plus an independent monitor of the property on the implementation's outputs. PARTS: `--part heap` covers the other backend, default_impl::FutureEventSet (BinaryHeap + zero queue, des built without the cqueue feature): modelled with the heap's tie choice as an oracle, C01's time-order / exactly-once / len / peek clauses proved for every oracle (C01_heap_*), checked against the real backend through the second harness crate harness_heap with the tie choices replayed from the implementation's own log. The generator includes parameterisations whose year n*t is 2^64 ns or more and histories beyond 2^64 ns.",
    note="Trusted: Coq kernel; extraction (ExtrOcamlBasic only) cross-checked in-Coq by vm_compute on a sample each run; harness/generator quality bounds the tie to the code; linked-list pointer code abstracted to lists (C15); integer overflow of ids/Duration out of scope.",
    technique="Coq refinement proof (forward simulation, invariant J + relation R) + differential correspondence check",
    design="6/C01")
RULE = ("scripts `n t op*` drawn from a structured generator (mostly-valid adds built from tcur+{0,1,t-1,t,k*t,year multiples,"
        " far future, ties}, cancels of live/dead handles, fetches incl. on empty); non-trivial = distinct script (sha1) that"
        " exercises at least two of the targeted mechanisms (tie, year wrap, add at current time, cancel pending, ...)")
TRUSTED = ["intrusive linked list of linked_list.rs is modelled as a Coq list (pointer discipline: C15)",
           "usize/Duration overflow (event ids, t0 += t) is outside the model"]
ASSUMPTIONS = ["timestamps are given in script units of u ns (u up to 2^60) so that histories beyond 2^64 ns are reachable; numbers cross the model boundary as arbitrary-precision decimals; scripts keep scan distances below ~3e5 bucket widths so that both runners finish"]


def gen(rng, n):
    for i in range(n):
        yield gen_far(rng) if i % 10 == 9 else (gen_beyond(rng) if i % 10 == 4 else (gen_hugeyear(rng) if i % 10 == 7 else gen_script(rng)))


def nontrivial(script, out):
    return len(mechanisms(script, out)) >= 2


def monitor(script, out):
    """The statement of C01 evaluated on the implementation's outputs alone.
    Tie order among equal timestamps is C03's subject and is not constrained here."""
    try:
        recs = walk(script, out)
    except ValueError as e:
        return "malformed output: %s" % e
    pending = {}      # add index -> (time, pay)
    handles = []      # add index per successful add
    last = script[2]  # lower bound for adds: start time, then the last fetched time
    nadd = 0
    for o, r in recs:
        if o[0] == 1:
            _, t, p = o
            if t < last:
                if r != [9, 1]:
                    return "add in the past (t=%d < %d) was not rejected" % (t, last)
            else:
                if r != [1]:
                    return "add at t=%d >= last fetched %d failed: %s" % (t, last, r)
                pending[nadd] = (t, p); handles.append(nadd); nadd += 1
        elif o[0] == 2:
            if r != [5]:
                return "cancel misbehaved: %s" % r
            if handles:
                pending.pop(handles[o[1] % len(handles)], None)
        elif o[0] == 3:
            if not pending:
                if r != [9, 2]:
                    return "fetch on empty queue returned %s" % r
                continue
            if r[0] != 2:
                return "fetch with %d pending events failed: %s" % (len(pending), r)
            _, p, t = r
            cand = [k for k, v in pending.items() if v == (t, p)]
            if not cand:
                return "fetch returned (pay=%d,time=%d) which is not a pending event (cancelled, duplicated or altered)" % (p, t)
            mn = min(v[0] for v in pending.values())
            if t != mn:
                return "fetch returned time %d but an event at %d is pending (order violated)" % (t, mn)
            if t < last:
                return "fetch times decreased: %d after %d" % (t, last)
            last = t
            del pending[cand[0]]
        elif o[0] == 4:
            if r != [3, len(pending)]:
                return "len reported %s, expected %d" % (r, len(pending))
        elif o[0] == 5:
            if r != [4, last]:
                return "time() reported %s, expected %d" % (r, last)
        elif o[0] == 6:
            want = [6, 1, min(v[0] for v in pending.values())] if pending else [6, 0]
            if r != want:
                return "peek_time reported %s, expected %s (time of the next fetch)" % (r, want)
    return None
