"""C14 — processing elements bracket every module event in stack order."""
import itertools
from props.proc_common import *  # noqa

ID = "C14"; MODEL = "proc"; IMPL = "proc"
COQ_PROP = "Properties/C14.v"; COQ_DIRS = ["Common", "CQueue", "Proc"]
COQ_MODULE = "Proc.Model"; RUN_FN = "run"
THEOREMS = ["C14_bracket_shape", "C14_start_once_in_order", "C14_incoming_until_consumed",
            "C14_handler_iff_not_consumed", "C14_end_once_reverse_after_handler",
            "C14_caught_panic_bracket_closed", "C14_brackets_do_not_interleave", "C14_emitted_in_program_order",
            "C14_sends_keep_order", "C14_loop_states_reachable", "C14_run_terminates",
            "C14_run_script_over_cqueue", "C14_run_over_cqueue_eq_run_over_spec", "C14_run_over_cqueue_spec",
            "C14_brackets_do_not_interleave_cq", "C14_emitted_in_program_order_cq", "C14_sends_keep_order_cq",
            "C14_loop_states_reachable_cq"]
QUICK_N = 2500; THOROUGH_N = 150000
RULE = ("scripts = (send budget, global default stack, two modules each with Module::stack mode keep/append/replace/prepend, own elements, "
        "handler script with 0..3 start-up stages and optionally a sleeping task or a shutdown/restart trigger, message injections onto a "
        "gate or directly) drawn from a structured generator: stacks of 0..6 elements mixing pass/modify/consume, sends from every hook "
        "(schedule_in to self, send_in to the peer, delays chosen to create equal arrival times), injections with tied times, timer "
        "deadlines tied with messages; 13% of the scripts make a handler callback (handle_message / at_sim_start / at_sim_end) panic under a "
        "catching stereotype; 7% are multi-stage modules whose at_sim_start(k) panics (caught) in the first start-up or in the restart after a "
        "shutdown, k over all stages; 12% of the scripts are bursts: one event (start-up stage, first message or wake-up) sends 24..190 "
        "messages from one to three hooks with delays from {0,1,2,3}*unit in non-monotone order with many ties; non-trivial = distinct script whose run contains a message bracket and hits >= 3 targeted mechanisms")
TRUSTED = ["user code (elements, handler, task) is a script language: pass / modify(+k) / consume, sends from every hook under a shared budget, "
           "one sleeping task per module, or one shutdown trigger, or one callback (handle_message / at_sim_start / at_sim_end) that panics under a "
           "catching stereotype (never two of them: timer slots across a runtime shutdown and task polls after a panic are C05/C09/C13)",
           "the extracted runner threads the two-list event-set specification; C14_run_over_cqueue_eq_run_over_spec proves (through C01's refinement "
           "relation R_add / R_fetch / R_new_at) that the same event loop over the concrete calendar queue, for every n, t >= 1, prints exactly the same, "
           "and the ordering clauses are restated for the calendar queue itself (_cq theorems); the queue carries an index into an event store "
           "where the real queue carries the boxed event",
           "UNCAUGHT panics and panicking elements are outside C14 (events.rs returns before incoming_downstream when the handler panics and the stereotype does not catch: C13)",
           "tokio is modelled as: a task woken by activate() runs once inside the next Harness::exec of its module, after the callback"]
ASSUMPTIONS = ["numbers in scripts stay far below 2^62 (payload additions do not wrap, times fit SimTime)"]
CLAIM = dict(
    text="Machine-checked (Coq 8.16, axiom-free) for the model of processing.rs/events.rs: for every processing stack (any length, any mix of "
         "pass/modify/consume elements, composed from the global default stack and Module::stack in any of the four ways), every event kind "
         "(message, timer wake-up, start-up stage, restart, tear-down) and every script of sends/injections, the call log of each delivered event is "
         "start_0 [in_0] .. start_{n-1} [in_{n-1}] [handler] [task] end_{n-1} .. end_0: every element sees event_start exactly once in stack order; "
         "incoming is offered to element i iff no earlier element consumed, with the payload as modified by elements 0..i-1; the handler runs iff "
         "no element consumes; event_end runs exactly once per element in reverse order after everything else, also when the callback panics and "
         "the stereotype catches it (the module is deactivated, the bracket is still closed); the whole log is a concatenation "
         "of such single-module brackets (no interleaving); the events a bracket adds to the event set are exactly its send calls in log order, "
         "and two sends of one event with arrival times t1 <= t2 are dispatched in that order; every run terminates within the stated fuel; "
         "the same event loop over the concrete calendar queue (any n, t >= 1) prints the same log (composition with C01), so the bracket and "
         "ordering clauses hold for the run over the calendar queue as well. "
         "The model is tied to des by differential runs of scripted ProcessingElements/Modules on the real runtime (global stack via set_stack, "
         "per-module via Module::stack, add_message_onto/handle_message_on, start-up stages, tokio sleep wake-ups, shutdown/restart, caught "
         "handler panics, bursts of up to 190 sends per event, sim end) "
         "against the extracted model on every invocation, plus a monitor that parses the implementation's log with the bracket grammar.",
    note="Trusted: Coq kernel; extraction cross-checked in-Coq on a sample each run; harness/generator quality bounds the tie to the code. "
         "User code is a script language (pass/modify/consume, sends under a budget, one task or one shutdown trigger or one caught-panic site per "
         "module). Uncaught panics and panicking elements are out of scope (the code skips incoming_downstream after an uncaught handler panic; see C13). "
         "After a caught panic the module is inactive: its undelayed sends to the peer from event_end are dropped at its own gate. Module::reset runs "
         "outside any bracket. A message for a shut-down module produces no bracket at all (C09).",
    technique="Coq proof by induction over the stack (closed-form bracket shape), invariants over the event loop, termination measure, forward "
              "simulation calendar queue / specification composed from C01's one-step lemmas; differential correspondence check",
    design="6/C14")

DELAYS = [0, 0, 0, 1, 2, 5, 5, 1000, 2500000, 5000000]
TIMES = [0, 0, 1, 5, 5, 10, 10, 1000, 2500000, 2500000, 5000001]


class IdGen:
    def __init__(self, start):
        self.n = start

    def __call__(self):
        self.n += 1
        return self.n


def gen_emits(rng, ids, p):
    out = []
    while rng.random() < p and len(out) < 3:
        out.append((rng.randint(0, 1), rng.choice(DELAYS), ids()))
    return out


def gen_elem(rng, ids, pe):
    act = rng.choice([PASS, PASS, MODIFY, MODIFY, CONSUME])
    if rng.random() < 0.5:
        act = rng.choice([PASS, MODIFY])
    return {"act": act, "k": rng.choice([1, 2, 10, 100, 1000]) if act == MODIFY else rng.choice([0, 7]),
            "start": gen_emits(rng, ids, pe), "in": gen_emits(rng, ids, pe), "end": gen_emits(rng, ids, pe)}


def pay_through(stack, x):
    for e in stack:
        if e["act"] == CONSUME:
            return None
        if e["act"] == MODIFY:
            x += e["k"]
    return x


def gen_script(rng, panic=False):
    ids = IdGen(1000)
    pe = rng.choice([0.0, 0.1, 0.25, 0.4])
    total = rng.choice([0, 1, 2, 2, 3, 3, 4, 5, 6])
    ng = rng.randint(0, total)
    glob = [gen_elem(rng, ids, pe) for _ in range(ng)]
    inj = []
    for j in range(rng.choice([0, 1, 2, 3, 4, 6, 9])):
        inj.append((rng.randint(0, 1), rng.choice([0, 0, 0, 1]), rng.choice(TIMES), 1 + j))
    inj.sort(key=lambda q: q[2]) if rng.random() < 0.3 else None
    mods = []
    for m in range(2):
        mode = rng.choice([0, 1, 1, 2, 3])
        own = [gen_elem(rng, ids, pe) for _ in range(total - ng if m == 0 else rng.randint(0, 2))] if mode != 0 else []
        if mode == 0 and rng.random() < 0.2:
            own = [gen_elem(rng, ids, pe)]          # ignored by mode 0
        h = {"stages": rng.choice([0, 1, 1, 1, 2, 3]), "xkind": rng.choice([0, 0, 1, 2]), "xa": 0, "xb": 0, "xc": 0,
             "start": gen_emits(rng, ids, max(pe, 0.3)), "msg": gen_emits(rng, ids, pe), "end": gen_emits(rng, ids, pe / 2),
             "task": gen_emits(rng, ids, 0.5)}
        if h["xkind"] == 1:
            h["xa"] = rng.choice([0, 4, 4, 9, 999, 2499999])        # deadline xa+1 ties with TIMES
        elif h["xkind"] == 2:
            stack = {0: glob, 1: glob + own, 2: own, 3: own + glob}[mode]
            cands = [pay_through(stack, q[3]) for q in inj if q[1] == m]
            cands = [c for c in cands if c is not None]
            h["xa"] = rng.choice(cands) if cands and rng.random() < 0.85 else rng.randint(1, 9)
            h["xb"] = rng.randint(0, 1) if rng.random() < 0.8 else 1
            h["xc"] = rng.choice([0, 1, 5, 1000, 2500000])
        mods.append({"mode": mode, "own": own, "h": h})
    if panic:
        # one module (sometimes both) panics in one callback; its stereotype catches
        for m in ([rng.randint(0, 1)] if rng.random() < 0.8 else [0, 1]):
            mod = mods[m]; h = mod["h"]
            stack = {0: glob, 1: glob + mod["own"], 2: mod["own"], 3: mod["own"] + glob}[mod["mode"]]
            site = rng.choice([0, 0, 0, 1, 2])
            h["xkind"] = 3; h["xb"] = site + 3 * rng.randint(0, 2); h["xc"] = 0
            if site == 0:
                if not any(q[1] == m for q in inj):
                    inj.append((rng.randint(0, 1), m, rng.choice(TIMES), 1 + len(inj)))
                    inj.append((rng.randint(0, 1), m, rng.choice(TIMES), 1 + len(inj)))
                cands = [c for c in (pay_through(stack, q[3]) for q in inj if q[1] == m) if c is not None]
                h["xa"] = rng.choice(cands) if cands and rng.random() < 0.9 else rng.randint(1, 9)
            elif site == 1:
                h["stages"] = rng.choice([1, 2, 3, 3])
                h["xa"] = rng.randint(0, h["stages"] - 1)
            else:
                h["xa"] = rng.randint(0, 3)
    budget = rng.choice([0, 1, 2, 5, 10, 20, 40])
    return encode({"budget": budget, "global": glob, "mods": mods, "inj": inj})


def burst_emits(rng, ids, n, unit):
    """n sends whose delays come from {0,1,2,3}*unit in shuffled (non-monotone) order with many ties,
    mostly schedule_in to self, some send_in to the peer"""
    ds = [(j % 4) * unit for j in range(n)]
    rng.shuffle(ds)
    if rng.random() < 0.3:                     # the demo's shape: descending / alternating runs
        ds = [(3 - j % 3) * unit if j < n // 2 else (1 + j % 2) * unit for j in range(n)]
    pp = rng.choice([0.0, 0.2, 0.5])
    return [(1 if rng.random() < pp else 0, d, ids()) for d in ds]


def gen_burst(rng):
    """One event emits far more than 20 messages (sort/merge thresholds of buffer handling lie there):
    one or two hooks of module 0 (element event_start / incoming / event_end, handler callbacks, task)
    carry 24..96 sends each; the budget covers the burst once, so every id is sent exactly once."""
    ids = IdGen(1000)
    unit = rng.choice([1, 1, 1000, 2500000])
    nel = rng.choice([0, 1, 1, 2, 3])
    els = [{"act": rng.choice([PASS, PASS, MODIFY]), "k": 100000, "start": [], "in": [], "end": []} for _ in range(nel)]
    h = {"stages": 1, "xkind": 0, "xa": 0, "xb": 0, "xc": 0, "start": [], "msg": [], "end": [], "task": []}
    # which event bursts: 0 = start-up stage 0, 1 = first delivered message, 2 = timer wake-up
    where = rng.choice([0, 0, 1, 2])
    slots = {0: [("h", "start")] + [("e%d" % j, f) for j in range(nel) for f in ("start", "end")],
             1: [("h", "msg")] + [("e%d" % j, f) for j in range(nel) for f in ("in",)],
             2: [("h", "task")]}[where]
    total = 0
    for who, f in rng.sample(slots, min(len(slots), rng.choice([1, 1, 2, 3]))):
        n = rng.randint(24, 96) if total == 0 else rng.randint(4, 40)
        if total + n > 190:
            break
        em = burst_emits(rng, ids, n, unit)
        total += n
        if who == "h":
            h[f] = em
        else:
            els[int(who[1:])][f] = em
    inj = []
    if where == 1:
        inj = [(rng.randint(0, 1), 0, rng.choice([0, 1, 5, unit]), 1)]
    if where == 2:
        h["xkind"] = 1; h["xa"] = rng.choice([0, 4, unit])
    if rng.random() < 0.3:
        inj.append((rng.randint(0, 1), rng.randint(0, 1), rng.choice([0, 1, 2 * unit, 3 * unit]), 2))
    split_at = rng.randint(0, nel)
    mode = rng.choice([1, 3]) if 0 < split_at < nel else rng.choice([0, 1]) if split_at == nel else rng.choice([2, 3])
    if mode == 3:
        own, glob = els[:nel - split_at], els[nel - split_at:]
    elif mode == 2:
        own, glob = els, []
    else:
        glob, own = els[:split_at], els[split_at:]
    hb = {"stages": rng.choice([0, 1]), "xkind": 0, "msg": gen_emits(rng, ids, 0.2)}
    peer_own = [{"act": PASS, "k": 0, "start": [], "in": [], "end": []}] if rng.random() < 0.5 else []
    return encode({"budget": total + rng.randint(0, 6), "global": glob,
                   "mods": [{"mode": mode, "own": own, "h": h}, {"mode": 2, "own": peer_own, "h": hb}], "inj": inj})


def stage_panic_script(stages, k, restart, nel, ids, unit=1, delay=0, consume_at=None, two=False, emits=False):
    """module 0 has `stages` start-up stages and `nel` elements; its at_sim_start(k) panics (caught):
    restart=False: in the first start-up (the sweep must skip stages k+1..);
    restart=True : only from t=1 on, i.e. in the restart that follows its shutdown (module_restart must stop)."""
    els = [{"act": CONSUME if consume_at == j else PASS, "k": 0, "start": [(0, unit, ids())] if emits and j == 0 else [], "in": [],
            "end": [(0, unit, ids())] if emits and j == 0 else []} for j in range(nel)]
    h = {"stages": stages, "start": [(0, 2 * unit, ids())] if emits else [], "msg": [], "end": [], "task": [], "xa": 0, "xb": 0, "xc": 0}
    if restart:
        h.update({"xkind": 2, "xa": 7, "xb": 1, "xc": delay, "pf": 1, "pst": k, "psince": 1})
        inj = [(0, 0, 2 * unit, 7), (1, 0, 2 * unit + delay, 8), (0, 0, 5 * unit + delay, 9)]
    else:
        h.update({"xkind": 3, "xa": k, "xb": 1, "xc": 0})
        inj = [(0, 0, 2 * unit, 7), (1, 0, 3 * unit, 8)]
    hb = {"stages": stages if two else 1, "xkind": 0}
    if two:     # the other module panics in the same way one stage later / earlier
        hb.update({"xkind": 3, "xa": (k + 1) % stages, "xb": 1, "xc": 0})
    return encode({"budget": 12 if emits else 0, "global": els[:nel // 2],
                   "mods": [{"mode": 1, "own": els[nel // 2:], "h": h}, {"mode": 0, "own": [], "h": hb}], "inj": inj})


def gen_stage_panic(rng):
    ids = IdGen(1000)
    stages = rng.choice([2, 2, 3, 3, 3, 1])
    return stage_panic_script(stages, rng.randint(0, stages - 1), rng.random() < 0.7, rng.choice([1, 1, 2, 3, 4]), ids,
                              unit=rng.choice([1, 1, 1000, 2500000]), delay=rng.choice([0, 0, 1, 5, 1000]),
                              consume_at=None, two=rng.random() < 0.3, emits=rng.random() < 0.4)


def gen(rng, n):
    for _ in range(n):
        r = rng.random()
        yield (gen_burst(rng) if r < 0.12 else gen_script(rng, panic=True) if r < 0.25 else gen_stage_panic(rng) if r < 0.32
               else gen_script(rng))


def exhaustive():
    """all pass/modify/consume patterns for stacks of <= 4 elements x every way of supplying them x all event kinds"""
    for n in range(0, 5):
        for pat in itertools.product([PASS, MODIFY, CONSUME], repeat=n):
            els = [{"act": a, "k": 10 ** i, "start": [], "in": [(0, 3, 900 + i)] if i == 0 else [], "end": []} for i, a in enumerate(pat)]
            for split_at, mode in [(n, 0), (0, 2), (n // 2, 1), (n - n // 2, 3)]:
                if mode == 3:
                    glob, own = els[n - split_at:], els[:n - split_at]
                else:
                    glob, own = els[:split_at], els[split_at:]
                for xkind in (1, 2):
                    h = {"stages": 2, "xkind": xkind, "xa": 4 if xkind == 1 else (pay_through(els, 2) or 0), "xb": 1, "xc": 3,
                         "start": [(0, 1, 800)], "msg": [(1, 0, 801), (0, 2, 802), (0, 2, 803)], "end": [(0, 0, 804)], "task": [(0, 1, 805)]}
                    hb = {"stages": 1, "xkind": 0, "msg": [(1, 1, 810)]}
                    yield encode({"budget": 12, "global": glob,
                                  "mods": [{"mode": mode, "own": own, "h": h}, {"mode": 2, "own": [], "h": hb}],
                                  "inj": [(0, 0, 5, 1), (1, 0, 5, 2), (0, 1, 5, 3), (0, 0, 7, 4), (1, 0, 20, 5)]})
    # a caught panic in stage k of the first start-up / of a restart, k over all stages
    for stages in (1, 2, 3):
        for k in range(stages):
            for restart in (False, True):
                for nel in (0, 1, 2):
                    for delay in (0, 3):
                        for two in (False, True):
                            for emits in (False, True):
                                yield stage_panic_script(stages, k, restart, nel, IdGen(1000), delay=delay, two=two, emits=emits)


# ----------------------------------------------------------------------------- the property on the implementation's log
class Bad(Exception):
    pass


def parse_brackets(d, es):
    """Parse the flat call log with the bracket grammar of C14.  Returns the list of brackets
    (m, t, kind, first_payload, emits[(who, hook, delay, id)], flags) or raises Bad."""
    stacks = [stack_of(d, 0), stack_of(d, 1)]
    i = 0
    out = []
    N = len(es)

    def sends(m, who, br):
        nonlocal i
        while i < N and es[i][2] in (H_SCHED, H_SEND, H_SHUT, H_PANIC):
            if es[i][0] != m:
                raise Bad("entry %d: a call of module %d inside the bracket of module %d (brackets interleave)" % (i, es[i][0], m))
            if es[i][1] != who:
                raise Bad("entry %d: send attributed to %d while %d is running" % (i, es[i][1], who))
            if es[i][2] == H_PANIC:
                br["panic"] = True
            elif es[i][2] != H_SHUT:
                br["emits"].append((es[i][2], es[i][3], es[i][4]))
            i += 1

    while i < N:
        m, who, hook, a, b = es[i]
        if m not in (0, 1):
            raise Bad("entry %d: unknown module %d" % (i, m))
        if hook == H_RESET:
            i += 1
            continue
        st = stacks[m]
        n = len(st)
        br = {"m": m, "emits": [], "t": None, "first": None, "handler": None, "task": False, "at": i, "panic": False}
        alive = None          # None: no message in this event; else current payload or "consumed"
        for pos in range(n):
            if i >= N or es[i][:3] != (m, 2 + pos, H_START):
                raise Bad("entry %d: expected event_start of element %d of module %d (each element exactly once, in stack order), got %s"
                          % (i, pos, m, es[i] if i < N else "end of log"))
            if pos == 0:
                br["t"] = es[i][3]
            i += 1
            sends(m, 2 + pos, br)
            has_in = i < N and es[i][:3] == (m, 2 + pos, H_IN)
            if pos == 0:
                alive = es[i][3] if has_in else None
                br["first"] = alive
            if alive is None or alive == "consumed":
                if has_in:
                    raise Bad("entry %d: incoming offered to element %d of module %d although %s" %
                              (i, pos, m, "an earlier element consumed the message" if alive == "consumed" else "the event carries no message"))
            else:
                if not has_in:
                    raise Bad("entry %d: element %d of module %d was not offered the message although no earlier element consumed it" % (i, pos, m))
                if es[i][3] != alive:
                    raise Bad("entry %d: element %d of module %d saw payload %d, expected %d (elements are passed in stack order)" % (i, pos, m, es[i][3], alive))
                i += 1
                sends(m, 2 + pos, br)
                e = st[pos]
                alive = "consumed" if e["act"] == CONSUME else alive + (e["k"] if e["act"] == MODIFY else 0)
        # the callback
        if i < N and es[i][0] == m and es[i][1] == 0 and es[i][2] in (H_HANDLE, H_SIMSTART, H_SIMEND):
            hk = es[i][2]
            if hk == H_HANDLE:
                if n > 0 and (alive is None or alive == "consumed"):
                    raise Bad("entry %d: handle_message of module %d ran although %s" %
                              (i, m, "an element consumed the message" if alive == "consumed" else "the event carries no message"))
                if n > 0 and es[i][3] != alive:
                    raise Bad("entry %d: handler of module %d saw payload %d, expected %d" % (i, m, es[i][3], alive))
                if n == 0:
                    br["first"] = es[i][3]
                br["t"] = es[i][4]
            else:
                if alive is not None:
                    raise Bad("entry %d: a message event of module %d ended in callback %d" % (i, m, hk))
                br["t"] = es[i][4] if hk == H_SIMSTART else es[i][3]
            br["handler"] = hk
            i += 1
            sends(m, 0, br)
        elif alive is not None and alive != "consumed":
            raise Bad("entry %d: no element consumed the message of module %d but handle_message did not run" % (i, m))
        if i < N and es[i][:3] == (m, 1, H_TASK):
            br["task"] = True
            if br["t"] is None:
                br["t"] = es[i][3]
            i += 1
            sends(m, 1, br)
        if n == 0 and br["handler"] is None and not br["task"]:
            raise Bad("entry %d: stray entry %s" % (i, es[i]))
        for pos in reversed(range(n)):
            if i >= N or es[i][:3] != (m, 2 + pos, H_END):
                raise Bad("entry %d: expected event_end of element %d of module %d (exactly once, reverse stack order, after the handler), got %s"
                          % (i, pos, m, es[i] if i < N else "end of log"))
            i += 1
            sends(m, 2 + pos, br)
        out.append(br)
    return out


def monitor(script, out):
    """C14 evaluated on the implementation's call log alone (the script says which stack each module has)."""
    try:
        es = entries(out)
        d = decode(script)
        brs = parse_brackets(d, es)
    except (ValueError, Bad) as e:
        return str(e)
    # brackets exist exactly around the events a module gets: none once a caught panic made it inert (tear-down
    # excepted), none around nothing (a bracket without callback needs a sleeping task's wake-up)
    inert = set()
    for br in brs:
        m = br["m"]
        if m in inert and br["handler"] != H_SIMEND:
            return ("entry %d: module %d was deactivated by a caught panic, yet its processing elements bracket another event (%s)"
                    % (br["at"], m, HOOK.get(br["handler"], "no callback")))
        if len(stack_of(d, m)) > 0 and br["handler"] is None and not br["task"] and br["first"] is None and d["mods"][m]["h"]["xkind"] != 1:
            return "entry %d: the processing elements of module %d bracket an event that does not exist (no message, no callback, no timer)" % (br["at"], m)
        if br["panic"]:
            inert.add(m)
    # messages sent during one event for the same module and arrival instant are delivered in program order
    src = {}
    for k, dst, t, x in d["inj"]:
        src[(dst, t, x)] = src.get((dst, t, x), 0) + 1
    for br in brs:
        for hk, delay, x in br["emits"]:
            key = ((1 - br["m"]) if hk == H_SEND else br["m"], (br["t"] or 0) + delay, x)
            src[key] = src.get(key, 0) + 1
    deliveries = {}
    for j, br in enumerate(brs):
        if br["first"] is not None:
            deliveries.setdefault((br["m"], br["t"], br["first"]), []).append(j)
    for br in brs:
        if br["t"] is None or br["handler"] == H_SIMEND:
            continue
        seq = [((1 - br["m"]) if hk == H_SEND else br["m"], br["t"] + delay, x) for hk, delay, x in br["emits"]]
        for a in range(len(seq)):
            for b in range(a + 1, len(seq)):
                ka, kb = seq[a], seq[b]
                if ka[:2] == kb[:2] and ka != kb and src[ka] == 1 and src[kb] == 1 and ka in deliveries and kb in deliveries:
                    if deliveries[ka][0] > deliveries[kb][0]:
                        return ("module %d sent id %d before id %d (same event, same destination %d, same arrival time %d) but id %d was delivered first"
                                % (br["m"], ka[2], kb[2], ka[0], ka[1], kb[2]))
    return None


def mechanisms(script, out):
    ms = set()
    try:
        es = entries(out)
        d = decode(script)
        brs = parse_brackets(d, es)
    except (ValueError, Bad):
        return ms
    stacks = [stack_of(d, 0), stack_of(d, 1)]
    if d["global"]:
        ms.add("global_default_stack")
    for m in (0, 1):
        if d["mods"][m]["mode"] and d["mods"][m]["own"]:
            ms.add("module_stack_mode%d" % d["mods"][m]["mode"])
    seen_reset = set()
    for e in es:
        if e[2] == H_RESET:
            ms.add("reset_outside_bracket"); seen_reset.add(e[0])
        if e[2] == H_SHUT:
            ms.add("shutdown_requested")
    times = {}
    for br in brs:
        st = stacks[br["m"]]
        n = len(st)
        if n == 0:
            ms.add("empty_stack")
        if n >= 4:
            ms.add("stack_ge_4")
        if br["first"] is not None:
            ms.add("message_bracket")
            cons = [p for p, e in enumerate(st) if e["act"] == CONSUME]
            if cons:
                c = cons[0]
                ms.add("consumed_by_first" if c == 0 else "consumed_by_last" if c == n - 1 else "consumed_in_middle")
                if c < n - 1:
                    ms.add("start_after_consume")
            elif n:
                ms.add("passed_to_handler")
                if any(e["act"] == MODIFY for e in st):
                    ms.add("modified_payload")
        elif br["handler"] == H_SIMSTART:
            ms.add("restart_bracket" if br["m"] in seen_reset and (br["t"] or 0) >= 0 and any(
                x[2] == H_RESET and x[0] == br["m"] for x in es[:br["at"]]) else "sim_start_bracket")
        elif br["handler"] == H_SIMEND:
            ms.add("sim_end_bracket")
        elif br["handler"] is None and n > 0:
            ms.add("wakeup_bracket")
        if br["panic"]:
            # the parse succeeded, so every element got its event_end after the panicking callback
            ms.add("caught_handler_panic_bracket_closed")
            ms.add({H_HANDLE: "caught_panic_in_handle_message", H_SIMSTART: "caught_panic_in_at_sim_start",
                    H_SIMEND: "caught_panic_in_at_sim_end"}.get(br["handler"], "caught_panic_elsewhere"))
            if br["emits"]:
                ms.add("sends_before_caught_panic")
            if br["handler"] == H_SIMSTART:
                stage = es[[j for j in range(br["at"], len(es)) if es[j][2] == H_SIMSTART][0]][3]
                if stage + 1 < d["mods"][br["m"]]["h"]["stages"]:
                    # the monitor passed, so no bracket of a later stage followed
                    ms.add("restart_stage_panics_caught_remaining_stages_skipped" if any(
                        x[2] == H_RESET and x[0] == br["m"] for x in es[:br["at"]]) else "first_start_stage_panics_caught_remaining_stages_skipped")
        if br["task"]:
            ms.add("task_in_wakeup_bracket" if br["handler"] is None else "task_in_other_bracket")
        if br["emits"]:
            ms.add("sends_in_bracket")
            if len(br["emits"]) >= 2:
                ms.add("two_or_more_sends_in_bracket")
            if any(h == H_SEND and dl == 0 for h, dl, _ in br["emits"]):
                ms.add("inline_peer_send")
            if any(h == H_SEND and dl > 0 for h, dl, _ in br["emits"]):
                ms.add("delayed_peer_send")
            if len(br["emits"]) > 20:
                ms.add("burst_over_20")
                keys = [((1 - br["m"]) if h == H_SEND else br["m"], dl) for h, dl, _ in br["emits"]]
                dls = [dl for _, dl in keys]
                if dls != sorted(dls) and len(set(keys)) < len(keys):
                    ms.add("burst_over_20_with_ties")
        if br["t"] is not None:
            times.setdefault(br["t"], set()).add(br["m"])
    for j in range(len(es) - 1):
        if es[j][2] == H_END and es[j + 1][2] in (H_SCHED, H_SEND):
            ms.add("send_from_event_end")
        if es[j][2] == H_START and es[j + 1][2] in (H_SCHED, H_SEND):
            ms.add("send_from_event_start")
    if any(len(v) == 2 and t > 0 for t, v in times.items()):
        ms.add("both_modules_same_instant")
    delivered = sum(1 for br in brs if br["first"] is not None)
    if d["inj"] and delivered < len(d["inj"]):
        ms.add("message_not_delivered")
    return ms


def nontrivial(script, out):
    ms = mechanisms(script, out)
    return "message_bracket" in ms and len(ms) >= 3
