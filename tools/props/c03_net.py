"""C03, net part — a handler's buffered sends reach the event set in emission order (buf_process), so messages
scheduled one after the other for the same instant are never reordered.  Reuses the model, runner and generator of
C14 (coq/Proc, harness/src/bin/proc.rs); only the ordering clause is this property's business."""
from props import c14
from props.c14 import *  # noqa  (gen, exhaustive, pretty, split, join, mechanisms, nontrivial, decode, entries, ...)

ID = "C03"; PART = "net"; MODEL = "proc"; IMPL = "proc"
COQ_PROP = "Properties/C14.v"; COQ_DIRS = ["Common", "CQueue", "Proc"]
COQ_MODULE = "Proc.Model"; RUN_FN = "run"
THEOREMS = ["C14_emitted_in_program_order", "C14_sends_keep_order", "C14_emitted_in_program_order_cq", "C14_sends_keep_order_cq", "C14_run_over_cqueue_eq_run_over_spec"]
QUICK_N = 1200; THOROUGH_N = 60000
RULE = ("C14's scripted modules/elements, with the burst stream (one event emitting 24-96 sends with delays from"
        " {0,1,2,3}*unit in non-monotone order) weighted up; non-trivial = C14's rule")
TRUSTED = ["net-layer flush order is modelled in coq/Proc (C14_emitted_in_program_order, C14_sends_keep_order)"]
ASSUMPTIONS = []
CLAIM = None


def gen(rng, n):
    for i in range(n):
        yield c14.gen_burst(rng) if i % 2 == 0 else c14.gen_script(rng)


def monitor(script, out):
    """Only the ordering clause of c14.monitor: equal-arrival, equal-destination sends of one event are delivered in
    program order.  Bracket-shape problems are C14's subject and are not reported here."""
    msg = c14.monitor(script, out)
    if msg is not None and "was delivered first" in msg:
        return msg
    return None
