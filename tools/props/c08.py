"""C08 — a message sent into a gate chain reaches the module at the far end.

Script (see coq/Gate/Model.v `run`, harness/src/bin/gates.rs):
  nmod L (owner size){L/2} op*
  op = 1 a b l  a.connect(b, channel)   l = 0: no channel, else latency l-1 ns (bitrate 0, jitter 0)
     | 9 a b l br  as 1 with bitrate br bit/s (read as 0 unless 576e9/br is a whole number of ns; messages are 72 bytes)
     | 2 g kind | 3 g next_gate | 4 g path_end | 5 g path_iter
     | 6 g t d  at time t the owner of gate g calls send_at(msg, g, t+d)
     | 7 g g' d forwarding rule: the module receiving a message through gate g sends THE RECEIVED object on g' after d ns
     | 8 g t d b  as 6, the message may be relayed min(b,8) times
     | 10 c m sz  at sim start module c calls m.spawner().gate(name, sz): sz new gates (next ids) owned by module m
     | 11 c a b l br  at sim start module c calls a.connect(b, channel)
     | 12 a b l br q / 13 c a b l br q  as 9 / 11 with drop behaviour q: 0 Drop, 1 Queue(None), q >= 2 Queue(Some(q-2))
     | 14 m  m != 0: arrival times are reported as 0 (messages wait in channel queues; how long is C07's subject)
Build-time operations (1-5, 9) run first, in order, then the run-time ones (6-8, 10, 11); records come out in that order.
"""
import itertools

ID = "C08"; MODEL = "gates"; IMPL = "gates"
COQ_PROP = "Properties/C08.v"; COQ_DIRS = ["Common", "Gate"]
COQ_MODULE = "Gate.Model"; RUN_FN = "run"
THEOREMS = ["C08_invariant_reachable", "C08_sym", "C08_fill_order", "C08_degree_le_2", "C08_slots_monotone", "C08_third_peer_rejected",
            "C08_connect_symmetric", "C08_connect_idempotent", "C08_walk_from_endpoint_terminates",
            "C08_mirror", "C08_delivered_once_to_far_owner", "C08_both_directions", "C08_relay_header_per_leg",
            "C08_script_deliveries", "C08_path_delay_sum", "C08_spawned_gates_owner",
            "C08_queue_preserves_connection", "C08_queued_message_resumes_on_offered_connection"]
QUICK_N = 6000; THOROUGH_N = 150000
CLAIM = dict(
    text="Machine-checked (Coq 8.16, axiom-free) for EVERY gate declaration and EVERY sequence of connect calls (any order, orientation, channels, duplicates, rejected calls) on a function-by-function model of gate.rs connect/next_hop/PathIter, events.rs handle_with_sink and ctx.rs buf_send_at: the slot tables stay symmetric (g.slot i = (h,j) implies h.slot j = (g,i), same channel), slot 1 is used only after slot 0, a gate has at most two distinct peers, established connections are never overwritten and a third peer is rejected in either orientation; a.connect(b) and b.connect(a) yield the same table and a repeated connect is a no-op; the walk from any non-transit gate terminates within fuel 2*|gates|+1 (injective step + no predecessor of the start state, pigeonhole); path_iter from the far end is the exact mirror image (gates and channels reversed); a message sent on a non-transit gate yields exactly one delivery, to the owner of the far-end gate, at send time + sum over the hops of (transmission time of the message at the hop's bitrate + latency), with header sender/receiver/last_gate as specified (for ANY header the message object carried before: the sender is the module that performed this send), and the same total delay in the opposite direction; gates created at run time through Spawner::gate belong to the module whose spawner was used, whoever executed the call and whatever runs afterwards, and all statements cover them; a message that waits in the queue of a busy Queue-policy channel resumes on exactly the connection it was offered on (Buffer enqueue/dequeue keep (target gate, slot index) in FIFO order, the channel handle is restored) and its routing does not depend on when it continues; for a relayed message object (echoed back or forwarded onto another chain by the receiving module, up to a hop budget) every leg's header names that leg's sender and receiver. The model is tied to the des crate by differential runs (extracted model vs real Sim/Gate/Channel/send_at on generated scripts: chains of 1..12 hops over 1..6 modules and clusters, all permutations x orientations for <= 5 hops in the thorough tier, hops with latency and/or bitrate, immediate/delayed sends, both directions also simultaneously, forwarding rules that re-send the received Message object, Queue(None)/Queue(limit) hops with same-instant bursts so that messages wait in queues on first/middle/last hops (arrival times not compared there, routing is), gates created and connected at run time inside at_sim_start through Spawner::gate by the module itself / its parent / a third module) plus an independent monitor that states C08 on the implementation's output alone.",
    note="Trusted: Coq kernel; extraction (ExtrOcamlBasic only) cross-checked in-Coq by vm_compute on a sample each run; harness/generator quality bounds the tie to the code. Channels have jitter 0 and bitrates whose transmission time for the 72-byte message is a whole number of ns; the per-hop delay is that of an idle channel: each direction of a hop has its own Channel instance (checked: simultaneous opposite-direction traffic), and the statement covers runs where the traffic of one direction of a hop does not overlap in time (a message meeting a busy channel is C07's subject); inactive owners are C09. Observed and modelled, outside the property text: the full-gate assert of connect fires while both gate mutexes are held, so a caught third-peer panic poisons both gates (every later kind/path_iter/connect on them panics, and connect(x, poisoned) poisons x as well).",
    technique="Coq invariant proof over all connect sequences (Sym/Fill/NoSelf/Distinct), NoDup pigeonhole termination, path reversal lemma + differential correspondence check",
    design="6/C08")
RULE = ("scripts declare 1..6 modules and gate groups (single gates and clusters), then issue the connect calls of 1..4 chains"
        " of 1..12 hops in a random permutation and random orientation with channels (latency-only) on random hops, duplicate"
        " connects, occasional ring closures, and a malformed stream (self-connects, third-peer connects, unknown gates);"
        " kind/next_gate/path_end/path_iter are queried between and after the connects, messages are sent from both ends of"
        " every chain (from at_sim_start, immediately and delayed); in ~30 % of the scripts modules carry forwarding rules"
        " (the received Message object is echoed back or forwarded onto another chain, immediately or delayed, up to a hop"
        " budget) and every leg's header is checked; ~20 % of the scripts create gates at run time"
        " through Spawner::gate (by the module itself, by a parent on its child, through a held ModuleRef) and connect them"
        " inside at_sim_start; ~12 % of the scripts put Queue(None)/Queue(limit) channels"
        " on first/middle/last hops and send bursts in one instant so that messages wait in those queues (times not reported"
        " there, routing is); in ~30 % of the scripts hops have a bitrate (idle-hop delay = tx(72 bytes)"
        " + latency, tx an exact number of ns, latency 0 included) with simultaneous sends from both ends and the traffic of"
        " one direction spaced so that no message meets a busy channel; non-trivial = distinct script that hits at least three"
        " targeted mechanisms and delivers a message over, or enumerates, a path of at least two hops")
TRUSTED = ["channels have jitter 0 and bitrates for which tx(72 bytes) is a whole number of ns; per-hop delay = tx + latency of an IDLE channel: scripts keep the traffic of one direction of a hop non-overlapping (busy/drop/queueing channels are C07's subject); the two directions of a hop overlap freely (one Channel instance per direction)",
           "all modules stay active (no shutdown during the run; the inactive-owner drop in handle_with_sink is C09's subject)",
           "event-queue interleaving of several messages is not modelled: with never-busy channels messages do not interact",
           "std::sync::Mutex poisoning of gate locks is modelled only as far as it is observable through catch_unwind"]
ASSUMPTIONS = ["times and latencies fit in 62 bits; at most 65535 sends per script (MessageId is u16)"]

LATS = [0, 1, 7, 1000, 2500000, 1000000000]
MSG_BITS = 576            # every message: 64 bytes header + u64 content
# bitrates for which 576e9/bitrate is a whole number of ns (so Duration::from_secs_f64(len*8/bitrate) is exact)
BITRATES = [576 * 10 ** 9, 288 * 10 ** 9, 72 * 10 ** 9, 10 ** 9, 576 * 10 ** 6, 576000, 576, 9 * 10 ** 9, 8]


def norm_br(br):
    return br if br and (MSG_BITS * 10 ** 9) % br == 0 else 0


def tx_ns(br):
    return MSG_BITS * 10 ** 9 // br if br else 0


def hop_delay(ch):
    """delay of an idle hop: transmission time + latency; ch = None | (latency, bitrate)"""
    return 0 if ch is None else tx_ns(ch[1]) + ch[0]


def chan_of(o):
    """channel argument of a connect op"""
    if o[3] == 0:
        return None
    return (o[3] - 1, norm_br(o[4]) if o[0] == 9 else 0, o[6] if len(o) > 6 else 0)


def queue_cap(ch):
    """bytes a busy channel can buffer: 0 (Drop), None (unbounded) or the limit"""
    return 0 if ch[2] == 0 else None if ch[2] == 1 else ch[2] - 2


# ----------------------------------------------------------------------------- structure
def split(script):
    if not script:
        return [], []
    L = script[1] if len(script) > 1 else 0
    hdr = script[:2 + L]
    ops, i = [], 2 + L
    while i < len(script):
        k = {1: 4, 2: 2, 3: 2, 4: 2, 5: 2, 6: 4, 7: 4, 8: 5, 9: 5, 10: 4, 11: 6, 12: 6, 13: 7, 14: 2}.get(script[i])
        if k is None or i + k > len(script):
            break
        ops.append(script[i:i + k]); i += k
    return hdr, ops


def join(hdr, ops):
    out = list(hdr)
    for o in ops:
        out += o
    return out


def owners_of(hdr):
    if not hdr:
        return []
    nm = max(1, min(8, hdr[0]))
    grp = hdr[2:]
    own = []
    for j in range(0, len(grp) - 1, 2):
        own += [grp[j] % nm] * max(1, min(6, grp[j + 1]))
    return own


def nmod_of(hdr):
    return max(1, min(8, hdr[0])) if hdr else 1


def phased(hdr, ops):
    """operations in execution order (build time first), run-time connects rewritten to the connect form
    [9 a b l br] with the executing module appended, spawns as [10, caller, target, size]"""
    nm = nmod_of(hdr)
    p1 = [[9, o[1], o[2], o[3], o[4], -1, o[5]] if o[0] == 12 else o for o in ops if o[0] in (1, 2, 3, 4, 5, 9, 12)]
    p2 = []
    for o in ops:
        if o[0] in (6, 7, 8, 14):
            p2.append(o)
        elif o[0] == 13:
            p2.append([9, o[2], o[3], o[4], o[5], o[1] % nm, o[6]])
        elif o[0] == 10:
            p2.append([10, o[1] % nm, o[2] % nm, max(1, min(6, o[3]))])
        elif o[0] == 11:
            p2.append([9, o[2], o[3], o[4], o[5], o[1] % nm, 0])
    return p1 + p2


def final_count(hdr, ops):
    return len(owners_of(hdr)) + sum(max(1, min(6, o[3])) for o in ops if o[0] == 10)


def clusters_of(hdr):
    """gate index -> True when the gate belongs to a cluster (size > 1)"""
    grp = hdr[2:]
    cl = []
    for j in range(0, len(grp) - 1, 2):
        sz = max(1, min(6, grp[j + 1]))
        cl += [sz > 1] * sz
    return cl


def pretty(script):
    hdr, ops = split(script)
    own = owners_of(hdr)
    s = "modules=%d gates(owner)=[%s]: " % (max(1, min(8, hdr[0])) if hdr else 0,
                                            ",".join("g%d@m%d" % (i, o) for i, o in enumerate(own)))
    parts = []
    for o in ops:
        if o[0] in (1, 9):
            br = norm_br(o[4]) if o[0] == 9 else 0
            parts.append("g%d.connect(g%d%s)" % (o[1], o[2], "" if o[3] == 0 else ",lat=%dns%s" % (
                o[3] - 1, ",bitrate=%d(tx=%dns)" % (br, tx_ns(br)) if br else "")))
        elif o[0] == 6:
            parts.append("send(g%d,at=%d,delay=%d)" % (o[1], o[2], o[3]))
        elif o[0] == 8:
            parts.append("send(g%d,at=%d,delay=%d,relays<=%d)" % (o[1], o[2], o[3], min(o[4], 8)))
        elif o[0] == 7:
            parts.append("relay(via g%d -> resend on g%d after %d)" % (o[1], o[2], o[3]))
        elif o[0] == 10:
            parts.append("at start m%d: m%d.spawner().gate(size=%d)" % (o[1] % nmod_of(hdr), o[2] % nmod_of(hdr), max(1, min(6, o[3]))))
        elif o[0] == 14:
            parts.append("report-no-times" if o[1] else "report-times")
        elif o[0] == 12:
            br = norm_br(o[4])
            parts.append("g%d.connect(g%d%s)" % (o[1], o[2], "" if o[3] == 0 else ",lat=%dns,bitrate=%d(tx=%dns),%s" % (
                o[3] - 1, br, tx_ns(br), ["Drop", "Queue(None)"][o[5]] if o[5] < 2 else "Queue(%d)" % (o[5] - 2))))
        elif o[0] == 13:
            br = norm_br(o[5])
            parts.append("at start m%d: g%d.connect(g%d%s)" % (o[1] % nmod_of(hdr), o[2], o[3], "" if o[4] == 0 else ",lat=%dns,bitrate=%d(tx=%dns),%s" % (
                o[4] - 1, br, tx_ns(br), ["Drop", "Queue(None)"][o[6]] if o[6] < 2 else "Queue(%d)" % (o[6] - 2))))
        elif o[0] == 11:
            br = norm_br(o[5])
            parts.append("at start m%d: g%d.connect(g%d%s)" % (o[1] % nmod_of(hdr), o[2], o[3], "" if o[4] == 0 else ",lat=%dns%s" % (
                o[4] - 1, ",bitrate=%d(tx=%dns)" % (br, tx_ns(br)) if br else "")))
        else:
            parts.append("%s(g%d)" % ({2: "kind", 3: "next_gate", 4: "path_end", 5: "path_iter"}[o[0]], o[1]))
    return s + "; ".join(parts)


# ----------------------------------------------------------------------------- abstract reference (the property's own terms)
class Graph:
    """Undirected gate graph as the property describes it: at most two peers per gate,
    an edge carries the channel of the connect call that created it.  No slots."""
    def __init__(self, n):
        self.adj = [[] for _ in range(n)]   # list of (peer, channel); channel = None | (latency, bitrate)

    def grow(self, k):
        self.adj += [[] for _ in range(k)]

    def peers(self, g):
        return [p for p, _ in self.adj[g]]

    def deg(self, g):
        return len(self.adj[g])

    def add(self, a, b, lat):
        self.adj[a].append((b, lat)); self.adj[b].append((a, lat))

    def path(self, g):
        """hops [(gate, channel)] from a non-transit gate g to the far end"""
        out, prev, cur = [], None, g
        seen = {g}
        while True:
            nxt = [(p, l) for p, l in self.adj[cur] if p != prev]
            if not nxt:
                return out
            p, l = nxt[0]
            if p in seen:
                return None     # ring: cannot happen from a gate with < 2 peers
            out.append((p, l)); seen.add(p)
            prev, cur = cur, p

    def component(self, g):
        seen, todo = {g}, [g]
        while todo:
            x = todo.pop()
            for p in self.peers(x):
                if p not in seen:
                    seen.add(p); todo.append(p)
        return seen


def records(script, out):
    """Align the per-operation records, return (list of (op, rec), tail)."""
    hdr, ops = split(script)
    i, recs = 0, []
    for o in phased(hdr, ops):
        if i >= len(out):
            raise ValueError("output too short")
        tag = out[i]
        if tag == 5:
            if i + 1 >= len(out):
                raise ValueError("truncated path_iter record")
            if out[i + 1] == 0:
                ln = 2
            else:
                if i + 2 >= len(out):
                    raise ValueError("truncated path_iter record")
                ln = 3 + 3 * out[i + 2]
        else:
            ln = {1: 1, 2: 2, 3: 2, 4: 2, 6: 1, 7: 1, 8: 1, 9: 2, 14: 1, 16: 1, 17: 1}.get(tag)
        if ln is None or i + ln > len(out):
            raise ValueError("bad record tag %s at %d" % (tag, i))
        recs.append((o, out[i:i + ln])); i += ln
    return recs, out[i:]


def parse_tail(tail):
    """-> ('skipped' | 'log', deliveries {(k, leg): [rec]}, panics {(k, leg): [site]}, extra tags)"""
    if tail == [10]:
        return "skipped", {}, {}, []
    i, dl, pn, extra = 0, {}, {}, []
    while i < len(tail):
        t = tail[i]
        if t == 11 and i + 8 <= len(tail):
            dl.setdefault((tail[i + 1], tail[i + 2]), []).append(tail[i + 3:i + 8]); i += 8
        elif t == 12 and i + 4 <= len(tail):
            pn.setdefault((tail[i + 1], tail[i + 2]), []).append(tail[i + 3]); i += 4
        else:
            extra.append(t); i += 1
    return "log", dl, pn, extra


def itinerary(G, own, rules, g, t, d, b):
    """The legs the property prescribes for one message: [(leg, gate sent on, sending module, send time,
    None | (receiving module, arrival, far gate), hops)]; None = send on a transit gate (documented panic);
    hops = [(from gate, to gate, time the hop is entered, tx)] for the hops that have a channel."""
    out, cur, gate, when = [], own[g], g, t + d
    for leg in range(b + 1):
        if G.deg(gate) == 2:
            out.append((leg, gate, cur, when, None, [])); break
        p = G.path(gate)
        far = p[-1][0] if p else gate
        now, prev, hops = when, gate, []
        for j, (h, ch) in enumerate(p):
            if ch is not None:
                hops.append((prev, h, now, tx_ns(ch[1]), j, len(p), ch))
            now += hop_delay(ch); prev = h
        out.append((leg, gate, cur, when, (own[far], now, far), hops))
        r = rules.get(far)
        if r is None:
            break
        cur, gate, when = own[far], r[0], now + r[1]
    return out


def traffic(G, own, rules, sends):
    """per directed hop: the sorted list of (enter time, tx) of all traversals by all legs of all messages"""
    occ = {}
    for (g, t, d, b) in sends:
        for _, _, _, _, _, hops in itinerary(G, own, rules, g, t, d, b):
            for x, y, enter, tx, _, _, _ in hops:
                occ.setdefault((x, y), []).append((enter, tx))
    for v in occ.values():
        v.sort()
    return occ


def same_direction_overlap(occ):
    """True when some message would meet a busy channel: two traversals of the same hop in the same direction
    closer than the transmission time (busy / drop / queue: C07's subject, outside C08's statement)"""
    for v in occ.values():
        for (e1, t1), (e2, _) in zip(v, v[1:]):
            if t1 > 0 and e2 <= e1 + t1:
                return True
    return False


def waiting(G, own, rules, sends):
    """Hops on which some message finds the channel busy (computed as if nobody had waited before, which is right
    for the first such encounter).  -> (hops [(x, y, channel, position, path length)], n legs).  What a busy
    channel does with the message is its drop behaviour; how long a queued message waits is C07's subject."""
    occ = traffic(G, own, rules, sends)
    busy = set()
    for k, v in occ.items():
        for (e1, t1), (e2, _) in zip(v, v[1:]):
            if t1 > 0 and e2 <= e1 + t1:
                busy.add(k)
    hops, nlegs = [], 0
    for (g, t, d, b) in sends:
        for leg in itinerary(G, own, rules, g, t, d, b):
            nlegs += 1
            for x, y, _, _, j, nh, ch in leg[5]:
                if (x, y) in busy:
                    hops.append((x, y, ch, j, nh))
    return hops, nlegs


def queues_hold_everything(G, nlegs):
    """every hop with a bitrate queues, with room for all messages of the script: nothing can be dropped"""
    for adj in G.adj:
        for _, ch in adj:
            if ch is not None and ch[1] and (queue_cap(ch) == 0 or (queue_cap(ch) is not None and queue_cap(ch) < 72 * nlegs)):
                return False
    return True


def opposite_overlap(occ):
    """number of hops on which traffic of the two directions overlaps in time (allowed: one channel instance per direction)"""
    cnt = 0
    for (x, y), v in occ.items():
        if x < y and (y, x) in occ:
            w = occ[(y, x)]
            if any(t1 > 0 and e1 <= e2 <= e1 + t1 for e1, t1 in v for e2, _ in w) or \
               any(t2 > 0 and e2 <= e1 <= e2 + t2 for e1, _ in v for e2, t2 in w):
                cnt += 1
    return cnt


def final_graph(script):
    """the abstract gate graph / owners / rules / sends a script builds (connect: reject self, duplicate, third
    peer; a spawned gate belongs to the module whose spawner was used, whoever executed the call)"""
    hdr, ops = split(script)
    own = owners_of(hdr); n = len(own)
    nfin = final_count(hdr, ops)
    G, rules, sends = Graph(n), {}, []
    for o in phased(hdr, ops):
        if o[0] == 10:
            own += [o[2]] * o[3]; G.grow(o[3]); n += o[3]
        elif o[0] in (1, 9):
            a, b = o[1], o[2]
            if a < n and b < n and a != b and b not in G.peers(a) and G.deg(a) < 2 and G.deg(b) < 2:
                G.add(a, b, chan_of(o))
        elif o[0] == 7:
            if o[1] < nfin and o[2] < nfin:
                rules.setdefault(o[1], (o[2], o[3]))
        elif o[0] in (6, 8):
            if o[1] < nfin:
                sends.append((o[1], o[2], o[3], min(o[4], 8) if o[0] == 8 else 0))
    return G, own, rules, sends


def monitor(script, out):
    """C08 evaluated on the implementation's output alone."""
    hdr, ops = split(script)
    own = owners_of(hdr)
    n = len(own)
    try:
        recs, tail = records(script, out)
    except ValueError as e:
        return "malformed output: %s" % e
    G = Graph(n)
    tainted = set()      # gates whose lock a caught connect panic may have poisoned (outside the property's scope)
    version = 0
    iters = {}           # (version, g) -> [gates]
    sends = []
    rules = {}           # arrival gate -> (out gate, delay); first rule wins
    nfin = final_count(hdr, ops)
    mask = False
    for o, r in recs:
        if o[0] == 10:
            # m.spawner().gate(..): the new gates belong to module m, whoever executed the call
            if r != [16]:
                return "spawner().gate(..) on m%d executed by m%d failed: %s" % (o[2], o[1], r)
            own += [o[2]] * o[3]; G.grow(o[3]); n += o[3]
            continue
        if o[0] == 14:
            if r != [17]:
                return "mode record %s" % r
            mask = mask or o[1] != 0
            continue
        if o[0] == 7:
            if r != ([14] if o[1] < n and o[2] < n else [7]):
                return "rule record %s" % r
            if o[1] < nfin and o[2] < nfin:
                rules.setdefault(o[1], (o[2], o[3]))
            continue
        if o[0] in (6, 8):
            if r != ([6] if o[1] < n else [7]):
                return "send record %s" % r
            if o[1] < nfin:
                sends.append((o[1], o[2], o[3], min(o[4], 8) if o[0] == 8 else 0))
            continue
        gs = [o[1], o[2]] if o[0] in (1, 9) else [o[1]]
        if any(g >= n for g in gs):
            if r != [7]:
                return "operation on an unknown gate answered %s" % r
            continue
        if r == [8]:
            return "walk ran out of fuel"
        if o[0] in (1, 9):
            a, b = o[1], o[2]
            lat = chan_of(o)
            if a == b:
                if r != [9, 1]:
                    return "self-connect of g%d was not rejected: %s" % (a, r)
            elif r == [9, 5]:
                if not ({a, b} & tainted):
                    return "connect(g%d,g%d) hit a poisoned lock although no earlier panic involved these gates" % (a, b)
                tainted |= {a, b}
            elif b in G.peers(a):
                if r != [1]:
                    return "repeated connect(g%d,g%d) is not a no-op: %s" % (a, b, r)
            elif G.deg(a) >= 2 or G.deg(b) >= 2:
                if r != [9, 2]:
                    return "connect(g%d,g%d) would give a gate a third peer and was not rejected: %s" % (a, b, r)
                tainted |= {a, b}
            else:
                if r != [1]:
                    return "connect(g%d,g%d) between gates with free slots failed: %s" % (a, b, r)
                G.add(a, b, lat); version += 1
            continue
        g = o[1]
        if r == [9, 4]:
            if not (G.component(g) & tainted):
                return "query on g%d panicked although no earlier caught panic involved its chain" % g
            continue
        if r[0] == 9:
            return "query panicked: %s" % r
        d = G.deg(g)
        if o[0] == 2:
            if r != [2, d]:
                return "kind(g%d) = %s but the gate has %d peers" % (g, r, d)
        else:
            p = None if d == 2 else G.path(g)
            if d != 2 and p is None:
                return "internal: ring reached from a non-transit gate"
            if o[0] == 3:
                exp = [3, 0] if not p else [3, p[0][0] + 1]
                if r != exp:
                    return "next_gate(g%d) = %s, expected %s" % (g, r, exp)
            elif o[0] == 4:
                exp = [4, 0] if not p else [4, p[-1][0] + 1]
                if r != exp:
                    return "path_end(g%d) = %s, expected %s" % (g, r, exp)
            else:
                if p is None:
                    exp = [5, 0]
                else:
                    exp = [5, 1, len(p)]
                    for h, ch in p:
                        exp += [h, 0 if ch is None else ch[0] + 1, 0 if ch is None else ch[1]]
                if r != exp:
                    return "path_iter(g%d) = %s, expected %s" % (g, r, exp)
                if p is not None:
                    iters[(version, g)] = [r[3 + 3 * j] for j in range(r[2])]
    # mirror image, stated on the implementation's own enumerations
    for (v, g), p in iters.items():
        if p and (v, p[-1]) in iters:
            q = iters[(v, p[-1])]
            if q != list(reversed([g] + p))[1:]:
                return "path from g%d is %s but from its far end g%d it is %s (not the mirror image)" % (g, p, p[-1], q)
    mode, dl, pn, extra = parse_tail(tail)
    if mode == "skipped":
        if not tainted:
            return "simulation not run (poisoned gate) although no connect panicked"
        return None
    if extra:
        return "run failed or unexpected records in the delivery log: %s" % extra
    busy_hops, nlegs = waiting(G, own, rules, sends)
    waits = bool(busy_hops)
    if waits and not queues_hold_everything(G, nlegs):
        # some message meets a busy channel that may drop it: what happens then is C07's subject, C08 does not say
        return None
    # (messages that only WAIT in a queue must still reach the far end; only their arrival time is C07's business)
    expected = set()
    for k, (g, t, d, b) in enumerate(sends):
        for leg, gate, cur, when, res, _ in itinerary(G, own, rules, g, t, d, b):
            expected.add((k, leg))
            what = "send #%d leg %d (m%d sends on g%d at %d)" % (k, leg, cur, gate, when)
            if res is None:
                if pn.get((k, leg)) != [3] or (k, leg) in dl:
                    return "%s on a transit gate: expected the documented panic, got deliveries=%s panics=%s" % (
                        what, dl.get((k, leg)), pn.get((k, leg)))
                continue
            if (k, leg) in pn:
                return "%s panicked (%s)" % (what, pn[(k, leg)])
            got = dl.get((k, leg), [])
            if len(got) != 1:
                return "%s was delivered %d times" % (what, len(got))
            to, arrive, far = res
            if mask:
                arrive = 0                      # not reported
            elif waits:
                arrive = got[0][1]              # somebody waited in a queue: arrival times are not C08's to predict
            exp = [to, arrive, cur, to, far + 1]
            if got[0] != exp:
                names = ["receiving module", "arrival time (send + sum of tx + latency per hop)", "header.sender (the module that performed this send)",
                         "header.receiver", "last_gate+1"]
                bad = [names[j] for j in range(5) if got[0][j] != exp[j]]
                return "%s: %s wrong: got %s expected %s" % (what, ", ".join(bad), got[0], exp)
    for key in list(dl) + list(pn):
        if key not in expected:
            return "delivery (message #%d, leg %d) that the script does not call for" % key
    return None


# ----------------------------------------------------------------------------- mechanisms
def mechanisms(script, out):
    hdr, ops = split(script)
    own = owners_of(hdr); n = len(own)
    cl = clusters_of(hdr)
    m = set()
    slots = [[] for _ in range(n)]      # peers in slot order
    chan = {}
    poisoned = False
    conn_seq = []
    rules = {}
    spawned_by = {}
    for o in phased(hdr, ops):
        if o[0] == 10:
            m.add("gate_created_via_spawner")
            if o[1] != o[2]:
                m.add("gate_created_by_other_module")
                m.add("gate_created_by_parent_on_child" if o[2] == o[1] + 4 else "gate_created_through_held_moduleref")
            for _ in range(o[3]):
                spawned_by[n] = o[1]; own.append(o[2]); cl.append(o[3] > 1); slots.append([]); n += 1
            continue
        gs = [o[1], o[2]] if o[0] in (1, 7, 9) else [o[1]]
        if any(g >= n for g in gs):
            m.add("unknown_gate"); continue
        if o[0] == 7:
            continue
        if o[0] in (1, 9):
            a, b = o[1], o[2]
            if len(o) == 7 and o[5] >= 0: m.add("runtime_connect")
            if a == b:
                m.add("self_connect")
            elif b in slots[a]:
                m.add("duplicate_connect")
                if (b, a) in conn_seq: m.add("duplicate_reversed")
            elif len(slots[a]) >= 2 or len(slots[b]) >= 2:
                m.add("third_peer"); poisoned = True
            else:
                ia, ib = len(slots[a]), len(slots[b])
                m.add("link_slots_%d%d" % (ia, ib))
                ca = comp(slots, a); cb = comp(slots, b)
                if b in ca:
                    m.add("ring_closed")
                elif len(ca) > 1 and len(cb) > 1:
                    m.add("join_two_chains")
                slots[a].append(b); slots[b].append(a)
                if o[3]:
                    chan[(a, b)] = chan[(b, a)] = o[3] - 1
                    if o[3] == 1: m.add("zero_latency_channel")
                conn_seq.append((a, b))
        elif o[0] == 5 and len(slots[o[1]]) < 2:
            p = walk_slots(slots, o[1])
            if len(p) >= 2: m.add("path_iter_multi_hop")
        elif o[0] == 6:
            pass
    if poisoned: m.add("poisoned")
    # hop channels with a bitrate: which hops carry traffic, and whether the two directions overlap in time
    G, own, rules, snds = final_graph(script)
    if not poisoned:
        occ = traffic(G, own, rules, snds)
        for (x, y), v in occ.items():
            ch = dict(G.adj[x]).get(y)
            if ch and ch[1]:
                m.add("hop_with_bitrate")
                if ch[0] == 0: m.add("zero_latency_bitrate_hop")
        if opposite_overlap(occ): m.add("simultaneous_opposite_directions")
        busy_hops, nlegs = waiting(G, own, rules, snds)
        for (x, y), v in occ.items():
            ch = dict(G.adj[x]).get(y)
            if ch and ch[1] and ch[2] == 1: m.add("queue_unbounded_hop")
            if ch and ch[1] and ch[2] >= 2: m.add("queue_limited_hop")
            if any(e1 == e2 for (e1, _), (e2, _) in zip(v, v[1:])): m.add("burst_same_instant_same_direction")
        if busy_hops and not queues_hold_everything(G, nlegs):
            m.add("same_direction_overlap_out_of_scope")
        elif busy_hops:
            m.add("message_waited_in_queue")
            for x, y, ch, j, nh in busy_hops:
                m.add("queued_hop_only" if nh == 1 else "queued_hop_first" if j == 0 else "queued_hop_last" if j == nh - 1 else "queued_hop_middle")
                if x in slots[y]:
                    # slot of the target gate that points back (Connection::endpoint_id of the queued connection)
                    m.add("queued_target_backpointer_slot%d" % slots[y].index(x))
                    if len(slots[y]) == 2: m.add("queued_onto_transit_gate_slot%d" % slots[y].index(x))
    ends = {}
    for o in ops:
        if o[0] not in (6, 8) or o[1] >= n: continue
        g, t, d = o[1], o[2], o[3]
        # relay legs of this message
        b = min(o[4], 8) if o[0] == 8 else 0
        cur, gate, nlegs = own[g], g, 0
        for leg in range(b + 1):
            if len(slots[gate]) == 2:
                if leg: m.add("relay_onto_transit_gate")
                break
            pth = walk_slots(slots, gate)
            far = pth[-1] if pth else gate
            nlegs += 1
            if leg:
                m.add("relay_sender_differs_from_origin" if cur != own[g] else "relay_sender_same_module_as_origin")
            r = rules.get(far)
            if r is None or leg == b: break
            if r[0] == far: m.add("echo_back")
            else:
                m.add("forwarded_message_object")
                if own[r[0]] != own[far]: m.add("forward_on_foreign_gate")
            m.add("relay_delayed" if r[1] else "relay_immediate")
            cur, gate = own[far], r[0]
        if nlegs >= 3: m.add("relay_3plus_legs")
        if len(slots[g]) == 2:
            m.add("send_on_transit"); continue
        if len(slots[g]) == 0:
            m.add("send_on_standalone"); continue
        p = walk_slots(slots, g)
        k = len(p)
        m.add("send_hops_1" if k == 1 else "send_hops_2_3" if k <= 3 else "send_hops_4_7" if k <= 7 else "send_hops_8_12")
        m.add("send_delayed" if d else "send_immediate")
        if t == 0: m.add("send_from_at_sim_start")
        nch = sum(1 for x, y in zip([g] + p, p) if (x, y) in chan)
        if nch >= 2: m.add("multi_channel_path")
        if nch == 0: m.add("no_channel_path")
        if 0 < nch < k: m.add("mixed_channel_path")
        if own[g] == own[p[-1]]: m.add("same_module_both_ends")
        if any(x in spawned_by for x in [g] + p): m.add("send_over_spawned_gate")
        if p[-1] in spawned_by and spawned_by[p[-1]] != own[p[-1]]: m.add("delivered_through_gate_spawned_by_other_module")
        if any(cl[x] for x in [g] + p): m.add("cluster_gate_on_path")
        if len(set(own[x] for x in [g] + p)) >= 3: m.add("path_over_3_modules")
        # slot-0 of a transit gate leads backwards (the walk must leave through slot 1) and vice versa
        for prev, x in zip([g] + p, p):
            if len(slots[x]) == 2:
                m.add("transit_entered_via_slot%d" % slots[x].index(prev))
        ends.setdefault(frozenset((g, p[-1])), set()).add(g)
        # orientation / order of the connect calls relative to the walk
        fw = sum(1 for x, y in zip([g] + p, p) if (x, y) in conn_seq)
        if 0 < fw < k: m.add("mixed_orientation")
        idx = [conn_seq.index((x, y)) if (x, y) in conn_seq else conn_seq.index((y, x)) for x, y in zip([g] + p, p)]
        if idx != sorted(idx) and idx != sorted(idx, reverse=True): m.add("permuted_connect_order")
    if any(len(v) == 2 for v in ends.values()): m.add("both_directions")
    return m


def comp(slots, g):
    seen, todo = {g}, [g]
    while todo:
        x = todo.pop()
        for p in slots[x]:
            if p not in seen:
                seen.add(p); todo.append(p)
    return seen


def walk_slots(slots, g):
    out, prev, cur = [], None, g
    while True:
        nxt = [p for p in slots[cur] if p != prev]
        if not nxt or nxt[0] in out or nxt[0] == g:
            return out
        out.append(nxt[0]); prev, cur = cur, nxt[0]


def nontrivial(script, out):
    m = mechanisms(script, out)
    return len(m) >= 3 and bool(m & {"send_hops_2_3", "send_hops_4_7", "send_hops_8_12", "path_iter_multi_hop"})


# ----------------------------------------------------------------------------- generators
def rand_lat(rng):
    return rng.choice(LATS) if rng.random() < 0.7 else rng.randint(0, 10 ** rng.randint(1, 10))


def rand_time(rng):
    c = rng.random()
    if c < 0.25: return 0
    if c < 0.6: return rng.randint(1, 20)
    return rng.choice([1000, 2500000, 10 ** 9, rng.randint(1, 10 ** 10)])


def gen_script(rng, malformed=False, relays=False, bitrates=False, spawns=False, queues=False):
    if queues:
        return gen_queue_script(rng, relays)
    if spawns:
        return gen_spawn_script(rng, relays, bitrates)
    nmod = rng.randint(1, 6)
    nchains = rng.choice([1, 1, 1, 2, 2, 3, 4])
    hops = []
    budget = 30
    for _ in range(nchains):
        k = rng.choice([1, 1, 2, 2, 3, 3, 4, 5, 6, 8, 10, 12]) if rng.random() < 0.8 else rng.randint(1, 12)
        k = max(1, min(k, budget - 1))
        hops.append(k); budget -= k + 1
        if budget < 2: break
    need = sum(k + 1 for k in hops) + rng.randint(0, 3)      # a few standalone gates
    # gate groups: single gates and clusters
    grp, n = [], 0
    while n < need:
        sz = 1 if rng.random() < 0.6 else rng.randint(2, 6)
        grp += [rng.randrange(nmod), sz]; n += sz
    ids = list(range(n)); rng.shuffle(ids)
    chains, pos = [], 0
    for k in hops:
        chains.append(ids[pos:pos + k + 1]); pos += k + 1
    spare = ids[pos:]
    conns = []
    for c in chains:
        chan_p = rng.choice([0.0, 0.3, 0.5, 0.8, 1.0])
        for x, y in zip(c, c[1:]):
            l = 0 if rng.random() >= chan_p else rand_lat(rng) + 1
            if bitrates and (l or rng.random() < 0.5) and rng.random() < 0.7:
                # a hop with a bitrate: delay = tx(72 bytes) + latency; latency 0 in 40 %
                br = rng.choice(BITRATES) if rng.random() < 0.93 else rng.choice([7, 11 * 10 ** 8])
                l = 1 if rng.random() < 0.4 else max(l, 1)
                conns.append([9, x, y, l, br] if rng.random() < 0.5 else [9, y, x, l, br])
            else:
                conns.append([1, x, y, l] if rng.random() < 0.5 else [1, y, x, l])
    mode = rng.random()
    if mode < 0.75:
        rng.shuffle(conns)
    elif mode < 0.85:
        conns.reverse()
    ops = []
    done = []
    for c in conns:
        ops.append(c); done.append(c)
        r = rng.random()
        if r < 0.12:                                   # duplicate, either orientation, possibly another channel
            d = rng.choice(done)
            ops.append([1, d[2], d[1], rng.choice([0, d[3], 5])] if rng.random() < 0.5 else d[:3] + [rng.choice([0, d[3]])] + d[4:])
        elif r < 0.30:
            ops.append([rng.choice([2, 2, 3, 4, 5]), rng.choice(c[1:3])])
        if malformed and rng.random() < 0.25:
            q = rng.random()
            if q < 0.35:
                g = rng.randrange(n); ops.append([1, g, g, rng.choice([0, 8])])
            elif q < 0.75:
                ops.append([1, rng.randrange(n), rng.randrange(n), 0])      # often a third peer / chain join
            elif q < 0.9:
                ops.append([1, n + rng.randint(0, 3), rng.randrange(n), 0])
            else:
                ops.append([rng.choice([2, 3, 4, 5]), n + rng.randint(0, 2)])
    if rng.random() < 0.06 and chains:                 # close a ring: every gate becomes transit
        c = rng.choice(chains)
        if len(c) > 2:
            ops.append([1, c[-1], c[0], rng.choice([0, 4])] if rng.random() < 0.5 else [1, c[0], c[-1], 0])
    # queries
    for c in chains:
        a, b = c[0], c[-1]
        for g in (a, b):
            for tag in rng.sample([2, 3, 4, 5], rng.randint(1, 4)):
                ops.append([tag, g])
        ops.append([5, a]); ops.append([5, b])
        if len(c) > 2:
            ops.append([rng.choice([2, 3, 4, 5]), rng.choice(c[1:-1])])
    for g in spare[:2]:
        ops.append([rng.choice([2, 3, 4, 5]), g])
    # sends: both directions, immediate and delayed
    for c in chains:
        a, b = c[0], c[-1]
        for _ in range(rng.randint(1, 3)):
            g = rng.choice([a, b])
            ops.append([6, g, rand_time(rng), rng.choice([0, 0, 1, 5, 1000, 10 ** 9])])
        if rng.random() < 0.7:
            t = rand_time(rng)
            ops.append([6, a, t, 0]); ops.append([6, b, t, rng.choice([0, 3])])
        if len(c) > 2 and rng.random() < 0.08:
            ops.append([6, rng.choice(c[1:-1]), rand_time(rng), rng.choice([0, 2])])   # transit gate: documented panic
    if spare and rng.random() < 0.3:
        ops.append([6, spare[0], rand_time(rng), rng.choice([0, 2])])
    if relays:
        # RELAY stream: forwarding rules at chain ends (echo back / forward onto another chain, immediate / delayed)
        ends = [c[0] for c in chains] + [c[-1] for c in chains]
        own = owners_of([nmod, len(grp)] + grp)
        rops = []
        for e in rng.sample(ends, rng.randint(1, len(ends))):
            q = rng.random()
            if q < 0.35 or len(ends) < 3:
                out = e                                                   # echo back on the arrival chain
            else:
                cand = [x for x in ends if x != e and own[x] == own[e]] if rng.random() < 0.6 else []
                out = rng.choice(cand or [x for x in ends if x != e])     # forward (usually on a gate of the same module)
            if rng.random() < 0.05 and spare:
                out = spare[0]
            rops.append([7, e, out, rng.choice([0, 0, 1, 3, 1000, 10 ** 9])])
        if rng.random() < 0.1:
            rops.append([7, rng.choice(ends), rng.randrange(n), 0])        # shadowed / arbitrary rule
        sops = []
        for _ in range(rng.randint(1, 3)):
            sops.append([8, rng.choice(ends), rand_time(rng), rng.choice([0, 0, 2, 1000]), rng.randint(1, 5)])
        if rng.random() < 0.5:
            ops = ops + rops + sops
        else:
            ops = rops + ops + sops
    if rng.random() < 0.15:
        rng.shuffle(ops)                               # queries/sends interleaved with the construction
    script = join([nmod, len(grp)] + grp, ops)
    if bitrates:
        script = space_out(script)
    return script


def gen_queue_script(rng, relays):
    """QUEUE stream: every hop with a bitrate has a Queue drop behaviour with room for all messages, and bursts of
    sends in one instant make messages wait in those queues (first / middle / last hop, targets entered through
    slot 0 and slot 1 because the connect calls come in every order and orientation).  Arrival times are not
    reported; who receives the message, and through which gate, is."""
    nmod = rng.randint(1, 6)
    nch = rng.choice([1, 1, 2])
    grp, n = [], 0
    hops = [rng.choice([1, 1, 2, 2, 3, 3, 4, 5]) for _ in range(nch)]
    while n < sum(k + 1 for k in hops):
        sz = 1 if rng.random() < 0.7 else rng.randint(2, 4)
        grp += [rng.randrange(nmod), sz]; n += sz
    ids = list(range(n)); rng.shuffle(ids)
    chains, pos = [], 0
    for k in hops:
        chains.append(ids[pos:pos + k + 1]); pos += k + 1
    conns = []
    for c in chains:
        qh = rng.randrange(len(c) - 1)                  # this hop certainly queues
        for j, (x, y) in enumerate(zip(c, c[1:])):
            a, b = (x, y) if rng.random() < 0.5 else (y, x)
            if j == qh or rng.random() < 0.35:
                br = rng.choice([576 * 10 ** 9, 72 * 10 ** 9, 576 * 10 ** 6, 576000, 576])
                l = 1 if rng.random() < 0.5 else rand_lat(rng) + 1
                q = 1 if rng.random() < 0.7 else 2 + 72 * rng.choice([64, 100])
                conns.append([12, a, b, l, br, q] if rng.random() < 0.8 else [13, rng.randrange(nmod), a, b, l, br, q])
            else:
                l = 0 if rng.random() < 0.5 else rand_lat(rng) + 1
                conns.append([1, a, b, l] if rng.random() < 0.8 else [11, rng.randrange(nmod), a, b, l, 0])
    mode = rng.random()
    if mode < 0.7: rng.shuffle(conns)
    elif mode < 0.85: conns.reverse()
    ops = [[14, 1]] + conns
    for c in chains:
        a, b = c[0], c[-1]
        ops += [[5, a], [5, b]]
        t, d = rand_time(rng), rng.choice([0, 0, 3])
        for _ in range(rng.randint(2, 4)):               # a burst in one instant: all but the first wait
            ops.append([6, a, t, d])
        if rng.random() < 0.6:
            for _ in range(rng.randint(1, 3)):
                ops.append([6, b, t if rng.random() < 0.5 else rand_time(rng), d])
        if relays:
            e = rng.choice([a, b])
            ops.append([7, e, e if rng.random() < 0.6 else rng.choice([c2[-1] for c2 in chains]), rng.choice([0, 0, 5])])
            for _ in range(rng.randint(1, 2)):
                ops.append([8, a if e == b else b, t, d, rng.randint(1, 2)])
    return join([nmod, len(grp)] + grp, ops)


def gen_spawn_script(rng, relays, bitrates):
    """RUN-TIME wiring: gates created inside at_sim_start through Spawner::gate - by the module itself, by a parent
    on its child (current().child(..)) or through a held ModuleRef - connected at run time (some hops at build
    time), then messages over those chains (both directions, relays)."""
    nmod = rng.randint(1, 8)
    grp, n = [], 0
    for _ in range(rng.randint(0, 3)):                  # a few builder gates
        sz = 1 if rng.random() < 0.7 else rng.randint(2, 4)
        grp += [rng.randrange(nmod), sz]; n += sz
    builder = list(range(n))
    own = owners_of([nmod, len(grp)] + grp)
    ops, spawned = [], []
    for _ in range(rng.randint(1, 5)):
        target = rng.randrange(nmod)
        q = rng.random()
        if q < 0.35:
            caller = target                              # on itself
        elif q < 0.7 and target >= 4:
            caller = target - 4                          # parent wires up its child
        else:
            caller = rng.randrange(nmod)                 # any module holding a ModuleRef
        sz = 1 if rng.random() < 0.6 else rng.randint(2, 4)
        ops.append([10, caller, target, sz])
        spawned += list(range(n, n + sz)); own += [target] * sz; n += sz
    ids = builder + spawned
    rng.shuffle(ids)
    chains, pos = [], 0
    while pos + 1 < len(ids) and len(chains) < 3:
        k = min(rng.choice([1, 1, 2, 3, 4]), len(ids) - pos - 1)
        chains.append(ids[pos:pos + k + 1]); pos += k + 1
    spare = ids[pos:]
    pre = []
    conns = []
    for c in chains:
        for x, y in zip(c, c[1:]):
            l = 0 if rng.random() < 0.5 else rand_lat(rng) + 1
            br = rng.choice(BITRATES) if bitrates and l and rng.random() < 0.6 else 0
            a, b = (x, y) if rng.random() < 0.5 else (y, x)
            if x in builder and y in builder and rng.random() < 0.5:
                pre.append([9, a, b, l, br] if br else [1, a, b, l])          # build-time hop
            else:
                conns.append([11, rng.choice([own[x], own[y], rng.randrange(nmod)]), a, b, l, br])
    rng.shuffle(conns)
    if conns and rng.random() < 0.15:
        d = rng.choice(conns); conns.append([11, rng.randrange(nmod), d[3], d[2], 0, 0])   # duplicate, reversed
    if conns and rng.random() < 0.05:
        conns.append([11, 0, rng.randrange(n), rng.randrange(n), 0, 0])                   # possibly a third peer
    ops = pre + ops + conns
    for c in chains:
        a, b = c[0], c[-1]
        for g in (a, b):
            if g in builder:
                ops.append([rng.choice([2, 5]), g])      # build-time view: the chain does not exist yet
        t = rand_time(rng)
        ops.append([6, a, t, rng.choice([0, 0, 2])]); ops.append([6, b, t, rng.choice([0, 3])])
        if rng.random() < 0.5:
            ops.append([6, rng.choice([a, b]), rand_time(rng), rng.choice([0, 5, 1000])])
        if relays:
            e = rng.choice([a, b])
            ops.append([7, e, e if rng.random() < 0.5 else rng.choice([c2[0] for c2 in chains]), rng.choice([0, 1, 1000])])
            ops.append([8, a if e == b else b, rand_time(rng), 0, rng.randint(1, 3)])
    for g in spare[:1]:
        ops.append([6, g, rand_time(rng), 0])
    if rng.random() < 0.1:
        ops.append([6, n + 1, 0, 0]); ops.append([11, 0, n, 0, 0, 0])
    script = join([nmod, len(grp)] + grp, ops)
    return space_out(script) if bitrates else script


def space_out(script):
    """Keep the traffic of ONE direction of every hop non-overlapping in time (no message may meet a busy channel:
    that is C07's subject), while simultaneous sends from the two ends of a chain stay simultaneous."""
    hdr, ops = split(script)
    G, own, rules, sends = final_graph(script)
    if not same_direction_overlap(traffic(G, own, rules, sends)):
        return script
    dur = 0
    for (g, t, d, b) in sends:
        it = itinerary(G, own, rules, g, t, d, b)
        last = max([r[4][1] for r in it if r[4]] + [r[3] for r in it])
        dur = max(dur, last - t)
    gap = dur + 10
    base, prev = 0, None
    for o in ops:
        if o[0] not in (6, 8):
            continue
        pair = prev is not None and prev[1] != o[1] and prev[2] == o[2] and \
            o[1] < len(own) and prev[1] < len(own) and G.deg(o[1]) == 1 and G.deg(prev[1]) == 1 and \
            (G.path(prev[1]) or [(None, None)])[-1][0] == o[1]
        prev = list(o)
        if not pair:
            base += gap
        o[2] = base
    for attempt in range(3):
        cand = join(hdr, ops)
        G, own, rules, sends = final_graph(cand)
        if not same_direction_overlap(traffic(G, own, rules, sends)):
            return cand
        if attempt == 0:
            for o in ops:                               # relays make the two directions chase each other: no relays
                if o[0] == 8: o[4] = 0
        else:
            ops = [o[:4] if o[0] == 9 else o[:5] + [0] if o[0] == 11 else o for o in ops]
            for o in ops:
                if len(o) == 4 and o[0] == 9: o[0] = 1
    return join(hdr, ops)


def gen(rng, n):
    small = list(exhaustive(3))
    k = 0
    for s in small:
        if k >= n // 4: break
        yield s; k += 1
    while k < n:
        yield gen_script(rng, malformed=(rng.random() < 0.15), relays=(rng.random() < 0.3), bitrates=(rng.random() < 0.3), spawns=(rng.random() < 0.2), queues=(rng.random() < 0.12)); k += 1


def exhaustive(maxhops=5):
    """every permutation x orientation of the connect calls that build one chain of <= maxhops hops,
    gates spread over 3 modules; even hops: latency 10^i and 576 Gbit/s (tx 1 ns), hop 1: latency 0 and
    288 Gbit/s (tx 2 ns), other odd hops: no channel; sends from both ends at the same instant, later ones
    spaced so that no message meets a busy channel"""
    for k in range(1, maxhops + 1):
        n = k + 1
        grp = []
        for i in range(n):
            grp += [i % 3, 1]
        hops = [(i, i + 1) + ((10 ** i + 1, 576 * 10 ** 9) if i % 2 == 0 else (1, 288 * 10 ** 9) if i == 1 else (0, 0)) for i in range(k)]
        T = 10 ** 6
        for perm in itertools.permutations(range(k)):
            for mask in range(1 << k):
                ops = []
                for j in perm:
                    a, b, l, br = hops[j]
                    if (mask >> j) & 1: a, b = b, a
                    ops.append([9, a, b, l, br] if br else [1, a, b, l])
                for g in range(n):
                    ops.append([2, g])
                for g in (0, k):
                    ops += [[5, g], [3, g], [4, g]]
                if k > 1:
                    ops.append([5, 1])
                ops += [[6, 0, 3, 0], [6, k, 3, 0], [6, 0, T, 2], [6, k, 2 * T, 2],
                        [7, k, k, 0], [7, 0, 0, 1], [8, 0, 3 * T, 0, 2], [8, k, 4 * T, 5, 1]]
                yield join([3, len(grp)] + grp, ops)
