"""C01, heap part — the OTHER future event set: default_impl::FutureEventSet of des/src/runtime/event/event_set.rs
(BinaryHeap ordered by time only + zero queue + last_event_simtime), compiled only when des is built without its
`cqueue` feature.  /verif/harness_heap builds the sources of /verif/harness against such a des, so the scripts of the
generic runtime (tools/props/rt_common.py) drive the real Runtime<App> over this backend."""
from props.rt_common import *  # noqa
from props import rt_common as R

ID = "C01"; PART = "heap"; MODEL = "heaprt"; IMPL = "rt"; HARNESS = "harness_heap"
COQ_PROP = "Properties/C01.v"; COQ_DIRS = ["Common", "CQueue", "Runtime"]
COQ_MODULE = "Runtime.HeapRt"; RUN_FN = "run"
THEOREMS = ["C01_heap_fetch_nondecreasing", "C01_heap_exactly_once", "C01_heap_len_formula", "C01_heap_peek_is_next_fetch",
            "C01_heap_refines_spec_up_to_ties", "C01_heap_runtime_total"]
QUICK_N = 2500; THOROUGH_N = 150000
RULE = ("the scripts of C02/C10/C11 (random event programs with ties, zero-delay follow-ups, absolute adds in the past,"
        " start time 0/small/large, time units reaching beyond 2^64 ns, limits, step schedules with add_event while paused);"
        " the calendar-queue parameters of a script are ignored by this backend.  Two passes: the implementation's"
        " dispatch log is the oracle of the model's heap pops (BinaryHeap's order among equal timestamps is unspecified)."
        " non-trivial = distinct script hitting at least two targeted mechanisms")
TRUSTED = ["std::collections::BinaryHeap is modelled as a finite bag whose pop returns a minimum-time element chosen by an"
           " oracle (its sift-up/down is not modelled); EventNode's comparison operators are read as 'by time, reversed'",
           "the copy of default_impl under cfg_miri! is textually identical (compared by tools, not built)",
           "user code is the scripted handler of harness/src/bin/rt.rs",
           "the runtime-level statements for this backend (clock: C02_holds_over_heap; limits: C11_*_heap; stepping: C10_*_heap)"
           " are instances of the theorems about the runtime over an arbitrary event set (coq/Runtime/EvSet.v, Generic*.v) and"
           " live in Properties/C02.v, C10.v, C11.v"]
ASSUMPTIONS = ["times fit in 63 bits per wire number (time unit field for larger timestamps)"]
CLAIM = None


def gen(rng, n):
    for i in range(n):
        s = R.gen_program(rng, below_start=True, at_start=True)
        c = rng.random()
        if c < 0.45:
            s.calls = R.gen_calls(rng, R.unlimited(s), s.start)
        if c > 0.35:
            s.sched = R.gen_schedule(rng, s, ext=rng.random() < 0.6)
        yield R.add_concurrent_build(rng, s, 0.06).encode()


def exhaustive():
    for s in R.small_programs(at_start=True):
        yield s.encode()
        if len(s.pre) >= 1 and len(s.pre) <= 2:
            ts = sorted(set(t for (t, _) in s.pre))
            for a in [(1, 1), (2, ts[0]), (3, ts[0], 0)]:
                yield R.Script(s.n, s.t, s.start, s.budget, [], s.table, s.pre, [a, (1, 1)], unit=s.unit).encode()


monitor = R.monitor_heap
model_input = R.oracle_labels


def nontrivial(script, out):
    return len(R.mechanisms(script, out)) >= 2
