"""C07 — channels account for every message with the specified delay, busy and drop rules.

script (see coq/Channel/Model.v `run`, harness/src/bin/chan.rs):
  seed brk br lat jit pol lim  ntx (len tx)*  norc j*  (t len)*
    bitrate = br (brk = 0) | usize::MAX (brk = 1); pol 0 Drop | 1 Queue(None) | 2 Queue(Some lim)
    tx table: transmission time in ns per message length (the model's oracle for calculate_busy; computed
    here with the same IEEE-754 operations the code uses and re-reported by the implementation);
    oracle: the jitter samples of the seeded run, in transmission order (model only; for jittered scripts the
    generator obtains them from a first run of the implementation);
    offers: message m = script position, total length max(64,len) bytes, `send`t at time t; consecutive offers
    with equal time are one burst (one handler invocation).
output: 7 n (len tx)* then records  1 m t (transmission start) | 2 m t (arrival) | 3 t busy finish pk by (sample) |
        4 m f (fate of a send: 0 started, 1 dropped/Drop, 2 dropped/queue full, 3 queued) | 13 (run() returned Err)
"""
import os, subprocess, itertools
from fractions import Fraction

ID = "C07"; MODEL = "chan"; IMPL = "chan"
COQ_PROP = "Properties/C07.v"; COQ_DIRS = ["Common", "Channel"]
COQ_MODULE = "Channel.Model"; RUN_FN = "run"
THEOREMS = ["C07_account", "C07_account_none_twice", "C07_run_completes", "C07_idle_implies_queue_empty", "C07_delivery_time",
            "C07_started_delivered_or_in_flight", "C07_busy_span", "C07_unbusy_stamp", "C07_fifo_start", "C07_direct_start",
            "C07_fifo_order", "C07_zero_jitter_preserves_order", "C07_queue_limit"]
QUICK_N = 3000; THOROUGH_N = 200000
XCHECK_N = 40
CLAIM = dict(
    text="Machine-checked (Coq 8.16, axiom-free) for every transmission-time function tx : len -> ns, every latency, jitter and "
         "drop policy (Drop | Queue(None) | Queue(Some limit), limit 0 included), every script of send bursts (any times, sizes, "
         "bursts inside one handler) and every jitter oracle, at every event boundary of the channel's event loop: (account) the "
         "script's messages are, as a multiset, exactly delivered + dropped-busy + dropped-queue-full + queued + in flight + not yet "
         "offered, none twice, and the loop runs dry with everything delivered or dropped; (no message stuck) an idle channel has an "
         "empty queue, idle = no Unbusy event pending, busy = exactly one, stamped with the finish time; (delivery time) every "
         "delivery happens at start + tx(len) + latency + j with j the sample drawn for that transmission, j = 0 without jitter and "
         "j < jitter whenever the oracle's samples are, and every started transmission is delivered then or still in flight for that "
         "time; (busy span, in event order) a transmission with tx > 0 makes the channel busy until the Unbusy event stamped "
         "start + tx, in between every offer is dropped or queued and is_busy/transmission_finish_time read busy/that time, outside "
         "offers start at once; (FIFO) a queued message starts only as head of the queue, in the handler of the Unbusy event of that "
         "very instant, direct starts only with an empty queue; (zero jitter) deliveries in order are an initial piece of the accepted "
         "offers in offer order; (queue limit) acc_bytes = sum of queued lengths and a busy offer is queued iff acc + len <= limit. "
         "The model (send_message, unbusy, drop handling, the Unbusy/Exit/wake-up events ordered by the two-list event-set "
         "specification that C01 proves the calendar queue refines) is tied to des on every run by differential execution against the "
         "real Sim/Channel API (two modules, one channel, scripted sender, logging receiver, ChannelProbe, is_busy / "
         "transmission_finish_time / Debug queue size sampled in handlers), exact comparison incl. jittered seeded runs, plus a monitor "
         "stating C07 on the implementation's log alone. Pinned-code defects F5 (stuck queue) and F15 (same-instant reorder with zero "
         "latency) have exists-witnesses in coq/Refuted/C07.v and regression scripts in corpus/C07.",
    note="Trusted: Coq kernel; extraction (ExtrOcamlBasic) cross-checked in-Coq by vm_compute each run; harness and generator bound the "
         "tie to the code. calculate_busy (f64) and the rng are oracles of the model: tx enters as a per-script table that is recomputed "
         "with the same IEEE operations, echoed by the implementation and checked to be size*8/bitrate rounded to ns; jitter samples of "
         "jittered runs are read off the implementation's own seeded run, only their range [0, jitter) is asserted (F6). 'Busy exactly "
         "for the transmission time' is stated in event order (an offer or sample processed in the finish instant before the Unbusy "
         "event still sees the channel busy). A transmission time below 0.5 ns rounds to 0 and does not occupy the channel; with "
         "jitter > 0 deliveries may reorder; queued messages are not re-checked against the sender's state (not part of C07). The "
         "HandleMessageEvent following an exit in the same instant is folded into the Exit event. One sender, one channel; module "
         "shutdown, several channels in a chain (C08) and u64/usize overflow are out of scope.",
    technique="Coq invariant proofs over a closed event loop on the C01 event-set specification (trace well-formedness predicate, "
              "count-based multiset accounting, timing and order invariants, termination measure) + differential correspondence check "
              "+ refutation witnesses for the pinned variants",
    design="6/C07")
RULE = ("scripts from a structured generator: bitrate in {0,1,8,1e3,1e9,2e12,usize::MAX,random}, total sizes {64,65,1088,65600}, "
        "latency {0,1,1e3,1e6,random}, jitter 0 (75%) or {1,2,3,10,1e3,1e6} (the oracle is then read off a first run of the "
        "implementation), Drop | Queue(None) | Queue(Some 0|len|2len-1|3len|random), 1..14 offers whose gaps are 0 (burst inside one "
        "handler), tx-1, tx, tx+1, the remaining busy time -1/0/+1, tx+latency or a large value; non-trivial = distinct script (sha1) "
        "hitting at least three targeted mechanisms")
TRUSTED = ["ChannelMetrics::calculate_busy enters the model as a per-script table (recomputed here with the same f64 operations, "
           "echoed by the implementation and compared; checked to be within rounding of len*8e9/bitrate)",
           "jitter samples enter the model as an oracle list; for jittered runs it is read off the implementation's own run",
           "the queue size (packets, bytes) is observed through the channel's Debug output while busy; enqueue vs drop is inferred from it",
           "the HandleMessageEvent following a MessageExitingConnection in the same instant is folded into the Exit event of the model"]
ASSUMPTIONS = ["fewer than 65536 messages per script (MessageId is u16)", "times below 2^62 ns",
               "one sender, one channel, receiver never sends; the sender's module is never shut down"]

HDR = 64
UMAX = (1 << 64) - 1
SIZES = [64, 65, 1088, 65600]


# ----------------------------------------------------------------------------- arithmetic of calculate_busy
def tx_ns(bitrate, length):
    """Duration::from_secs_f64((len*8) as f64 / bitrate as f64) in ns (round to nearest, ties to even)."""
    if bitrate == 0:
        return 0
    x = float(length * 8) / float(bitrate)
    fr = Fraction(x) * 10 ** 9
    n = fr.numerator // fr.denominator
    rem = fr - n
    if rem > Fraction(1, 2) or (rem == Fraction(1, 2) and n % 2 == 1):
        n += 1
    return n


def bitrate_of(script):
    return UMAX if script[1] == 1 else script[2]


# ----------------------------------------------------------------------------- script structure
def parse(script):
    """-> dict(seed, bitrate, lat, jit, pol, lim, tbl{len:tx}, oracle[], offers[(t,len)])"""
    s = list(script) + [0] * max(0, 7 - len(script))
    i = 7
    k = s[i] if i < len(s) else 0
    tb = s[i + 1:i + 1 + k]; i += 1 + k
    k2 = s[i] if i < len(s) else 0
    orc = s[i + 1:i + 1 + k2]; i += 1 + k2
    rest = s[i:]
    offers = [(rest[j], max(HDR, rest[j + 1])) for j in range(0, len(rest) - 1, 2)]
    tbl = {}
    for j in range(0, len(tb) - 1, 2):
        tbl.setdefault(tb[j], tb[j + 1])
    return dict(seed=s[0], bitrate=bitrate_of(s), lat=s[3], jit=s[4], pol=s[5], lim=s[6], tbl=tbl, oracle=orc,
                offers=offers, hdr_end=i)


def split(script):
    p = parse(script)
    hdr = list(script[:p["hdr_end"]])
    rest = list(script[p["hdr_end"]:])
    ops = [rest[j:j + 2] for j in range(0, len(rest) - 1, 2)]
    return hdr, ops


def join(hdr, ops):
    out = list(hdr)
    for o in ops:
        out += o
    return out


def build(seed, bitrate, lat, jit, pol, lim, offers, oracle=()):
    lens = []
    for _, l in offers:
        l = max(HDR, l)
        if l not in lens:
            lens.append(l)
    tb = []
    for l in lens:
        tb += [l, tx_ns(bitrate, l)]
    brk, br = (1, 0) if bitrate == UMAX else (0, bitrate)
    s = [seed, brk, br, lat, jit, pol, lim, len(tb)] + tb + [len(oracle)] + list(oracle)
    for t, l in offers:
        s += [t, l]
    return s


def pretty(script):
    p = parse(script)
    pol = {0: "Drop", 1: "Queue(None)"}.get(p["pol"], "Queue(Some(%d))" % p["lim"])
    br = "usize::MAX" if p["bitrate"] == UMAX else str(p["bitrate"])
    offs = "; ".join("send#%d(len=%d)@%d" % (m, l, t) for m, (t, l) in enumerate(p["offers"]))
    return "seed=%d bitrate=%s latency=%dns jitter=%dns %s tx=%s oracle=%s: %s" % (
        p["seed"], br, p["lat"], p["jit"], pol, p["tbl"], p["oracle"], offs)


def walk(out):
    """-> (tx table reported by the implementation, records, err flag)"""
    if out is None or len(out) < 2 or out[0] != 7:
        raise ValueError("no header")
    n = out[1]
    i = 2
    tbl = {}
    for _ in range(n):
        tbl.setdefault(out[i], out[i + 1]); i += 2
    recs = []
    err = False
    size = {1: 3, 2: 3, 3: 6, 4: 3}
    while i < len(out):
        if out[i] == 13 and i == len(out) - 1:
            err = True; break
        k = size.get(out[i])
        if k is None or i + k > len(out):
            raise ValueError("bad record at %d" % i)
        recs.append(out[i:i + k]); i += k
    return tbl, recs, err


# ----------------------------------------------------------------------------- the property, on the implementation's log
def _analyse(script, out):
    """Returns (error message or None, list of same-instant order inversions, facts for mechanisms)."""
    p = parse(script)
    try:
        tbl, recs, err = walk(out)
    except (ValueError, IndexError) as e:
        return "malformed output: %s" % e, [], {}
    if err:
        return "run() returned an error", [], {}
    offers, lat, jit, pol, lim, br = p["offers"], p["lat"], p["jit"], p["pol"], p["lim"], p["bitrate"]
    # (0) the transmission time is size*8/bitrate up to rounding to whole ns
    for l, t in tbl.items():
        l = max(l, HDR)
        if br == 0:
            if t != 0:
                return "bitrate 0 (unlimited) but calculate_busy(%d) = %d" % (l, t), [], {}
        else:
            exact = Fraction(l * 8 * 10 ** 9, br)
            if abs(t - exact) > Fraction(1, 2) + exact / (1 << 50):
                return "calculate_busy(%d B) = %d ns is not size*8/bitrate = %s ns rounded" % (l, t, float(exact)), [], {}
    def tx(l):
        return tbl[l] if l in tbl else tx_ns(br, l)
    n = len(offers)
    fate = {}; start = {}; arrive = {}; start_order = []; arr_order = []; offer_order = []
    queue = []            # queued, not yet started (ids, FIFO)
    cur = None            # finish time of the transmission the channel is (or may still be) busy with
    facts = dict(fates=fate, starts=start, multi=0, zero_deq=0, exact=0, off1=0, at_unbusy=0, cur_at_offer={})
    last_t = 0
    last_start = None     # (id, t) of the latest transmission start
    pending_send = None   # message whose `1` record appeared and whose fate record must follow (direct start)
    for r in recs:
        tag = r[0]
        if tag == 1:
            _, m, t = r
            if m >= n:
                return "transmission of unknown message %d" % m, [], {}
            if m in start:
                return "message %d transmitted twice" % m, [], {}
            if t < last_t:
                return "time ran backwards", [], {}
            last_t = t
            l = offers[m][1]
            if cur is not None and t < cur:
                return "message %d starts at %d while the channel is busy until %d" % (m, t, cur), [], {}
            if m in fate:
                # a queued message: FIFO, and exactly when the channel became idle
                if fate[m] != 3:
                    return "message %d with fate %d was transmitted later" % (m, fate[m]), [], {}
                if not queue or queue[0] != m:
                    return "queued message %d starts before earlier queued %s (FIFO violated)" % (m, queue[:1]), [], {}
                queue.pop(0)
                pm, pt = last_start
                if t != pt + tx(offers[pm][1]):
                    return ("queued message %d starts at %d, but the channel became idle at %d" %
                            (m, t, pt + tx(offers[pm][1]))), [], {}
                if tx(offers[pm][1]) == 0:
                    facts["multi"] += 1
                if tx(l) == 0:
                    facts["zero_deq"] += 1
            else:
                if queue:
                    return "message %d is transmitted at once although %s are queued (overtaking)" % (m, queue), [], {}
                if t != offers[m][0]:
                    return "message %d offered at %d starts at %d" % (m, offers[m][0], t), [], {}
                pending_send = m
            start[m] = t; start_order.append(m); last_start = (m, t)
            cur = t + tx(l) if tx(l) != 0 else None
        elif tag == 4:
            _, m, f = r
            if m >= n or m in fate:
                return "message %d offered twice or unknown" % m, [], {}
            t = offers[m][0]
            l = offers[m][1]
            fate[m] = f; offer_order.append(m)
            if f == 0:
                if pending_send != m:
                    return "send of %d reported as started without a transmission" % m, [], {}
                pending_send = None
                continue
            if pending_send is not None:
                return "transmission of %d started during the send of %d" % (pending_send, m), [], {}
            # refused or queued: only a busy channel does that, busy = within [start, start + tx] in event order
            if cur is None or t > cur:
                return "message %d offered at %d to an idle channel was %s" % (m, t, "queued" if f == 3 else "dropped"), [], {}
            if t == cur:
                facts["at_unbusy"] += 1
            acc = sum(offers[x][1] for x in queue)
            if pol == 0:
                if f != 1:
                    return "Drop policy but busy-offer of %d had fate %d" % (m, f), [], {}
            else:
                fits = True if pol == 1 else acc + l <= lim
                if fits and f != 3:
                    return "message %d (len %d) fits the queue (%d queued bytes, limit %s) but was dropped" % (
                        m, l, acc, "none" if pol == 1 else lim), [], {}
                if not fits and f != 2:
                    return "message %d (len %d) exceeds the queue limit %d (%d queued bytes) but fate = %d" % (m, l, lim, acc, f), [], {}
                if pol == 2 and acc + l == lim:
                    facts["exact"] += 1
                if pol == 2 and acc + l == lim + 1:
                    facts["off1"] += 1
                if f == 3:
                    queue.append(m)
        elif tag == 2:
            _, m, t = r
            if m >= n or m not in start:
                return "message %d delivered without having been transmitted" % m, [], {}
            if m in arrive:
                return "message %d delivered twice" % m, [], {}
            if t < last_t:
                return "time ran backwards", [], {}
            last_t = t
            base = start[m] + tx(offers[m][1]) + lat
            j = t - base
            if jit == 0 and j != 0:
                return "message %d started at %d arrives at %d, expected %d (start + tx + latency)" % (m, start[m], t, base), [], {}
            if jit != 0 and not (0 <= j < jit):
                return "message %d: jitter %d outside [0,%d) (start %d, arrival %d)" % (m, j, jit, start[m], t), [], {}
            arrive[m] = t; arr_order.append(m)
        elif tag == 3:
            _, t, b, fin, pk, by = r
            if t < last_t:
                return "time ran backwards", [], {}
            last_t = t
            if cur is not None and t > cur:
                was, cur = cur, None  # the Unbusy event stamped `was` has been handled
                if queue:
                    return "channel idle since %d but %s still queued at %d (stuck)" % (was, queue, t), [], {}
            if cur is None:
                if b or fin != 0:
                    return "sample at %d: channel should be idle (busy=%d finish=%d)" % (t, b, fin), [], {}
                if queue:
                    return "channel idle at %d with queued messages %s (stuck)" % (t, queue), [], {}
            elif t < cur:
                if not b or fin != cur:
                    return "sample at %d: channel should be busy until %d (busy=%d finish=%d)" % (t, cur, b, fin), [], {}
            else:  # t == cur: before or after the Unbusy event of this instant
                if b:
                    if fin != cur:
                        return "sample at %d: busy with finish %d, expected %d" % (t, fin, cur), [], {}
                else:
                    if fin != 0:
                        return "sample at %d: idle with finish %d" % (t, fin), [], {}
                    cur = None
                    if queue:
                        return "channel idle at %d with queued messages %s (stuck)" % (t, queue), [], {}
            if b:
                acc = sum(offers[x][1] for x in queue)
                if pk != len(queue) or by != acc:
                    return "sample at %d: queue shows %d packets / %d bytes, expected %d / %d" % (t, pk, by, len(queue), acc), [], {}
    # (accounting) every offer has exactly one fate, every transmitted message arrived exactly once, nothing is left over
    for m in range(n):
        if m not in fate:
            return "message %d was never offered (lost wake-up)" % m, [], {}
        if fate[m] in (0, 3):
            if m not in start:
                return "message %d was %s but never transmitted (stuck in the queue)" % (m, "queued" if fate[m] == 3 else "accepted"), [], {}
            if m not in arrive:
                return "message %d was transmitted but never delivered" % m, [], {}
        elif m in start or m in arrive:
            return "dropped message %d was transmitted/delivered" % m, [], {}
    if queue:
        return "messages %s left in the queue" % queue, [], {}
    # (order) with zero jitter deliveries preserve offer order
    inversions = []
    if jit == 0:
        pos = {m: i for i, m in enumerate(offer_order)}
        for a, b2 in zip(arr_order, arr_order[1:]):
            if arrive[a] > arrive[b2]:
                return "arrival times decrease", [], {}
        for i, a in enumerate(arr_order):
            for b2 in arr_order[i + 1:]:
                if pos[b2] < pos[a]:
                    if arrive[a] != arrive[b2]:
                        return "zero jitter: message %d (offered later) delivered at %d before %d at %d" % (a, arrive[a], b2, arrive[b2]), [], {}
                    inversions.append((a, b2))
    facts.update(arr_order=arr_order, arrive=arrive, start_order=start_order, tx=tx, p=p)
    return None, inversions, facts


def monitor(script, out):
    msg, inversions, facts = _analyse(script, out)
    if msg is not None:
        return msg
    if inversions:
        a, b = inversions[0]
        return ("zero jitter: message %d (offered after %d) is handed to the receiver before it (both at %d ns)" %
                (a, b, facts["arrive"][a]))
    return None


def mechanisms(script, out):
    p = parse(script)
    ms = set()
    offers = p["offers"]
    br = p["bitrate"]
    if br == 0: ms.add("bitrate_0")
    if br == UMAX: ms.add("bitrate_usize_max")
    if br >= 10 ** 12: ms.add("bitrate_huge")
    ms.add(["drop_policy", "queue_unbounded", "queue_bounded"][min(p["pol"], 2)])
    if p["pol"] == 2 and p["lim"] == 0: ms.add("queue_limit_0")
    if p["jit"]: ms.add("jitter")
    if p["lat"] == 0: ms.add("latency_0")
    for (t0, l0), (t1, _) in zip(offers, offers[1:]):
        g = t1 - t0
        x = tx_ns(br, l0)
        if g == 0: ms.add("burst")
        elif g < x: ms.add("gap_lt_tx")
        elif g == x: ms.add("gap_eq_tx")
        else: ms.add("gap_gt_tx")
    if any(tx_ns(br, l) == 0 for _, l in offers) and br != 0: ms.add("tx_rounds_to_0")
    try:
        msg, inv, f = _analyse(script, out)
    except Exception:
        return ms
    if not f:
        return ms
    fates = f["fates"].values()
    if 1 in fates: ms.add("dropped_busy")
    if 2 in fates: ms.add("dropped_full")
    if 3 in fates: ms.add("queued")
    if f["multi"]: ms.add("several_dequeues_in_one_unbusy")
    if f["zero_deq"]: ms.add("zero_tx_message_dequeued")
    if f["exact"]: ms.add("queue_filled_exactly")
    if f["off1"]: ms.add("queue_over_by_one")
    if f["at_unbusy"]: ms.add("offer_at_unbusy_instant_still_busy")
    if inv: ms.add("same_instant_reorder")
    if msg is None and p["jit"]:
        ao = f["arr_order"]
        so = [m for m in f["start_order"] if m in f["arrive"]]
        if ao != so: ms.add("jitter_reorders")
    return ms


def nontrivial(script, out):
    return len(mechanisms(script, out)) >= 3


# ----------------------------------------------------------------------------- generators
BITRATES = [0, 1, 8, 1000, 10 ** 9, 2 * 10 ** 12, UMAX]
LATS = [0, 0, 1, 1000, 10 ** 6]
JITS = [1, 2, 3, 10, 1000, 10 ** 6]


def gen_plain(rng):
    br = rng.choice(BITRATES) if rng.random() < 0.8 else rng.choice([3, 7, 12345, 64 * 8, 10 ** 6 + 1, 8 * 10 ** 9, 4 * 10 ** 12, 10 ** 15, 1 << 53, (1 << 62) - 1])
    sizes = rng.sample(SIZES, rng.randint(1, 3)) if rng.random() < 0.85 else [rng.randint(64, 3000) for _ in range(2)]
    if br >= 10 ** 12 and rng.random() < 0.7:
        sizes = [64, 1088] + sizes[:1]
    lat = rng.choice(LATS) if rng.random() < 0.8 else rng.randint(0, 5000)
    jit = 0 if rng.random() < 0.75 else rng.choice(JITS)
    r = rng.random()
    base = rng.choice(sizes)
    if r < 0.2: pol, lim = 0, 0
    elif r < 0.45: pol, lim = 1, 0
    else:
        pol = 2
        lim = rng.choice([0, base, 2 * base - 1, 2 * base, 3 * base, base + 64, rng.randint(0, 4 * base)])
    n = rng.randint(1, 14)
    t = rng.choice([0, 0, 1, 1000])
    offers = []
    busy_until = 0
    prev_tx = 0
    for _ in range(n):
        l = rng.choice(sizes)
        if offers:
            rem = max(0, busy_until - t)
            g = rng.choice([0, 0, 0, max(prev_tx - 1, 0), prev_tx, prev_tx + 1, max(rem - 1, 0), rem, rem + 1,
                            prev_tx + lat, 2 * prev_tx + 3, rng.randint(0, 2 * prev_tx + 10)])
            t += g
        x = tx_ns(br, l)
        if t >= busy_until:
            busy_until = t + x
        elif pol != 0:
            busy_until += x      # roughly: queued behind
        prev_tx = x
        offers.append((t, l))
    return build(rng.randint(0, 10 ** 6), br, lat, jit, pol, lim, offers)


def _impl_bin():
    verif = os.path.dirname(os.path.dirname(os.path.dirname(os.path.abspath(__file__))))
    h = os.environ.get("VERIF_HARNESS_DIR", os.path.join(verif, "harness"))
    return os.path.join(h, "target", "debug", IMPL)


def fill_oracles(scripts):
    """For scripts with jitter: run the implementation once and record the samples it drew
    (arrival - start - tx - latency, in transmission order) as the model's oracle."""
    idx = [i for i, s in enumerate(scripts) if s[4] != 0]
    if not idx or not os.path.exists(_impl_bin()):
        return scripts
    inp = "\n".join(" ".join(str(x) for x in scripts[i]) for i in idx) + "\n"
    try:
        res = subprocess.run([_impl_bin()], input=inp, stdout=subprocess.PIPE, stderr=subprocess.DEVNULL, text=True, timeout=600)
        lines = res.stdout.split("\n")
    except Exception:
        return scripts
    for i, line in zip(idx, lines):
        try:
            out = [int(x) for x in line.split()]
            tbl, recs, _ = walk(out)
        except Exception:
            continue
        p = parse(scripts[i])
        starts = [(r[1], r[2]) for r in recs if r[0] == 1]
        arr = {r[1]: r[2] for r in recs if r[0] == 2}
        orc = []
        for m, t in starts:
            if m in arr and m < len(p["offers"]):
                l = p["offers"][m][1]
                orc.append(max(0, arr[m] - t - tbl.get(l, 0) - p["lat"]))
            else:
                orc.append(0)
        scripts[i] = build(p["seed"], p["bitrate"], p["lat"], p["jit"], p["pol"], p["lim"], p["offers"], orc)
    return scripts


def gen(rng, n):
    scripts = [gen_plain(rng) for _ in range(n)]
    for s in fill_oracles(scripts):
        yield s


def exhaustive():
    """All sequences of <= 4 offers over gaps {0, tx-1, tx, tx+1} x 2 sizes x 3 policies x 2 latencies, for a
    bitrate where the small size's transmission time rounds to 0 and one where it does not."""
    out = []
    for br, big_tx in ((2 * 10 ** 12, 4), (8 * 10 ** 9, 1088)):
        gaps = [0, big_tx - 1, big_tx, big_tx + 1]
        for lat in (0, 1000):
            for pol, lim in ((0, 0), (1, 0), (2, 64 + 1088 - 1)):
                for k in range(1, 5):
                    for combo in itertools.product(itertools.product(gaps, (64, 1088)), repeat=k):
                        t = 0
                        offers = []
                        for i, (g, l) in enumerate(combo):
                            if i:
                                t += g
                            elif g != 0:
                                break          # the first gap is meaningless: enumerate it once
                            offers.append((t, l))
                        else:
                            out.append(build(1, br, lat, 0, pol, lim, offers))
    return out
