"""C07 — channels account for every message with the specified delay, busy and drop rules.

script (see coq/Channel/Multi.v `run`, harness/src/bin/chan.rs):
  seed nl (brk br lat jit pol lim mode){nl}  ntx (link len tx)*  norc (c j)*  (t c len)*
    nl in 1..3 links between two modules, channel 2i = forward, 2i+1 = reverse direction of link i; per link its metrics --
    bitrate = br (brk = 0) | usize::MAX (brk = 1), latency, jitter, pol 0 Drop | 1 Queue(None) | 2 Queue(Some lim) -- and its
    mode: 0 connected before the run with its own Channel::new(metrics), 1 with a clone of one shared template handle (metrics
    of the first mode-1 link), 2 connected at run time (inside the handler that first sends on it) with the live forward
    channel of link 0 as template (metrics of link 0), 3 | 4 connected before the run with a handle that has a history --
    taken with gate.channel() from a prior simulation (same metrics) that was stopped by a limit while transmitting (4: with
    messages queued behind) and then dropped completely; the handle is moved, not cloned, into connect;
    tx table: transmission time in ns per (link, message length) (the model's oracle for calculate_busy; computed
    here with the same IEEE-754 operations the code uses and re-reported by the implementation);
    oracle: the jitter samples of the seeded run as (channel, sample) in transmission order (model only; for jittered
    scripts the generator obtains them from a first run of the implementation);
    offers: message m = script position, total length max(64,len) bytes, `send`t at time t into channel c mod 2nl;
    consecutive offers with equal time and equal sending module (parity of c) are one burst (one handler invocation).
  probe script (nl = 0):  seed 0 brk br lat jit  ntx (len tx)*  nw (hi lo)*   -- ChannelMetrics::calculate_duration is called
    directly, for every length, with a generator whose every draw is the 64-bit word hi*2^32+lo; record 5 len hi lo j with
    j = duration - latency - tx (the model computes j exactly: top 53 bits of the word, f64 product, truncation).
output: 7 n (link len tx)* then records  1 c m t (transmission start) | 2 c m t (arrival) | 3 c t busy finish pk by (sample) |
        4 c m f (fate of a send: 0 started, 1 dropped/Drop, 2 dropped/queue full, 3 queued) | 13 (run() returned Err)
"""
import os, subprocess, itertools
from fractions import Fraction

ID = "C07"; MODEL = "chan"; IMPL = "chan"
COQ_PROP = "Properties/C07.v"; COQ_DIRS = ["Common", "Channel"]
COQ_MODULE = "Channel.Multi"; RUN_FN = "run"
THEOREMS = ["C07_account", "C07_account_none_twice", "C07_run_completes", "C07_idle_implies_queue_empty", "C07_delivery_time",
            "C07_started_delivered_or_in_flight", "C07_busy_span", "C07_unbusy_stamp", "C07_fifo_start", "C07_direct_start",
            "C07_fifo_order", "C07_zero_jitter_preserves_order", "C07_queue_limit", "C07_links_independent",
            "C07_multi_transfer", "C07_multi_channel_wf", "C07_new_instance_starts_idle", "C07_created_idle",
            "C07_multi_run_completes", "C07_run_over_cqueue_eq_run_over_spec", "C07_single_over_cqueue_eq_over_spec",
            "C07_multi_over_cqueue_eq_over_spec", "C07_account_cq", "C07_delivery_time_cq", "C07_busy_span_cq",
            "C07_fifo_order_cq", "C07_links_independent_cq", "C07_multi_run_completes_cq",
            "C07_jitter_below_bound_for_every_draw", "C07_no_jitter_no_offset"]
QUICK_N = 3000; THOROUGH_N = 200000
XCHECK_N = 40
CLAIM = dict(
    text="Machine-checked (Coq 8.16, axiom-free) for every transmission-time function tx : len -> ns, every latency, jitter and "
         "drop policy (Drop | Queue(None) | Queue(Some limit), limit 0 included), every script of send bursts (any times, sizes, "
         "bursts inside one handler) and every jitter oracle, at every event boundary of the channel's event loop: (account) the "
         "script's messages are, as a multiset, exactly delivered + dropped-busy + dropped-queue-full + queued + in flight + not yet "
         "offered, none twice, and the loop runs dry with everything delivered or dropped; (no message stuck) an idle channel has an "
         "empty queue, idle = no Unbusy event pending, busy = exactly one, stamped with the finish time; (delivery time) every "
         "delivery happens at start + tx(len) + latency + j with j the sample drawn for that transmission, j = 0 without jitter and "
         "j < jitter whenever the oracle's samples are -- and the draw itself, floor(fl(u*jitter_ns)) with u the top 53 bits of the "
         "generator's word, is below jitter for EVERY 64-bit word --, and every started transmission is delivered then or still in flight for that "
         "time; (busy span, in event order) a transmission with tx > 0 makes the channel busy until the Unbusy event stamped "
         "start + tx, in between every offer is dropped or queued and is_busy/transmission_finish_time read busy/that time, outside "
         "offers start at once; (FIFO) a queued message starts only as head of the queue, in the handler of the Unbusy event of that "
         "very instant, direct starts only with an empty queue; (zero jitter) deliveries in order are an initial piece of the accepted "
         "offers in offer order; (queue limit) acc_bytes = sum of queued lengths and a busy offer is queued iff acc + len <= limit; "
         "(independence of channel instances) with any number of channels on one event set, each with its own metrics and "
         "transmission-time function -- both directions of a link, several links built from one template handle, links connected at "
         "run time -- the instance, samples and log of channel c are those of the single-channel run with c's metrics on c's own part "
         "of the script, so all of the above holds per channel whatever the other channels are and carry; an instance comes into "
         "being on first use, idle whatever state its template is in; the shared loop runs dry within the runner's fuel for every "
         "script (the sum of the per-channel termination measures decreases with every event); (composition with C01) the same loop "
         "over the calendar-queue model (cq_new n t, add, fetch_next) computes exactly the same channel records, logs and output "
         "line for every n, t >= 1, by forward simulation with C01's relation R, so every statement above holds of the run over "
         "the calendar queue. "
         "The model (send_message, unbusy, drop handling, the Unbusy/Exit/wake-up events ordered by the two-list event-set "
         "specification that C01 proves the calendar queue refines) is tied to des on every run by differential execution against the "
         "real Sim/Channel API (two modules joined by 1..3 links, both sending and receiving, links built from own / shared / live "
         "template handles before or during the run, ChannelProbe, is_busy / "
         "transmission_finish_time / Debug queue size sampled in handlers), exact comparison incl. jittered seeded runs, plus a monitor "
         "stating C07 on the implementation's log alone. Pinned-code defects F5 (stuck queue), F15 (same-instant reorder with zero "
         "latency) and F18 (links built from one handle shared the reverse direction's channel) have exists-witnesses in coq/Refuted/C07.v and regression scripts in corpus/C07.",
    note="Trusted: Coq kernel; extraction (ExtrOcamlBasic) cross-checked in-Coq by vm_compute each run; harness and generator bound the "
         "tie to the code. calculate_busy (f64) and the rng are oracles of the model: tx enters as a per-script table that is recomputed "
         "with the same IEEE operations, echoed by the implementation and checked to be size*8/bitrate rounded to ns; jitter samples of "
         "jittered simulation runs are read off the implementation's own seeded run (range [0, jitter) asserted); calculate_duration "
         "itself is compared exactly under scripted generator words (F6 and its partial repairs). 'Busy exactly "
         "for the transmission time' is stated in event order (an offer or sample processed in the finish instant before the Unbusy "
         "event still sees the channel busy). A transmission time below 0.5 ns rounds to 0 and does not occupy the channel; with "
         "jitter > 0 deliveries may reorder; queued messages are not re-checked against the sender's state (not part of C07). The "
         "HandleMessageEvent following an exit in the same instant is folded into the Exit event. Both directions of a link share its "
         "template's metrics (Gate::connect takes one template; the model allows them to differ); module shutdown, several channels in a chain (C08) and u64/usize overflow "
         "are out of scope.",
    technique="Coq invariant proofs over a closed event loop on the C01 event-set specification (trace well-formedness predicate, "
              "count-based multiset accounting, timing and order invariants, termination measure; projection of the shared event set onto "
              "one channel's own event set as a stuttering simulation; forward simulation of the loop over the calendar queue by the loop "
              "over the event-set specification with C01's relation) + differential correspondence check "
              "+ refutation witnesses for the pinned variants",
    design="6/C07")
RULE = ("scripts from a structured generator: bitrate in {0,1,8,1e3,1e9,2e12,usize::MAX,random}, total sizes {64,65,1088,65600}, "
        "latency {0,1,1e3,1e6,random}, jitter 0 (75%) or {1,2,3,10,1e3,1e6} (the oracle is then read off a first run of the "
        "implementation), Drop | Queue(None) | Queue(Some 0|len|2len-1|3len|random); 40% one link one direction with 1..14 offers "
        "whose gaps are 0 (burst inside one handler), tx-1, tx, tx+1, the remaining busy time -1/0/+1, tx+latency or a large value; "
        "60% 1..3 links between two modules (each link with its own metrics in 55% of these; own Channel::new | clone of one shared "
        "template handle | connected at run time from the live forward channel of link 0, the template's metrics win | a handle "
        "with a history: gate.channel() of a prior simulation stopped by a limit mid-transmission, optionally with a backlog, and "
        "dropped, moved into connect -- alone or next to clones of a fresh handle) with such offer sequences on 2..4 channels merged by time (both directions "
        "of a link overlapping, the same direction of several template links overlapping, one handler sending into several "
        "channels, a run-time link first used while its template transmits); non-trivial = distinct script (sha1) hitting at "
        "least three targeted mechanisms; 6% probe scripts: ChannelMetrics::calculate_duration called directly under generators "
        "returning all-ones, zero, 2^63, alternating bits, the largest 53-bit draw and its neighbours and random words, for jitter 0, "
        "few ns, 10^k, {125,25,5}*10^a*2^b, 2^k-1/2^k/2^k+1 and random values up to 2^52")
TRUSTED = ["ChannelMetrics::calculate_busy enters the model as a per-script table (recomputed here with the same f64 operations, "
           "echoed by the implementation and compared; checked to be within rounding of len*8e9/bitrate)",
           "jitter samples of simulation runs enter the model as per-channel oracle lists, read off the implementation's own run; the draw "
           "itself (calculate_duration under a generator returning scripted 64-bit words) is modelled exactly -- top 53 bits of the word "
           "(rand 0.9 StandardUniform), f64 product with jitter_ns, truncation -- and compared exactly by probe scripts",
           "the queue size (packets, bytes) is observed through the channel's Debug output while busy; enqueue vs drop is inferred from it",
           "the HandleMessageEvent following a MessageExitingConnection in the same instant is folded into the Exit event of the model",
           "an instance of the model comes into being when a handler first uses it (dup of the live template, C07_created_idle); "
           "the harness connects run-time links inside the handler that first sends on them, other links before the run"]
ASSUMPTIONS = ["fewer than 65536 messages per script (MessageId is u16)", "times below 2^62 ns", "at most 16 channel instances (3 links used)", "jitter below 2^53 ns (as f64 exact)",
               "both directions of a link have the metrics of its template (Gate::connect takes one template); two modules, never shut "
               "down; receivers do not reply"]

HDR = 64
UMAX = (1 << 64) - 1
SIZES = [64, 65, 1088, 65600]


# ----------------------------------------------------------------------------- arithmetic of calculate_busy
def tx_ns(bitrate, length):
    """Duration::from_secs_f64((len*8) as f64 / bitrate as f64) in ns (round to nearest, ties to even)."""
    if bitrate == 0:
        return 0
    x = float(length * 8) / float(bitrate)
    fr = Fraction(x) * 10 ** 9
    n = fr.numerator // fr.denominator
    rem = fr - n
    if rem > Fraction(1, 2) or (rem == Fraction(1, 2) and n % 2 == 1):
        n += 1
    return n


def is_probe(script):
    return len(script) > 1 and script[1] == 0


def parse_probe(script):
    s = list(script) + [0] * max(0, 6 - len(script))
    i = 6
    k = s[i] if i < len(s) else 0
    tb = s[i + 1:i + 1 + k]; i += 1 + k
    k2 = s[i] if i < len(s) else 0
    wb = s[i + 1:i + 1 + k2]
    return dict(seed=s[0], bitrate=UMAX if s[2] == 1 else s[3], lat=s[4], jit=s[5],
                lens=[tb[j] for j in range(0, len(tb) - 1, 2)],
                words=[(wb[j], wb[j + 1]) for j in range(0, len(wb) - 1, 2)])


def build_probe(seed, bitrate, lat, jit, lens, words):
    brk, br = (1, 0) if bitrate == UMAX else (0, bitrate)
    tb = []
    for l in lens:
        tb += [l, tx_ns(bitrate, max(HDR, l))]
    wb = []
    for w in words:
        wb += [w >> 32, w & 0xFFFFFFFF]
    return [seed, 0, brk, br, lat, jit, len(tb)] + tb + [len(wb)] + wb


def monitor_probe(script, out):
    """the jitter part of calculate_duration is in [0, jitter) -- 0 without jitter -- for EVERY generator output"""
    p = parse_probe(script)
    if out is None or len(out) < 2 or out[0] != 7:
        return "malformed output"
    i = 2 + 2 * out[1]
    for j in range(2, i - 1, 2):
        l, t = max(out[j], HDR), out[j + 1]
        if p["bitrate"] == 0:
            if t != 0: return "bitrate 0 (unlimited) but calculate_busy(%d) = %d" % (l, t)
        else:
            exact = Fraction(l * 8 * 10 ** 9, p["bitrate"])
            if abs(t - exact) > Fraction(1, 2) + exact / (1 << 50):
                return "calculate_busy(%d B) = %d ns is not size*8/bitrate = %s ns rounded" % (l, t, float(exact))
    n = 0
    while i + 5 <= len(out):
        if out[i] != 5:
            return "malformed probe record"
        _, l, hi, lo, jv = out[i:i + 5]; i += 5; n += 1
        if p["jit"] == 0:
            if jv != 0:
                return "no jitter configured, yet calculate_duration adds %d ns (generator word %#x)" % (jv, (hi << 32) + lo)
        elif not (0 <= jv < p["jit"]):
            return ("calculate_duration: jitter %d ns is outside [0, %d) for the generator word %#x (len %d)" %
                    (jv, p["jit"], (hi << 32) + lo, l))
    if i != len(out) or n != len(p["lens"]) * len(p["words"]):
        return "probe answered %d of %d calls" % (n, len(p["lens"]) * len(p["words"]))
    return None


def parse(script):
    """-> dict(seed, nl, links[dict(bitrate,lat,jit,pol,lim,mode)], eff[metrics both instances of link i really get],
              modes, tbl{(link,len):tx}, oracle[(c,j)], offers[(t,c,len)])"""
    s = list(script) + [0] * max(0, 2 - len(script))
    nl = min(max(s[1], 1), 3)
    i = 2
    links = []
    for _ in range(nl):
        f = (s[i:i + 7] + [0] * 7)[:7]; i += 7
        links.append(dict(bitrate=UMAX if f[0] == 1 else f[1], lat=f[2], jit=f[3], pol=f[4], lim=f[5], mode=f[6]))
    first_shared = next((j for j, l in enumerate(links) if l["mode"] == 1), None)
    eff = []
    for j, l in enumerate(links):
        if l["mode"] == 1: eff.append(links[first_shared])
        elif l["mode"] == 2 and j != 0: eff.append(links[0])
        else: eff.append(l)
    modes = [l["mode"] for l in links]
    if modes[0] == 2:
        modes[0] = 0
    i = min(i, len(s))
    k = s[i] if i < len(s) else 0
    tb = s[i + 1:i + 1 + k]; i += 1 + k
    k2 = s[i] if i < len(s) else 0
    ob = s[i + 1:i + 1 + k2]; i += 1 + k2
    i = min(i, len(s))
    rest = s[i:]
    offers = [(rest[j], rest[j + 1] % (2 * nl), max(HDR, rest[j + 2])) for j in range(0, len(rest) - 2, 3)]
    tbl = {}
    for j in range(0, len(tb) - 2, 3):
        tbl.setdefault((tb[j], tb[j + 1]), tb[j + 2])
    orc = [(ob[j], ob[j + 1]) for j in range(0, len(ob) - 1, 2)]
    return dict(seed=s[0], nl=nl, links=links, eff=eff, modes=modes, tbl=tbl, oracle=orc, offers=offers, hdr_end=i)


def split(script):
    if is_probe(script):
        return list(script), []
    p = parse(script)
    hdr = list(script[:p["hdr_end"]])
    rest = list(script[p["hdr_end"]:])
    ops = [rest[j:j + 3] for j in range(0, len(rest) - 2, 3)]
    return hdr, ops


def join(hdr, ops):
    out = list(hdr)
    for o in ops:
        out += o
    return out


def build_links(seed, links, offers, oracle=()):
    """links: (bitrate, lat, jit, pol, lim, mode) per link; offers: (t, c, len); oracle: (c, j) pairs"""
    nl = len(links)
    first_shared = next((j for j, l in enumerate(links) if l[5] == 1), None)
    eff_br = []
    for j, l in enumerate(links):
        if l[5] == 1: eff_br.append(links[first_shared][0])
        elif l[5] == 2 and j != 0: eff_br.append(links[0][0])
        else: eff_br.append(l[0])
    keys = []
    for _, c, l in offers:
        key = ((c % (2 * nl)) // 2, max(HDR, l))
        if key not in keys:
            keys.append(key)
    tb = []
    for i, l in keys:
        tb += [i, l, tx_ns(eff_br[i], l)]
    s = [seed, nl]
    for br, lat, jit, pol, lim, mode in links:
        brk, brv = (1, 0) if br == UMAX else (0, br)
        s += [brk, brv, lat, jit, pol, lim, mode]
    ob = []
    for c, j in oracle:
        ob += [c, j]
    s += [len(tb)] + tb + [len(ob)] + ob
    for t, c, l in offers:
        s += [t, c, l]
    return s


def build(seed, bitrate, lat, jit, pol, lim, offers, oracle=(), modes=(0,)):
    """all links with the same metrics; offers: (t, len) for channel 0 or (t, c, len)"""
    offers = [o if len(o) == 3 else (o[0], 0, o[1]) for o in offers]
    return build_links(seed, [(bitrate, lat, jit, pol, lim, m) for m in modes], offers, oracle)


def pretty(script):
    if is_probe(script):
        p = parse_probe(script)
        return "probe calculate_duration: bitrate=%s latency=%dns jitter=%dns lengths=%s words=%s" % (
            "usize::MAX" if p["bitrate"] == UMAX else p["bitrate"], p["lat"], p["jit"], p["lens"],
            ["%#x" % ((h << 32) + l) for h, l in p["words"]])
    p = parse(script)
    mode = {0: "own", 1: "shared-template", 2: "run-time-from-live-link0", 3: "handle-busy-from-previous-simulation",
            4: "handle-busy-with-backlog-from-previous-simulation"}

    def link(l):
        pol = {0: "Drop", 1: "Queue(None)"}.get(l["pol"], "Queue(Some(%d))" % l["lim"])
        br = "usize::MAX" if l["bitrate"] == UMAX else str(l["bitrate"])
        return "[%s bitrate=%s latency=%dns jitter=%dns %s]" % (mode.get(l["mode"], "own"), br, l["lat"], l["jit"], pol)
    offs = "; ".join("send#%d(ch%d,len=%d)@%d" % (m, c, l, t) for m, (t, c, l) in enumerate(p["offers"]))
    return "seed=%d links=%s tx=%s oracle=%s: %s" % (p["seed"], " ".join(link(l) for l in p["links"]), p["tbl"], p["oracle"], offs)


def walk(out):
    """-> (tx table reported by the implementation, records, err flag)"""
    if out is None or len(out) < 2 or out[0] != 7:
        raise ValueError("no header")
    n = out[1]
    i = 2
    tbl = {}
    for _ in range(n):
        tbl.setdefault((out[i], out[i + 1]), out[i + 2]); i += 3
    recs = []
    err = False
    size = {1: 4, 2: 4, 3: 7, 4: 4}
    while i < len(out):
        if out[i] == 13 and i == len(out) - 1:
            err = True; break
        if out[i] == 9 and i == len(out) - 1:
            raise ValueError("events left pending")
        k = size.get(out[i])
        if k is None or i + k > len(out):
            raise ValueError("bad record at %d" % i)
        recs.append(out[i:i + k]); i += k
    return tbl, recs, err


# ----------------------------------------------------------------------------- the property, on the implementation's log
def _analyse(script, out):
    """Returns (error message or None, list of same-instant order inversions, facts for mechanisms)."""
    p = parse(script)
    try:
        tbl, recs, err = walk(out)
    except (ValueError, IndexError) as e:
        return "malformed output: %s" % e, [], {}
    if err:
        return "run() returned an error", [], {}
    # (0) the transmission time is size*8/bitrate (of the link's template) up to rounding to whole ns
    for (i, l), t in tbl.items():
        if i >= p["nl"]:
            continue
        br = p["eff"][i]["bitrate"]
        l = max(l, HDR)
        if br == 0:
            if t != 0:
                return "link %d: bitrate 0 (unlimited) but calculate_busy(%d) = %d" % (i, l, t), [], {}
        else:
            exact = Fraction(l * 8 * 10 ** 9, br)
            if abs(t - exact) > Fraction(1, 2) + exact / (1 << 50):
                return "link %d: calculate_busy(%d B) = %d ns is not size*8/bitrate = %s ns rounded" % (i, l, t, float(exact)), [], {}

    def txc(c):
        i = c // 2
        return lambda l: tbl[(i, l)] if (i, l) in tbl else tx_ns(p["eff"][i]["bitrate"], l)
    # every record carries the channel its message was sent into; time never runs backwards
    chan_of = {m: c for m, (t, c, l) in enumerate(p["offers"])}
    last = 0
    per = {c: [] for c in range(2 * p["nl"])}
    for r in recs:
        c = r[1]
        if c not in per:
            return "record for unknown channel %d" % c, [], {}
        if r[0] in (1, 2, 4):
            if r[2] not in chan_of:
                return "record for unknown message %d" % r[2], [], {}
            if chan_of[r[2]] != c:
                return ("message %d was sent into channel %d but is handled by the instance of channel %d "
                        "(two channels share one Channel instance, or a message changed links)" % (r[2], chan_of[r[2]], c)), [], {}
        t = r[3] if r[0] in (1, 2) else (r[2] if r[0] == 3 else last)
        if t < last:
            return "time ran backwards", [], {}
        last = t
        per[c].append([r[0]] + r[2:])
    # C07 for every channel instance on its own: what happens on the other channels must not matter
    inversions = []
    facts = dict(fates={}, starts={}, multi=0, zero_deq=0, exact=0, off1=0, at_unbusy=0, arrive={}, arr_order=[],
                 start_order=[], busy_spans={}, p=p, jitter_reorders=False)
    for c in sorted(per):
        offs = {m: (t, l) for m, (t, cc, l) in enumerate(p["offers"]) if cc == c}
        tx = txc(c)
        msg, inv, f = _chan(p["eff"][c // 2], tx, offs, per[c])
        if msg is not None:
            return "channel %d: %s" % (c, msg), [], {}
        inversions += inv
        for k in ("fates", "starts", "arrive"):
            facts[k].update(f[k])
        for k in ("multi", "zero_deq", "exact", "off1", "at_unbusy"):
            facts[k] += f[k]
        so = [m for m in f["start_order"] if m in f["arrive"]]
        if f["arr_order"] != so:
            facts["jitter_reorders"] = True
        facts["busy_spans"][c] = [(f["starts"][m], f["starts"][m] + tx(offs[m][1])) for m in f["start_order"]]
    return None, inversions, facts


def _chan(p, tx, offers, recs):
    """C07 on the records of one channel instance (tags without the channel field) with metrics p; offers: id -> (time, len)."""
    lat, jit, pol, lim = p["lat"], p["jit"], p["pol"], p["lim"]
    fate = {}; start = {}; arrive = {}; start_order = []; arr_order = []; offer_order = []
    queue = []            # queued, not yet started (ids, FIFO)
    cur = None            # finish time of the transmission the channel is (or may still be) busy with
    facts = dict(fates=fate, starts=start, multi=0, zero_deq=0, exact=0, off1=0, at_unbusy=0, cur_at_offer={})
    last_t = 0
    last_start = None     # (id, t) of the latest transmission start
    pending_send = None   # message whose `1` record appeared and whose fate record must follow (direct start)
    for r in recs:
        tag = r[0]
        if tag == 1:
            _, m, t = r
            if m not in offers:
                return "transmission of unknown message %d" % m, [], {}
            if m in start:
                return "message %d transmitted twice" % m, [], {}
            if t < last_t:
                return "time ran backwards", [], {}
            last_t = t
            l = offers[m][1]
            if cur is not None and t < cur:
                return "message %d starts at %d while the channel is busy until %d" % (m, t, cur), [], {}
            if m in fate:
                # a queued message: FIFO, and exactly when the channel became idle
                if fate[m] != 3:
                    return "message %d with fate %d was transmitted later" % (m, fate[m]), [], {}
                if not queue or queue[0] != m:
                    return "queued message %d starts before earlier queued %s (FIFO violated)" % (m, queue[:1]), [], {}
                queue.pop(0)
                pm, pt = last_start
                if t != pt + tx(offers[pm][1]):
                    return ("queued message %d starts at %d, but the channel became idle at %d" %
                            (m, t, pt + tx(offers[pm][1]))), [], {}
                if tx(offers[pm][1]) == 0:
                    facts["multi"] += 1
                if tx(l) == 0:
                    facts["zero_deq"] += 1
            else:
                if queue:
                    return "message %d is transmitted at once although %s are queued (overtaking)" % (m, queue), [], {}
                if t != offers[m][0]:
                    return "message %d offered at %d starts at %d" % (m, offers[m][0], t), [], {}
                pending_send = m
            start[m] = t; start_order.append(m); last_start = (m, t)
            cur = t + tx(l) if tx(l) != 0 else None
        elif tag == 4:
            _, m, f = r
            if m not in offers or m in fate:
                return "message %d offered twice or unknown" % m, [], {}
            t = offers[m][0]
            l = offers[m][1]
            fate[m] = f; offer_order.append(m)
            if f == 0:
                if pending_send != m:
                    return "send of %d reported as started without a transmission" % m, [], {}
                pending_send = None
                continue
            if pending_send is not None:
                return "transmission of %d started during the send of %d" % (pending_send, m), [], {}
            # refused or queued: only a busy channel does that, busy = within [start, start + tx] in event order
            if cur is None or t > cur:
                return "message %d offered at %d to an idle channel was %s" % (m, t, "queued" if f == 3 else "dropped"), [], {}
            if t == cur:
                facts["at_unbusy"] += 1
            acc = sum(offers[x][1] for x in queue)
            if pol == 0:
                if f != 1:
                    return "Drop policy but busy-offer of %d had fate %d" % (m, f), [], {}
            else:
                fits = True if pol == 1 else acc + l <= lim
                if fits and f != 3:
                    return "message %d (len %d) fits the queue (%d queued bytes, limit %s) but was dropped" % (
                        m, l, acc, "none" if pol == 1 else lim), [], {}
                if not fits and f != 2:
                    return "message %d (len %d) exceeds the queue limit %d (%d queued bytes) but fate = %d" % (m, l, lim, acc, f), [], {}
                if pol == 2 and acc + l == lim:
                    facts["exact"] += 1
                if pol == 2 and acc + l == lim + 1:
                    facts["off1"] += 1
                if f == 3:
                    queue.append(m)
        elif tag == 2:
            _, m, t = r
            if m not in offers or m not in start:
                return "message %d delivered without having been transmitted" % m, [], {}
            if m in arrive:
                return "message %d delivered twice" % m, [], {}
            if t < last_t:
                return "time ran backwards", [], {}
            last_t = t
            base = start[m] + tx(offers[m][1]) + lat
            j = t - base
            if jit == 0 and j != 0:
                return "message %d started at %d arrives at %d, expected %d (start + tx + latency)" % (m, start[m], t, base), [], {}
            if jit != 0 and not (0 <= j < jit):
                return "message %d: jitter %d outside [0,%d) (start %d, arrival %d)" % (m, j, jit, start[m], t), [], {}
            arrive[m] = t; arr_order.append(m)
        elif tag == 3:
            _, t, b, fin, pk, by = r
            if t < last_t:
                return "time ran backwards", [], {}
            last_t = t
            if cur is not None and t > cur:
                was, cur = cur, None  # the Unbusy event stamped `was` has been handled
                if queue:
                    return "channel idle since %d but %s still queued at %d (stuck)" % (was, queue, t), [], {}
            if cur is None:
                if b or fin != 0:
                    return "sample at %d: channel should be idle (busy=%d finish=%d)" % (t, b, fin), [], {}
                if queue:
                    return "channel idle at %d with queued messages %s (stuck)" % (t, queue), [], {}
            elif t < cur:
                if not b or fin != cur:
                    return "sample at %d: channel should be busy until %d (busy=%d finish=%d)" % (t, cur, b, fin), [], {}
            else:  # t == cur: before or after the Unbusy event of this instant
                if b:
                    if fin != cur:
                        return "sample at %d: busy with finish %d, expected %d" % (t, fin, cur), [], {}
                else:
                    if fin != 0:
                        return "sample at %d: idle with finish %d" % (t, fin), [], {}
                    cur = None
                    if queue:
                        return "channel idle at %d with queued messages %s (stuck)" % (t, queue), [], {}
            if b:
                acc = sum(offers[x][1] for x in queue)
                if pk != len(queue) or by != acc:
                    return "sample at %d: queue shows %d packets / %d bytes, expected %d / %d" % (t, pk, by, len(queue), acc), [], {}
    # (accounting) every offer has exactly one fate, every transmitted message arrived exactly once, nothing is left over
    for m in sorted(offers):
        if m not in fate:
            return "message %d was never offered (lost wake-up)" % m, [], {}
        if fate[m] in (0, 3):
            if m not in start:
                return "message %d was %s but never transmitted (stuck in the queue)" % (m, "queued" if fate[m] == 3 else "accepted"), [], {}
            if m not in arrive:
                return "message %d was transmitted but never delivered" % m, [], {}
        elif m in start or m in arrive:
            return "dropped message %d was transmitted/delivered" % m, [], {}
    if queue:
        return "messages %s left in the queue" % queue, [], {}
    # (order) with zero jitter deliveries preserve offer order
    inversions = []
    if jit == 0:
        pos = {m: i for i, m in enumerate(offer_order)}
        for a, b2 in zip(arr_order, arr_order[1:]):
            if arrive[a] > arrive[b2]:
                return "arrival times decrease", [], {}
        for i, a in enumerate(arr_order):
            for b2 in arr_order[i + 1:]:
                if pos[b2] < pos[a]:
                    if arrive[a] != arrive[b2]:
                        return "zero jitter: message %d (offered later) delivered at %d before %d at %d" % (a, arrive[a], b2, arrive[b2]), [], {}
                    inversions.append((a, b2))
    facts.update(arr_order=arr_order, arrive=arrive, start_order=start_order)
    return None, inversions, facts


def monitor(script, out):
    if is_probe(script):
        return monitor_probe(script, out)
    msg, inversions, facts = _analyse(script, out)
    if msg is not None:
        return msg
    if inversions:
        a, b = inversions[0]
        return ("zero jitter: message %d (offered after %d) is handed to the receiver before it (both at %d ns)" %
                (a, b, facts["arrive"][a]))
    return None


def mechanisms(script, out):
    if is_probe(script):
        p = parse_probe(script)
        ms = {"probe_calculate_duration"}
        J = p["jit"]
        if J == 0: ms.add("probe_no_jitter")
        elif J < 64: ms.add("probe_jitter_few_ns")
        if J and J & (J - 1) == 0: ms.add("probe_jitter_power_of_two")
        if J and (J + 1) & J == 0 or J and ((J - 1) & (J - 2) == 0 and J > 2): ms.add("probe_jitter_next_to_power_of_two")
        if J and str(J).rstrip("0") in ("1", "125", "25", "5"): ms.add("probe_jitter_decimal_family")
        ws = {(h << 32) + l for h, l in p["words"]}
        if (1 << 64) - 1 in ws: ms.add("probe_word_all_ones")
        if 0 in ws: ms.add("probe_word_zero")
        if any(w >> 11 == (1 << 53) - 1 for w in ws): ms.add("probe_largest_draw")
        return ms
    p = parse(script)
    ms = set()
    offers = p["offers"]
    used = sorted({c for _, c, _ in offers})
    for c in used:
        e = p["eff"][c // 2]
        br = e["bitrate"]
        if br == 0: ms.add("bitrate_0")
        if br == UMAX: ms.add("bitrate_usize_max")
        if br >= 10 ** 12: ms.add("bitrate_huge")
        ms.add(["drop_policy", "queue_unbounded", "queue_bounded"][min(e["pol"], 2)])
        if e["pol"] == 2 and e["lim"] == 0: ms.add("queue_limit_0")
        if e["jit"]: ms.add("jitter")
        if e["lat"] == 0: ms.add("latency_0")
        mine = sorted((t, l) for t, cc, l in offers if cc == c)
        for (t0, l0), (t1, _) in zip(mine, mine[1:]):
            g = t1 - t0
            x = tx_ns(br, l0)
            if g == 0: ms.add("burst")
            elif g < x: ms.add("gap_lt_tx")
            elif g == x: ms.add("gap_eq_tx")
            else: ms.add("gap_gt_tx")
        if br != 0 and any(tx_ns(br, l) == 0 for _, cc, l in offers if cc == c): ms.add("tx_rounds_to_0")
    def key(l): return (l["bitrate"], l["lat"], l["jit"], l["pol"], l["lim"])
    if len({key(p["eff"][c // 2]) for c in used}) > 1: ms.add("links_with_different_metrics")
    if len(used) > 1: ms.add("several_channels")
    if any(c % 2 for c in used) and any(c % 2 == 0 for c in used): ms.add("both_modules_send")
    for (t0, c0, _), (t1, c1, _) in zip(offers, offers[1:]):
        if t0 == t1 and c0 != c1 and c0 % 2 == c1 % 2: ms.add("one_handler_sends_into_several_channels")
    runlen = best = 0
    for i, (t0, c0, _) in enumerate(offers):
        runlen = runlen + 1 if i and offers[i - 1][0] == t0 and offers[i - 1][1] % 2 == c0 % 2 else 1
        best = max(best, runlen)
    if best >= 24: ms.add("one_handler_buffers_many_events")
    links_used = {c // 2 for c in used}
    if sum(1 for i in links_used if p["modes"][i] == 1) >= 2: ms.add("several_links_from_one_template")
    if any(p["modes"][i] == 2 for i in links_used): ms.add("link_connected_at_run_time")
    for i in links_used:
        e = p["eff"][i]
        if p["modes"][i] in (3, 4) and tx_ns(e["bitrate"], HDR) >= 1:
            ms.add("template_handle_busy_from_previous_simulation")
            if p["modes"][i] == 4 and (e["pol"] == 1 or (e["pol"] == 2 and e["lim"] >= HDR)):
                ms.add("template_handle_busy_with_backlog_from_previous_simulation")
            if any(p["modes"][j] == 1 for j in links_used): ms.add("history_template_next_to_clones_of_a_fresh_handle")
            if any(c // 2 == i and c % 2 == 1 for c in used): ms.add("reverse_direction_of_history_template_link_used")
    try:
        msg, inv, f = _analyse(script, out)
    except Exception:
        return ms
    if not f:
        return ms
    fates = f["fates"].values()
    if 1 in fates: ms.add("dropped_busy")
    if 2 in fates: ms.add("dropped_full")
    if 3 in fates: ms.add("queued")
    if f["multi"]: ms.add("several_dequeues_in_one_unbusy")
    if f["zero_deq"]: ms.add("zero_tx_message_dequeued")
    if f["exact"]: ms.add("queue_filled_exactly")
    if f["off1"]: ms.add("queue_over_by_one")
    if f["at_unbusy"]: ms.add("offer_at_unbusy_instant_still_busy")
    if inv: ms.add("same_instant_reorder")
    if f["jitter_reorders"]: ms.add("jitter_reorders")
    sp = f["busy_spans"]

    def overlap(a, b):
        return any(x0 < y1 and y0 < x1 for x0, x1 in sp.get(a, []) for y0, y1 in sp.get(b, []))
    for i in range(p["nl"]):
        if overlap(2 * i, 2 * i + 1): ms.add("both_directions_of_a_link_busy_at_once")
    shared = [i for i in range(p["nl"]) if p["modes"][i] == 1]
    for i in shared:
        for j in shared:
            if i < j and (overlap(2 * i + 1, 2 * j + 1) or overlap(2 * i, 2 * j)): ms.add("same_direction_of_two_template_links_busy_at_once")
    for i in range(1, p["nl"]):
        if p["modes"][i] == 2:
            first = min([t for t, c, _ in offers if c // 2 == i], default=None)
            if first is not None and any(x0 <= first < x1 for x0, x1 in sp.get(0, [])):
                ms.add("run_time_connect_while_template_transmits")
    return ms


def nontrivial(script, out):
    return len(mechanisms(script, out)) >= 3


# ----------------------------------------------------------------------------- generators
BITRATES = [0, 1, 8, 1000, 10 ** 9, 2 * 10 ** 12, UMAX]
LATS = [0, 0, 1, 1000, 10 ** 6]
JITS = [1, 2, 3, 10, 1000, 10 ** 6]


def gen_chan(rng, br, sizes, lat, pol, n, t):
    """offers (t, len) for one channel: gaps chosen relative to the transmission times"""
    offers = []
    busy_until = 0
    prev_tx = 0
    for _ in range(n):
        l = rng.choice(sizes)
        if offers:
            rem = max(0, busy_until - t)
            g = rng.choice([0, 0, 0, max(prev_tx - 1, 0), prev_tx, prev_tx + 1, max(rem - 1, 0), rem, rem + 1,
                            prev_tx + lat, 2 * prev_tx + 3, rng.randint(0, 2 * prev_tx + 10)])
            t += g
        x = tx_ns(br, l)
        if t >= busy_until:
            busy_until = t + x
        elif pol != 0:
            busy_until += x      # roughly: queued behind
        prev_tx = x
        offers.append((t, l))
    return offers


def rand_metrics(rng):
    br = rng.choice(BITRATES) if rng.random() < 0.8 else rng.choice([3, 7, 12345, 64 * 8, 10 ** 6 + 1, 8 * 10 ** 9, 4 * 10 ** 12, 10 ** 15, 1 << 53, (1 << 62) - 1])
    sizes = rng.sample(SIZES, rng.randint(1, 3)) if rng.random() < 0.85 else [rng.randint(64, 3000) for _ in range(2)]
    if br >= 10 ** 12 and rng.random() < 0.7:
        sizes = [64, 1088] + sizes[:1]
    lat = rng.choice(LATS) if rng.random() < 0.8 else rng.randint(0, 5000)
    jit = 0 if rng.random() < 0.75 else rng.choice(JITS)
    r = rng.random()
    base = rng.choice(sizes)
    if r < 0.2: pol, lim = 0, 0
    elif r < 0.45: pol, lim = 1, 0
    else:
        pol = 2
        lim = rng.choice([0, base, 2 * base - 1, 2 * base, 3 * base, base + 64, rng.randint(0, 4 * base)])
    return br, sizes, lat, jit, pol, lim


EXTREME_WORDS = [(1 << 64) - 1, 0, 1 << 63, 0xAAAAAAAAAAAAAAAA, 0x5555555555555555, ((1 << 53) - 1) << 11, 1 << 11,
                 (1 << 63) - 1, ((1 << 53) - 2) << 11, (1 << 64) - (1 << 32), (1 << 32) - 1]


def gen_probe(rng):
    """calculate_duration under generators with extreme outputs, for jitter values of several families"""
    k = rng.randint(0, 52)
    fam = rng.random()
    if fam < 0.08: jit = 0
    elif fam < 0.25: jit = rng.choice([1, 2, 3, 5, 7, 9, 11, 41, 43, 63])
    elif fam < 0.45: jit = 10 ** rng.randint(0, 15)
    elif fam < 0.65: jit = rng.choice([125, 25, 5]) * 10 ** rng.randint(0, 9) * 2 ** rng.randint(0, 6)
    elif fam < 0.85: jit = max(1, (1 << k) + rng.choice([-1, 0, 1]))
    else: jit = rng.randint(1, 1 << rng.randint(1, 52))
    br = rng.choice(BITRATES)
    lens = rng.sample(SIZES, rng.randint(1, 2))
    words = list(EXTREME_WORDS) + [rng.getrandbits(64) for _ in range(4)] + [(((1 << 53) - 1 - rng.randint(0, 1 << rng.randint(0, 40))) << 11) | rng.getrandbits(11) for _ in range(3)]
    return build_probe(rng.randint(0, 10 ** 6), br, rng.choice(LATS), jit, lens, words)


def gen_plain(rng):
    if rng.random() < 0.06:
        return gen_probe(rng)
    br, sizes, lat, jit, pol, lim = rand_metrics(rng)
    t0 = rng.choice([0, 0, 1, 1000])
    r = rng.random()
    if r < 0.04:
        # one handler buffers many events with equal and with decreasing timestamps: zero-time messages start at once
        # (exits stamped now + latency), a long one then occupies the channel (exit scheduled before its earlier unbusy)
        br = rng.choice([2 * 10 ** 12, 4 * 10 ** 12, 0])
        nl = rng.choice([2, 3, 3])
        w = rng.choice([0, 1])
        offers = []
        for i in range(nl):
            offers += [(t0, 2 * i + w, 64)] * rng.randint(6, 16) + [(t0, 2 * i + w, 1088)] + [(t0, 2 * i + w, 64)] * rng.randint(0, 3)
        if rng.random() < 0.5:
            rng.shuffle(offers)
        return build(rng.randint(0, 10 ** 6), br, rng.choice([0, 1, 1000]), 0, rng.choice([0, 1, 1]), 0, offers,
                     modes=tuple(rng.choice([0, 1]) for _ in range(nl)))
    if r < 0.4:
        # one link, one direction
        offers = [(t, 0, l) for t, l in gen_chan(rng, br, sizes, lat, pol, rng.randint(1, 14), t0)]
        c0 = rng.choice([0, 0, 1])
        return build(rng.randint(0, 10 ** 6), br, lat, jit, pol, lim, [(t, c0, l) for t, _, l in offers],
                     modes=(rng.choice([0, 0, 1, 3, 4]),))
    nl = rng.choice([1, 2, 2, 3])
    kind = rng.random()
    if kind < 0.3: modes = [0] * nl
    elif kind < 0.6: modes = [1] * nl
    elif kind < 0.8: modes = [0] + [2] * (nl - 1)
    elif kind < 0.9: modes = [rng.choice([0, 1, 3, 4])] + [rng.choice([0, 1, 2, 3, 4]) for _ in range(nl - 1)]
    else:
        modes = [1] * nl                      # a template with a history next to clones of a fresh handle
        modes[rng.randrange(nl)] = rng.choice([3, 4])
    # every link carries its own metrics in the script (what its instances get is decided by its template)
    links = [(br, lat, jit, pol, lim, modes[0])]
    differ = rng.random() < 0.55
    for i in range(1, nl):
        if differ:
            b2, _, l2, j2, p2, m2 = rand_metrics(rng)
            if rng.random() < 0.5: b2 = br          # same speed, other latency/policy
            links.append((b2, l2, j2 if jit else 0, p2, m2, modes[i]))
        else:
            links.append((br, lat, jit, pol, lim, modes[i]))
    first_shared = next((j for j, l in enumerate(links) if l[5] == 1), None)
    eff = [links[first_shared] if l[5] == 1 else (links[0] if l[5] == 2 and j else l) for j, l in enumerate(links)]
    chans = rng.sample(range(2 * nl), rng.randint(2, min(2 * nl, 4))) if nl > 1 else [0, 1]
    if rng.random() < 0.5 and nl > 1:
        # the same direction of several links (reverse: the instances a shared handle used to alias)
        d = rng.choice([0, 1, 1])
        chans = [2 * i + d for i in range(nl)] + ([rng.randrange(2 * nl)] if rng.random() < 0.3 else [])
        chans = list(dict.fromkeys(chans))
    if 2 in modes and 0 not in chans and rng.random() < 0.8:
        chans = [0] + chans        # the template link should be transmitting when a run-time link is connected
    per = max(1, 12 // len(chans))
    merged = []
    for c in chans:
        e = eff[c // 2]
        start = t0 + rng.choice([0, 0, 1, tx_ns(e[0], sizes[0]) // 2, tx_ns(e[0], sizes[0])])
        if tx_ns(e[0], max(sizes)) > 10 ** 13:
            start = t0                          # keep horizons of slow links apart from fast ones small
        for t, l in gen_chan(rng, e[0], sizes, e[1], e[3], rng.randint(1, per + 1), start):
            merged.append((t, rng.random(), c, l))
    merged.sort(key=lambda o: (o[0], o[2] % 2 if rng.random() < 0.5 else o[1]))
    merged.sort(key=lambda o: o[0])
    offers = [(t, c, l) for t, _, c, l in merged]
    return build_links(rng.randint(0, 10 ** 6), links, offers)


def _impl_bin():
    verif = os.path.dirname(os.path.dirname(os.path.dirname(os.path.abspath(__file__))))
    h = os.environ.get("VERIF_HARNESS_DIR", os.path.join(verif, "harness"))
    return os.path.join(h, "target", "debug", IMPL)


def fill_oracles(scripts):
    """For scripts with jitter: run the implementation once and record the samples it drew
    (arrival - start - tx - latency, per channel in transmission order) as the model's oracle."""
    parsed = {i: parse(s) for i, s in enumerate(scripts) if not is_probe(s)}
    idx = [i for i in parsed if any(l["jit"] for l in parsed[i]["eff"])]
    if not idx or not os.path.exists(_impl_bin()):
        return scripts
    inp = "\n".join(" ".join(str(x) for x in scripts[i]) for i in idx) + "\n"
    try:
        res = subprocess.run([_impl_bin()], input=inp, stdout=subprocess.PIPE, stderr=subprocess.DEVNULL, text=True, timeout=600)
        lines = res.stdout.split("\n")
    except Exception:
        return scripts
    for i, line in zip(idx, lines):
        try:
            out = [int(x) for x in line.split()]
            tbl, recs, _ = walk(out)
        except Exception:
            continue
        p = parsed[i]
        starts = [(r[1], r[2], r[3]) for r in recs if r[0] == 1]
        arr = {r[2]: r[3] for r in recs if r[0] == 2}
        orc = []
        for c, m, t in starts:
            if c // 2 >= p["nl"] or not p["eff"][c // 2]["jit"]:
                continue                       # no sample is drawn without jitter
            if m in arr and m < len(p["offers"]):
                l = p["offers"][m][2]
                orc.append((c, max(0, arr[m] - t - tbl.get((c // 2, l), 0) - p["eff"][c // 2]["lat"])))
            else:
                orc.append((c, 0))
        links = [(l["bitrate"], l["lat"], l["jit"], l["pol"], l["lim"], l["mode"]) for l in p["links"]]
        scripts[i] = build_links(p["seed"], links, p["offers"], orc)
    return scripts


def gen(rng, n):
    scripts = [gen_plain(rng) for _ in range(n)]
    for s in fill_oracles(scripts):
        yield s


def exhaustive():
    """(1) one channel: all sequences of <= 4 offers over gaps {0, tx-1, tx, tx+1} x 2 sizes x 3 policies x 2 latencies, for a
    bitrate where the small size's transmission time rounds to 0 and one where it does not; (2) two channels (both directions
    of one link, and the reverse directions of two links built from one template): all sequences of <= 4 offers over
    2 channels x gaps {0, tx/2, tx} x 3 policies."""
    out = []
    for br, big_tx in ((2 * 10 ** 12, 4), (8 * 10 ** 9, 1088)):
        gaps = [0, big_tx - 1, big_tx, big_tx + 1]
        for lat in (0, 1000):
            for pol, lim in ((0, 0), (1, 0), (2, 64 + 1088 - 1)):
                for k in range(1, 5):
                    for combo in itertools.product(itertools.product(gaps, (64, 1088)), repeat=k):
                        t = 0
                        offers = []
                        for i, (g, l) in enumerate(combo):
                            if i:
                                t += g
                            elif g != 0:
                                break          # the first gap is meaningless: enumerate it once
                            offers.append((t, l))
                        else:
                            out.append(build(1, br, lat, 0, pol, lim, offers))
    br, x = 8 * 10 ** 9, 1088
    for modes, pair in (((0,), (0, 1)), ((1, 1), (1, 3)), ((0, 2), (0, 2))):
        for pol, lim in ((0, 0), (1, 0), (2, 1088)):
            for k in range(1, 5):
                for combo in itertools.product(itertools.product((0, x // 2, x), pair), repeat=k):
                    t = 0
                    offers = []
                    for i, (g, c) in enumerate(combo):
                        if i:
                            t += g
                        elif g != 0:
                            break
                        offers.append((t, c, 1088))
                    else:
                        out.append(build(1, br, 1000, 0, pol, lim, offers, modes=modes))
    return out
