"""C15 — calendar-queue memory is safe and every payload is dropped exactly once.

Script kinds (first number; see coq/Alloc/Model.v `run`, harness/src/bin/alloc.rs):
  1 page nsz nal op*     the page allocator driven directly (CQueueLLAllocatorInner::with_page_size(page));
                         op = 1 size align (allocate) | 2 k (deallocate k-th live block) | 3 (dump free list + live blocks)
  2 ptype hasdrop page nsz nal nsize nalign n t op*
                         the public CQueue<P> API with payload type `ptype`; op = 1 dt (add at time()+dt) | 2 k (cancel) | 3 (fetch);
                         the queue is dropped at the end of the script with whatever is pending
Addresses are printed as (page index, offset) relative to the pages the run acquired.
"""
import itertools, os, subprocess

ID = "C15"; MODEL = "alloc"; IMPL = "alloc"
COQ_PROP = "Properties/C15.v"; COQ_DIRS = ["Common", "CQueue", "Alloc"]
COQ_MODULE = "Alloc.Model"; RUN_FN = "run"
THEOREMS = ["C15_invariant_reachable", "C15_live_disjoint", "C15_aligned", "C15_inside_owned_page",
            "C15_free_list_disjoint_from_live", "C15_reuse_only_after_free", "C15_alloc_total", "C15_dealloc_total",
            "C15_history_total", "C15_allocated_mem_formula", "C15_instance",
            "C15_payload_dropped_exactly_once", "C15_payload_returned_as_inserted"]
QUICK_N = 1500; THOROUGH_N = 60000
XCHECK_N = 30
RULE = ("55% allocator scripts (page 64..4096; 20-400 ops; sizes 0..page and beyond, aligns 1..page; phases fill / free-every-other / "
        "free-all-and-refill / random so that many pages are acquired and freed blocks are recycled; the excluded band "
        "page-16 < adjusted size < page is avoided), 3% band scripts (one request inside the band: the harness watchdog and the "
        "model's fuel both stop after 4 added pages), 42% CQueue<P> scripts over 9 payload types (1 B .. 2 KiB, align 1..16, "
        "with/without Drop) with add/cancel/fetch histories and a final drop with events pending; non-trivial = distinct script "
        "(sha1) hitting at least two targeted mechanisms")
TRUSTED = ["page base addresses are an oracle: both runners print (page index, offset); the harness checks that every page the "
           "system allocator returned is page-aligned and disjoint from the others (theorems assume exactly that)",
           "the raw-pointer code of boxed.rs/linked_list.rs is exercised, not modelled: the model predicts which node address each "
           "add/cancel/fetch/drop allocates or releases; Miri (thorough tier, supporting evidence) checks the accesses themselves",
           "usize overflow of addresses (checked_add) is outside the model"]
ASSUMPTIONS = ["page sizes are powers of two >= 64; requested alignment is a power of two <= page size",
               "adjusted node size s satisfies s > page (refused) or s = page or page - s >= size_of::<ListNode>() = 16: for "
               "page-16 < s < page find_region adds pages forever (recorded observation, outside the property's quantifier)",
               "fewer than 256 adds per script for the 1-byte payload types (the id is the payload)"]
CLAIM = dict(
    text="Machine-checked (Coq 8.16, axiom-free) for the faithful model of des-cqueue's page allocator, for every page size that "
         "is a power of two, every node size/alignment (size_of/align_of ListNode: 16/8), every oracle of page-aligned pairwise "
         "disjoint page addresses and every allocate/deallocate history whose layouts have a power-of-two alignment <= page and "
         "an adjusted size s outside the band page-16 < s < page: live allocations are pairwise disjoint, aligned to the "
         "requested and to the node alignment, inside one owned page, disjoint from all free-list regions (which are pairwise "
         "disjoint); a block overlapping an earlier one is handed out only after that one was released; allocate terminates "
         "(fuel 1 suffices) without panic adding at most one page; allocated_mem = sum of live sizes. Payload half: cited from "
         "C01's accounting theorem - every payload moved in is exactly once in {returned by fetch, dropped by cancel, dropped "
         "with the queue} and is returned as inserted. Tied to des-cqueue on every run: the extracted model predicts every "
         "address (page index, offset), the free-list length, allocated_mem and full dumps for scripted allocate/deallocate "
         "sequences on page sizes 64..4096, and every node address allocated/released by CQueue<P> add/cancel/fetch/drop for 9 "
         "payload types (1 B..2 KiB, align <= 16, with/without Drop) with destructor logs and content checks; a monitor states "
         "C15 on the implementation's output alone (shadow map: overlap, alignment, in-page, release of live blocks only; "
         "exactly-once drop accounting; contents intact).",
    note="Trusted: Coq kernel; extraction (ExtrOcamlBasic) cross-checked in-Coq by vm_compute each run; harness/generators bound "
         "the tie to the code; system allocator returns page-aligned disjoint pages (checked by the harness at run time); "
         "pointer dereferences of boxed.rs/linked_list.rs are exercised (and run under Miri as supporting evidence), not proved. "
         "Excluded band page-16 < s < page: find_region recurses forever (Refuted/C15.v witness, replayed on the real allocator "
         "by the band scripts under a watchdog); also excluded: zero-size layouts with alignment > page. Miri (thorough "
         "tier, evidence_extra/C15_miri.json, aliasing checks off) finds no out-of-bounds/use-after-free/misaligned/uninitialised "
         "access or leak on 7 scripts; with Stacked or Tree Borrows enabled it flags CQueue::new handing each bucket list "
         "its own &mut-derived raw handle to the one allocator (experimental aliasing rules; observation outside C15).",
    technique="Coq invariant proof by induction over reachable allocator states (pairwise-disjointness up to permutation, "
              "page-oracle hypotheses) + trace theorem for reuse-after-free + differential correspondence check with exact "
              "address prediction",
    design="6/C15")

VERIF = os.path.dirname(os.path.dirname(os.path.dirname(os.path.abspath(__file__))))
BAD = 999999
FUEL = 4

# ptype -> (payload bytes, node size, node align, hasdrop); re-read from the harness (mode 0) when it is built
_DEFAULT = dict(nsz=16, nal=8, syspage=4096,
                ptypes={0: (1, 48, 8, 0), 1: (8, 56, 8, 0), 2: (24, 72, 8, 1), 3: (1, 48, 8, 1), 4: (256, 304, 8, 1),
                        5: (2048, 2096, 8, 1), 6: (16, 80, 16, 1), 7: (112, 176, 16, 0), 8: (1008, 1056, 8, 1)})
PNAME = {0: "u8", 1: "u64", 2: "D24(Drop)", 3: "D1(Drop)", 4: "B256(Drop)", 5: "B2K(Drop)", 6: "A16(Drop,align16)",
         7: "A16N(align16)", 8: "B1K(Drop)"}
_consts = None


def consts():
    global _consts
    if _consts is None:
        c = dict(_DEFAULT)
        exe = os.path.join(os.environ.get("VERIF_HARNESS_DIR", os.path.join(VERIF, "harness")), "target", "debug", IMPL)
        try:
            out = subprocess.run([exe], input="0\n", stdout=subprocess.PIPE, stderr=subprocess.DEVNULL, text=True, timeout=60).stdout
            v = [int(x) for x in out.split()]
            if len(v) >= 4 and v[0] == 0 and (len(v) - 4) % 5 == 0:
                c = dict(nsz=v[1], nal=v[2], syspage=v[3],
                         ptypes={v[i]: tuple(v[i + 1:i + 5]) for i in range(4, len(v), 5)})
        except Exception:
            pass
        _consts = c
    return _consts


# ----------------------------------------------------------------------------- arithmetic shared by generator and monitor
def pow2(x):
    return x > 0 and x & (x - 1) == 0


def size_align(size, align, nsz, nal):
    al = max(align, nal)
    return max((size + al - 1) & ~(al - 1), nsz), al


def in_band(page, s, nsz):
    return s < page < s + nsz


class PyAlloc:
    """Reference first-fit allocator (offsets as page*2^40+off); used by the generator and for the mechanism histogram only."""
    B = 1 << 40

    def __init__(self, page, nsz, nal):
        self.page, self.nsz, self.nal = page, nsz, nal
        self.free = []; self.npages = 0; self.live = []; self.freed = []
        self.add_page()

    def add_page(self):
        self.free.insert(0, ((self.npages + 1) * self.B, self.page)); self.npages += 1

    def fits(self, r, size, al):
        a = (r[0] + al - 1) & ~(al - 1)
        e = a + size
        if e > r[0] + r[1]:
            return None
        x = r[0] + r[1] - e
        if 0 < x < self.nsz:
            return None
        return a

    def alloc(self, size0, align0):
        """returns (addr, size, mechanisms) or None (Err) or 'loop'"""
        size, al = size_align(size0, align0, self.nsz, self.nal)
        m = set()
        if size > self.page:
            return None
        for _ in range(FUEL + 1):
            for i, r in enumerate(self.free):
                a = self.fits(r, size, al)
                if a is not None:
                    del self.free[i]
                    x = r[0] + r[1] - a - size
                    if a > r[0]: m.add("align_padding")
                    if x == 0: m.add("exact_fit")
                    elif x < size: m.add("split_tail_dropped")
                    else:
                        m.add("split_tail_kept"); self.free.insert(0, (a + size, x))
                    if i > 0: m.add("first_fit_skips_region")
                    if any(a < f[0] + f[1] and f[0] < a + size for f in self.freed): m.add("reuse_freed_block")
                    self.live.append((a, size))
                    return a, size, m
            if _ == FUEL:
                break
            self.add_page(); m.add("new_page")
        return "loop"

    def dealloc(self, k):
        a, s = self.live.pop(k)
        self.freed.append((a, s)); self.free.insert(0, (a, s))


# ----------------------------------------------------------------------------- script structure
def hdr_len(script):
    return 4 if script and script[0] == 1 else 10


def split(script):
    h = hdr_len(script)
    hdr, ops, i = script[:h], [], h
    while i < len(script):
        k = {1: 3 if script[0] == 1 else 2, 2: 2, 3: 1}.get(script[i])
        if k is None or i + k > len(script):
            break
        ops.append(script[i:i + k]); i += k
    return hdr, ops


def join(hdr, ops):
    out = list(hdr)
    for o in ops:
        out += o
    return out


def pretty(script):
    hdr, ops = split(script)
    parts = []
    if script and script[0] == 1:
        s = "allocator page=%d (ListNode %d/%d): " % tuple(hdr[1:4])
        for o in ops:
            parts.append("alloc(%d,align %d)" % (o[1], o[2]) if o[0] == 1 else "free(#%d)" % o[1] if o[0] == 2 else "dump")
    elif script and script[0] == 2 and len(hdr) == 10:
        s = "CQueue<%s> node %d/%d page=%d n=%d t=%dns: " % (PNAME.get(hdr[1], "?"), hdr[6], hdr[7], hdr[3], hdr[8], hdr[9])
        for o in ops:
            parts.append("add(+%d)" % o[1] if o[0] == 1 else "cancel(#%d)" % o[1] if o[0] == 2 else "fetch")
        parts.append("drop queue")
    else:
        return "malformed script"
    return s + "; ".join(parts)


# ----------------------------------------------------------------------------- generators
PAGES = [64, 64, 128, 256, 512, 1024, 2048, 4096]


def pick_layout(rng, page, nsz, nal, allow_bad=True):
    """a layout outside the excluded band (possibly too large for a page, rarely invalid)"""
    for _ in range(50):
        c = rng.random()
        if c < 0.30:
            size = rng.randint(0, 3 * nsz)
        elif c < 0.45:
            size = nsz * rng.randint(1, max(1, page // nsz))
        elif c < 0.60:
            size = rng.randint(1, page)
        elif c < 0.70:
            size = page - nsz * rng.randint(0, 3)
        elif c < 0.80:
            size = page // rng.choice([2, 3, 4]) + rng.choice([-8, 0, 8])
        elif c < 0.85:
            size = page + rng.randint(1, page)
        else:
            size = rng.choice([8, 16, 24, 32, 40, 48])
        size = max(0, size)
        a = rng.random()
        if a < 0.55:
            align = rng.choice([1, 2, 4, 8])
        elif a < 0.97 or not allow_bad:
            align = 1 << rng.randint(0, page.bit_length() - 1)
        else:
            align = rng.choice([0, 3, 6, 12, 24])          # not a power of two: Layout refuses
        if pow2(align):
            s, al = size_align(size, align, nsz, nal)
            if in_band(page, s, nsz) or (al > page and s <= page):
                continue
        return size, align
    return nsz, nal


def gen_alloc(rng, band=False):
    c = consts()
    nsz, nal = c["nsz"], c["nal"]
    page = rng.choice(PAGES)
    ref = PyAlloc(page, nsz, nal)
    ops = []
    L = rng.randint(20, 400) if not band else rng.randint(0, 12)
    fixed = [pick_layout(rng, page, nsz, nal, False) for _ in range(rng.randint(1, 4))]
    phase, left = "fill", rng.randint(3, 40)

    def do_alloc():
        size, align = rng.choice(fixed) if rng.random() < 0.7 else pick_layout(rng, page, nsz, nal)
        ops.append([1, size, align])
        if pow2(align):
            ref.alloc(size, align)

    def do_free(k):
        ops.append([2, k])
        if ref.live:
            ref.dealloc(k % len(ref.live))

    while len(ops) < L:
        if left <= 0:
            phase = rng.choice(["fill", "every_other", "free_all", "random", "lifo", "fifo"])
            left = rng.randint(3, 40)
        left -= 1
        if phase == "fill":
            do_alloc()
        elif phase == "every_other":
            n = len(ref.live)
            for k in range(0, n // 2):
                do_free(k)                      # after removing index k the next "other" is again k
            phase = "fill"
        elif phase == "free_all":
            while ref.live and len(ops) < L + 50:
                do_free(rng.randint(0, 10 ** 6))
            phase = "fill"
        elif phase == "lifo":
            if ref.live: do_free(len(ref.live) - 1)
            else: do_alloc()
        elif phase == "fifo":
            if ref.live: do_free(0)
            else: do_alloc()
        else:
            r = rng.random()
            if r < 0.5: do_alloc()
            elif r < 0.95: do_free(rng.randint(0, 10 ** 6))
            else: ops.append([3])
    if band:
        lo = page - nsz + 1
        s = rng.randint(lo, page - 1)
        ops.append([1, s, rng.choice([1, 8])])   # adjusted size inside (page-nsz, page)
    ops.append([3])
    return join([1, page, nsz, nal], ops)


def gen_queue(rng):
    c = consts()
    pt = rng.choice(sorted(c["ptypes"]))
    psz, nsize, nalign, hasdrop = c["ptypes"][pt]
    n = rng.choice([1, 2, 3, 5, 8])
    t = rng.choice([1, 10, 1000])
    L = rng.randint(10, 300)
    maxadds = 200 if psz == 1 else 10 ** 9
    ops, nadd, pend = [], 0, 0
    burst = 0
    for _ in range(L):
        r = rng.random()
        if burst > 0:
            r = 0.0; burst -= 1
        elif rng.random() < 0.03:
            burst = rng.randint(5, 60)
        if r < 0.50 and nadd < maxadds:
            d = rng.random()
            if d < 0.15: dt = 0
            elif d < 0.35: dt = rng.choice([1, max(1, t - 1), t, t + 1])
            elif d < 0.60: dt = t * rng.randint(0, 2 * n)
            elif d < 0.70: dt = n * t * rng.randint(1, 3)
            else: dt = rng.randint(0, 5 * n * t + 3)
            ops.append([1, dt]); nadd += 1; pend += 1
        elif r < 0.78:
            ops.append([3]); pend = max(0, pend - 1)
        else:
            ops.append([2, rng.randint(0, nadd + 1)])
    if rng.random() < 0.3:                       # drain completely: the queue is dropped empty
        ops += [[3]] * (pend + 1)
    return join([2, pt, hasdrop, c["syspage"], c["nsz"], c["nal"], nsize, nalign, n, t], ops)


def gen(rng, n):
    for _ in range(n):
        r = rng.random()
        if r < 0.55:
            yield gen_alloc(rng)
        elif r < 0.58:
            yield gen_alloc(rng, band=True)
        else:
            yield gen_queue(rng)


MIRI_SCRIPTS = [
    [1, 64, 16, 8, 1, 16, 8, 1, 24, 8, 1, 1, 1, 2, 0, 1, 16, 16, 1, 8, 32, 3, 2, 0, 2, 0, 2, 0, 2, 0],
    [1, 256, 16, 8, 1, 40, 8, 1, 40, 64, 1, 100, 8, 2, 1, 1, 24, 8, 1, 16, 128, 2, 0, 2, 0, 1, 257, 8, 1, 256, 256, 3],
    [2, 2, 1, 4096, 16, 8, 72, 8, 3, 10, 1, 0, 1, 5, 1, 25, 3, 2, 1, 3, 1, 7],
    [2, 6, 1, 4096, 16, 8, 80, 16, 2, 1000, 1, 1, 1, 1000, 1, 2000, 2, 1, 1, 0, 2, 3, 3, 1, 500, 3, 3, 3, 1, 1],
    [2, 5, 1, 4096, 16, 8, 2096, 8, 2, 10, 1, 0, 1, 5, 1, 25, 1, 5, 3, 3, 2, 3, 1, 11, 1, 12],
    [2, 0, 0, 4096, 16, 8, 48, 8, 1, 1, 1, 3, 1, 0, 1, 2, 3, 2, 0, 3, 3, 3, 1, 4],
    [2, 8, 1, 4096, 16, 8, 1056, 8, 2, 10, 1, 5, 1, 15, 1, 25, 1, 35, 1, 45, 2, 2, 3, 1, 7, 2, 0, 3],
]


def miri_support(timeout=1500):
    """Supporting evidence only (never the verdict): run the harness binary under Miri on a few scripts.  The inspection
    hooks are skipped under Miri (cfg!(miri)), so the output is not compared; Miri checks every pointer access of
    alloc.rs/boxed.rs/linked_list.rs for out-of-bounds, use-after-free, misalignment, uninitialised reads, double frees
    and leaks.  Aliasing-model checks are off (-Zmiri-disable-stacked-borrows): with them Miri reports that CQueue::new
    hands every bucket list its own `&mut`-derived raw handle to the one allocator (experimental Stacked/Tree Borrows
    rules; recorded as an observation).  Result is written to evidence_extra/C15_miri.json."""
    import json, time
    hdir = os.environ.get("VERIF_HARNESS_DIR", os.path.join(VERIF, "harness"))
    res = dict(tool="cargo +nightly miri run --offline --bin alloc", flags="-Zmiri-disable-isolation -Zmiri-disable-stacked-borrows",
               scripts=len(MIRI_SCRIPTS))
    t0 = time.time()
    try:
        env = dict(os.environ, CARGO_TARGET_DIR=os.path.join(VERIF, "work", "miri_target"), CARGO_NET_OFFLINE="true",
                   MIRIFLAGS=res["flags"], RUSTFLAGS="--cfg tokio_unstable --cfg petrichorit_des_verif")
        inp = "\n".join(" ".join(map(str, s)) for s in MIRI_SCRIPTS) + "\n"
        p = subprocess.run(["cargo", "+nightly", "miri", "run", "--offline", "--bin", IMPL], cwd=hdir, input=inp, env=env,
                           stdout=subprocess.PIPE, stderr=subprocess.PIPE, text=True, timeout=timeout)
        errs = [l for l in p.stderr.splitlines() if l.startswith("error")]
        lines = [l for l in p.stdout.splitlines() if l.strip()]
        res.update(returncode=p.returncode, output_lines=len(lines), errors=errs[:5],
                   clean=(p.returncode == 0 and len(lines) == len(MIRI_SCRIPTS) and not any(l.strip() == "666" for l in lines)))
    except Exception as e:                       # Miri not installed, timeout, ...
        res.update(clean=None, unavailable=str(e)[:200])
    res["wall_s"] = round(time.time() - t0, 1)
    try:
        os.makedirs(os.path.join(VERIF, "evidence_extra"), exist_ok=True)
        with open(os.path.join(VERIF, "evidence_extra", "C15_miri.json"), "w") as f:
            json.dump(res, f, indent=1)
    except OSError:
        pass
    return res


def exhaustive():
    """all allocate/deallocate words of length <= 6 over three layouts on a 64-byte page, each followed by a dump.
    Only the thorough tier calls this; it first refreshes the Miri supporting evidence (not part of the verdict)."""
    if not os.environ.get("VERIF_NO_MIRI"):
        miri_support()
    c = consts()
    alphabet = [[1, 16, 8], [1, 24, 8], [1, 8, 32], [2, 0], [2, 1], [2, 2]]
    for L in range(1, 7):
        for w in itertools.product(alphabet, repeat=L):
            yield join([1, 64, c["nsz"], c["nal"]], list(w) + [[3]])


# ----------------------------------------------------------------------------- output walkers
def walk1(script, out):
    """mode 1: align output records with operations; returns [(op, record)], flags"""
    hdr, ops = split(script)
    recs, i, flags = [], 0, []
    for o in ops:
        if i >= len(out):
            break                                   # run stopped early (8 / 9 records end a script)
        tag = out[i]
        if tag == 7:
            break
        if tag == 1: ln = 8
        elif tag == 2: ln = 7
        elif tag in (3, 4, 6, 8, 9): ln = 1
        elif tag == 5:
            if i + 1 >= len(out): raise ValueError("truncated dump")
            nf = out[i + 1]; j = i + 2 + 3 * nf
            if j >= len(out): raise ValueError("truncated dump")
            ln = (j + 1 + 3 * out[j]) - i
        else:
            raise ValueError("bad record tag %d" % tag)
        if i + ln > len(out): raise ValueError("truncated record")
        recs.append((o, out[i:i + ln])); i += ln
        if tag in (8, 9):
            break
    while i + 1 < len(out) and out[i] == 7:
        flags.append(out[i + 1]); i += 2
    if i != len(out):
        raise ValueError("trailing output")
    return recs, flags


def take_evs(out, i):
    k = out[i]; evs = []
    i += 1
    for _ in range(k):
        evs.append(tuple(out[i:i + 3])); i += 3
    if i > len(out): raise ValueError("truncated event list")
    return evs, i


def take_d(out, i):
    k = out[i]
    if i + 1 + k > len(out): raise ValueError("truncated drop list")
    return out[i + 1:i + 1 + k], i + 1 + k


def walk2(script, out):
    """mode 2: returns (new_record, [(op, record-dict)], drop_record)"""
    hdr, ops = split(script)
    if not out or out[0] != 20:
        raise ValueError("no queue-construction record")
    evs, i = take_evs(out, 1)
    new = dict(evs=evs, tail=out[i:i + 4]); i += 4
    recs = []
    for o in ops:
        if i >= len(out): raise ValueError("output too short")
        tag = out[i]
        if tag == 9:
            recs.append((o, dict(tag=9))); i += 1; continue
        r = dict(tag=tag)
        if tag == 2:
            r["id"], r["time"], r["ok"] = out[i + 1:i + 4]; i += 4
        elif tag in (1, 5):
            i += 1
        else:
            raise ValueError("bad record tag %d" % tag)
        r["evs"], i = take_evs(out, i)
        r["tail"] = out[i:i + 4]; i += 4
        r["drops"], i = take_d(out, i)
        recs.append((o, r))
    if i >= len(out) or out[i] != 10:
        raise ValueError("no queue-drop record")
    evs, i = take_evs(out, i + 1)
    d = dict(evs=evs, shadow=out[i:i + 2]); i += 2
    d["drops"], i = take_d(out, i)
    if out[i:i + 1] != [11] or len(out) != i + 4:
        raise ValueError("bad final record")
    d["flags"] = out[i + 1:i + 4]
    return new, recs, d


# ----------------------------------------------------------------------------- the property, on the implementation's output
class Shadow:
    """live blocks as (page, offset) -> size; states C15's memory half"""
    def __init__(self, page):
        self.page = page; self.live = {}

    def alloc(self, pg, off, size, align, npages=None):
        if pg == BAD:
            return "allocate returned address %d outside every page the allocator owns" % off
        if npages is not None and pg >= npages:
            return "allocate returned a block in page %d but only %d pages are owned" % (pg, npages)
        if off + size > self.page:
            return "block (page %d, offset %d, size %d) reaches beyond its %d-byte page" % (pg, off, size, self.page)
        if align <= self.page and off % align != 0:
            return "block at (page %d, offset %d) is not aligned to %d" % (pg, off, align)
        for (p, o), s in self.live.items():
            if p == pg and o < off + size and off < o + s:
                return ("block (page %d, offset %d, size %d) overlaps the live block (offset %d, size %d): memory reused "
                        "before it was released" % (pg, off, size, o, s))
        self.live[(pg, off)] = size
        return None

    def free(self, pg, off, size=None):
        if (pg, off) not in self.live:
            return "release of (page %d, offset %d) which is not a live block" % (pg, off)
        if size is not None and self.live[(pg, off)] != size:
            return "block (page %d, offset %d) released with size %d but allocated with %d" % (pg, off, size, self.live[(pg, off)])
        del self.live[(pg, off)]
        return None


def monitor1(script, out):
    if out[:1] == [7] and len(out) != 1:
        return "harness constants differ from the script's: %s" % out
    if out == [7]:
        return None
    try:
        recs, flags = walk1(script, out)
    except ValueError as e:
        return "malformed output: %s" % e
    _, page, nsz, nal = script[:4]
    if 8 in flags: return "the system allocator returned a page that is not page-aligned or overlaps another page (oracle assumption broken)"
    if 9 in flags: return "the harness' shadow map saw a block handed out twice or a release of a block that was not live"
    sh = Shadow(page)
    order = []                                    # keys of live blocks in allocation order (the harness' handle vector)
    for o, r in recs:
        if r[0] == 1:
            _, pg, off, size, align, npages, mem, nfree = r
            if o[0] != 1: return "allocate record for a non-allocate operation"
            if size < o[1] or align % max(o[2], 1) != 0 or align < nal or size < nsz:
                return "allocate(%d,%d) handed out size %d align %d: too small for the request or for a free-list node" % (o[1], o[2], size, align)
            m = sh.alloc(pg, off, size, align, npages)
            if m: return m
            order.append((pg, off))
        elif r[0] == 2:
            _, pg, off, size, npages, mem, nfree = r
            if not order: return "deallocate reported although nothing was live"
            k = o[1] % len(order)
            if order[k] != (pg, off): return "deallocate released (page %d, offset %d), not the block that was passed in" % (pg, off)
            m = sh.free(pg, off, size)
            if m: return m
            order.pop(k)
        elif r[0] == 8:
            s, al = size_align(o[1], o[2], nsz, nal)
            if not (in_band(page, s, nsz) or (al > page and s <= page)):
                return "allocate(%d,%d) did not terminate (more than %d pages added) although the layout is outside the excluded band" % (o[1], o[2], FUEL)
        elif r[0] == 9:
            return "the allocator panicked on %s" % o
    return None


class QRef:
    """pending events of the queue by id: time; zero = scheduled for the instant they were added at"""
    def __init__(self):
        self.now = 0; self.pend = {}; self.handles = []

    def add(self, dt):
        i = len(self.handles); self.handles.append(i); self.pend[i] = self.now + dt
        return i


def monitor2(script, out):
    if out[:1] == [7] and len(out) != 1:
        return "harness constants differ from the script's: %s" % out
    if out == [7]:
        return None
    if out == [8]:
        return "CQueue<P> construction or add panicked / did not terminate in the allocator"
    try:
        new, recs, d = walk2(script, out)
    except (ValueError, IndexError) as e:
        return "malformed output: %s" % e
    _, pt, hasdrop, page, nsz, nal, nsize, nalign, n, t = script[:10]
    size, align = size_align(nsize, nalign, nsz, nal)
    idmod = 256 if consts()["ptypes"].get(pt, (0,))[0] == 1 else None
    sh = Shadow(page)

    def events(evs, what):
        for kind, pg, off in evs:
            m = sh.alloc(pg, off, size, align) if kind == 1 else sh.free(pg, off)
            if m: return "%s: %s" % (what, m)
        return None
    m = events(new["evs"], "CQueue::new")
    if m: return m
    q = QRef()
    state = {}                                    # id -> "pending" | "returned" | "dropped"
    for o, r in recs:
        what = {1: "add", 2: "cancel", 3: "fetch"}[o[0]]
        if r["tag"] == 9:
            if o[0] != 3 or (hasdrop and any(v == "pending" for v in state.values())):
                lost = sorted(i for i in state if state[i] == "pending")
                return "the queue reports empty although payload(s) %s were neither returned nor dropped (leaked by cancel?)" % lost[:10]
            continue
        m = events(r["evs"], what)
        if m: return m
        if r["tail"][2] != 1:
            return "after %s the prev/next links of a bucket list are not symmetric (or its length is wrong)" % what
        drops = r["drops"] if hasdrop else []
        if o[0] == 1:
            i = q.add(o[1]); state[i] = "pending"
            if drops: return "add ran the destructor of payload(s) %s" % drops
        elif o[0] == 2:
            for x in drops:
                key = [i for i in state if (i % idmod if idmod else i) == x and state[i] == "pending"]
                if not q.handles or not key:
                    return "cancel ran the destructor of payload %d which is not pending (dropped twice, or dropped after it was returned)" % x
                want = q.handles[o[1] % len(q.handles)]
                if want not in key: return "cancel of handle #%d dropped payload %d" % (want, x)
                state[want] = "dropped"; del q.pend[want]
            if len(drops) > 1: return "cancel dropped %d payloads" % len(drops)
        else:
            x = r["id"]
            key = [i for i in state if (i % idmod if idmod else i) == x and state[i] == "pending"]
            if not key: return "fetch returned payload %d which is not pending (already returned, cancelled, or never inserted)" % x
            key = [i for i in key if q.pend[i] == r["time"]] or key
            i = key[0]
            if r["ok"] != 1: return "payload %d came back altered (contents differ from what was inserted)" % x
            if q.pend[i] != r["time"]: return "payload %d was inserted for time %d but returned with time %d" % (x, q.pend[i], r["time"])
            if drops: return "fetch ran the destructor of payload(s) %s inside the queue (the returned payload belongs to the caller)" % drops
            state[i] = "returned"; q.now = r["time"]; del q.pend[i]
    m = events(d["evs"], "drop of the queue")
    if m: return m
    if hasdrop:
        want = sorted((i % idmod if idmod else i) for i in state if state[i] == "pending")
        if sorted(d["drops"]) != want:
            return "dropping the queue ran the destructors of %s but the pending payloads are %s" % (sorted(d["drops"])[:20], want[:20])
        if d["flags"][0] != 1:
            return "some payload's destructor did not run exactly once over the whole history"
    if d["flags"][1] != 1:
        return "the harness' shadow map saw a block handed out twice, overlapping a live one, or a release of a block that was not live"
    return None


def monitor(script, out):
    """C15 evaluated on the implementation's output alone."""
    if not script:
        return None
    if script[0] == 1 and len(script) >= 4:
        return monitor1(script, out)
    if script[0] == 2 and len(script) >= 10:
        return monitor2(script, out)
    return None


# ----------------------------------------------------------------------------- coverage
def mechanisms(script, out):
    m = set()
    hdr, ops = split(script)
    if script and script[0] == 1 and len(hdr) == 4:
        _, page, nsz, nal = hdr
        if not pow2(page) or page < nsz or not pow2(nal) or nsz == 0:
            return m
        ref = PyAlloc(page, nsz, nal)
        m.add("page_%d" % page)
        for o in ops:
            if o[0] == 1:
                if not pow2(o[2]):
                    m.add("invalid_layout"); continue
                r = ref.alloc(o[1], o[2])
                if r is None: m.add("err_larger_than_page")
                elif r == "loop":
                    m.add("band_watchdog"); break
                else:
                    m |= r[2]
                    if o[2] > nal: m.add("align_above_node_align")
            elif o[0] == 2:
                if ref.live: ref.dealloc(o[1] % len(ref.live)); m.add("free")
                else: m.add("free_nothing_live")
        if ref.npages >= 8: m.add("many_pages")
    elif script and script[0] == 2 and len(hdr) == 10:
        m.add("queue_" + PNAME.get(hdr[1], "?"))
        try:
            new, recs, d = walk2(script, out)
        except (ValueError, IndexError):
            return m
        freed = set()
        for o, r in recs:
            if r["tag"] == 9:
                m.add("q_fetch_empty"); continue
            for kind, pg, off in r["evs"]:
                if kind == 2: freed.add((pg, off))
                elif (pg, off) in freed: m.add("q_node_reused")
            if o[0] == 1 and not r["evs"]: m.add("q_add_zero_bucket")
            if o[0] == 2 and r["evs"]: m.add("q_cancel_in_bucket")
            if o[0] == 2 and r["drops"] and not r["evs"]: m.add("q_cancel_in_zero_bucket")
            if o[0] == 2 and not r["drops"] and not r["evs"]: m.add("q_cancel_noop")
            if r["tail"][1] >= 4: m.add("q_many_pages")
        if d["drops"]: m.add("q_drop_with_pending")
        if len(d["evs"]) > 2 * hdr[8]: m.add("q_drop_frees_pending_nodes")
    return m


def nontrivial(script, out):
    return len(mechanisms(script, out)) >= 3


if __name__ == "__main__":
    import sys, json
    if sys.argv[1:] == ["miri"]:
        print(json.dumps(miri_support(), indent=1))
