"""C10 — stepping a simulation is indistinguishable from running it uninterrupted."""
from props.rt_common import *  # noqa
from props import rt_common as R

ID = "C10"; MODEL = "rt"; IMPL = "rt"
COQ_PROP = "Properties/C10.v"; COQ_DIRS = ["Common", "CQueue", "Runtime"]
COQ_MODULE = "Runtime.ModelCq"; RUN_FN = "run"
THEOREMS = ["C10_stepped_log_eq_run_log", "C10_stepped_block_eq_run_block", "C10_step_ignores_configured_limit", "C10_n_step_exact", "C10_until_step_exact", "C10_paused_state", "C10_paused_add_ok_iff", "C10_run_over_cqueue_eq_run_over_spec", "C10_stepped_log_eq_run_log_cq", "C10_stepped_block_eq_run_block_cq", "C10_paused_cq", "C10_any_event_set_stepped_log_eq_run_log", "C10_any_event_set_stepped_block_eq_run_block", "C10_any_event_set_step_ignores_configured_limit", "C10_any_event_set_paused", "C10_stepped_log_eq_run_log_over_spec_event_set", "C10_stepped_log_eq_run_log_over_calendar_queue_event_set", "C10_stepped_log_eq_run_log_heap", "C10_stepped_block_eq_run_block_heap", "C10_step_ignores_configured_limit_heap", "C10_paused_heap"]
QUICK_N = 2500; THOROUGH_N = 150000
CLAIM = dict(
    text="Machine-checked (Coq 8.16, axiom-free) for every scripted event program and every schedule of dispatch_n_events / dispatch_events_until steps (cuts inside groups of equal timestamps included) on a runtime built without a limit: the schedule followed by dispatch_all ends in exactly the state of the uninterrupted dispatch_all (same events, order, times, pending set, clock, counters), hence finish returns the same result; in every paused state (any configured limit, any schedule incl. add_event between steps): dispatch_n_events(k) dispatches exactly the next k events of the remaining run or all of them, dispatch_events_until(T) exactly those with timestamp <= T, sim_time is the time of the last dispatched event, num_events_remaining the number of undelivered events (= scheduled - handled as a multiset), add_event(t) is accepted iff t >= sim_time and a rejected call changes nothing; the step functions ignore the configured limit (swap lemma). Stated for the code after fix: commit f4552a6 (limit decided on peek_time); Refuted/C10.v proves the pinned fetch-and-put-back violates the statements (F7, F8). Tied to des::runtime by differential runs (extracted model vs real Runtime over the real CQueue, stepped and uninterrupted run of the same program per script) and an independent monitor on the implementation's outputs. COMPOSITION: Runtime/ModelCq.v is the same runtime threading the concrete calendar-queue state (cq_new_at n t start, add, peek_time, fetch_next, len, where the cqueue-backed FutureEventSet calls them); Runtime/Compose.v proves by forward simulation (queue part: C01's refinement relation) that for all n,t>=1 it prints exactly what the model over the specification prints (run_over_cqueue_eq_run_over_spec), and the headline statements are restated and proved for the runtime over the calendar queue for every queue parameterisation (*_cq theorems); the extracted runner executes this composed model with the script's (n,t). GENERIC LEVEL: every statement is also proved for the runtime over ANY future event set satisfying an explicit interface (Runtime/EvSet.v: new/add/peek_time/fetch_next/len with six facts, peek purity by type), with an oracle for backends whose order among equal timestamps is unspecified (C1x_any_event_set_* theorems), and instantiated for the specification, the calendar queue (every n,t>=1) and the BinaryHeap backend of a des built without `cqueue` (every oracle; *_heap theorems; that backend is exercised by `check.py C01 --part heap`).",
    note="Scope: 'same as an uninterrupted run' is stated for limit-free runtimes because steps swap the configured limit out (DESIGN 6/C10); with externally added events between steps only the per-step and paused-state clauses apply. Trusted: Coq kernel; extraction cross-checked in-Coq each run; harness/generators; event set = C01's specification, composed with the calendar-queue model in Coq (Runtime/Compose.v); scripted handlers; overflow out of scope.",
    technique="Coq proof (determinism of the limit-free completion + forward/backward simulation of limited runs along it) + invariant + differential correspondence check",
    design="6/C10")
RULE = ("scripts = random event program (as for C11, ties frequent) x step schedule of 1-6 operations"
        " dispatch_n_events(k) (k in 0,1,2,3,total,total+3), dispatch_events_until(T) (T at / one below / one above the"
        " reported time and the next pending timestamps) and add_event while paused (exactly at / just below / just above the"
        " reported time, between it and the next pending event), aimed with a reference interpreter so that cuts fall inside"
        " groups of equal timestamps; 15% of the scripts also configure a limit (steps must ignore it); non-trivial ="
        " distinct script hitting at least two targeted mechanisms (step_cut_inside_tie, paused_add_before_next_event, ...)")
TRUSTED = ["the future event set is the two-list specification CQueue.Spec (tied to the calendar queue by C01)",
                       "user code is the scripted handler of harness/src/bin/rt.rs",
                       "usize/Duration overflow is outside the model"]
ASSUMPTIONS = ["times fit in 63 bits; start_time/bucket width below ~2e5"]


def gen(rng, n):
    for _ in range(n):
        s = R.gen_program(rng, below_start=False, at_start=True)
        if rng.random() < 0.15:
            s.calls = R.gen_calls(rng, R.unlimited(s), s.start)
        s.sched = R.gen_schedule(rng, s, ext=rng.random() < 0.6)
        yield R.add_concurrent_build(rng, s, 0.04).encode()


def exhaustive():
    for s in R.small_programs(at_start=True):
        if len(s.pre) == 0:
            continue
        total = len(R.unlimited(s))
        ts = sorted(set(t for (t, _) in s.pre))
        ops = [(1, k) for k in (0, 1, 2)] + [(2, T) for T in sorted(set([max(0, ts[0] - 1)] + ts + [ts[-1] + 1]))]
        for a in ops:
            yield R.Script(s.n, s.t, s.start, s.budget, [], s.table, s.pre, [a], unit=s.unit).encode()
            if len(s.pre) <= 2 or s.table == [[]]:
                for b in ops + [(3, ts[0], 0), (3, ts[-1] + 1, 0)]:
                    yield R.Script(s.n, s.t, s.start, s.budget, [], s.table, s.pre, [a, b], unit=s.unit).encode()
                    if b[0] == 3:
                        yield R.Script(s.n, s.t, s.start, s.budget, [], s.table, s.pre, [a, b, (1, 1)], unit=s.unit).encode()


monitor = R.monitor_c10


def nontrivial(script, out):
    return len(R.mechanisms(script, out)) >= 2
