"""C04 — seeded simulations are reproducible."""
import re, os, glob
_extra = (0, 0)

ID = "C04"; MODEL = "determ"; IMPL = "determ"
COQ_PROP = "Properties/C04.v"; COQ_DIRS = ["Common", "CQueue", "Determ"]
COQ_MODULE = "Determ.Model"; RUN_FN = "run"
THEOREMS = ["C04_trace_invariant_under_module_ids", "C04_event_ids_irrelevant", "C04_one_draw_per_handled_message"]
QUICK_N = 400; THOROUGH_N = 20000
RULE = ("seeded ring networks (1..5 modules, per-hop latency/jitter, several injected tokens with ttl <= 15, optional"
        " select!-racing tasks); every script is executed three times by the harness (twice in-process, once in a child"
        " process) and the complete observable histories must be identical; the model replays run 1 with the observed"
        " draws as oracle; non-trivial = distinct script whose run handled >= 3 messages and used jitter or a select! race")
TRUSTED = ["StdRng/ChaCha and tokio's seeded select! randomisation are observed, not modelled",
           "the model covers the message layer of the ring (handler draws, jitter draws, routing by module id); the racing"
           " tasks are part of the 3-run comparison only",
           "static audit: no RandomState / default-hasher HashMap or HashSet in des, des-cqueue, des-net-utils sources"]
ASSUMPTIONS = ["two runs are compared on: message log (module, time, ttl, token, random value, jitter), task log (module,"
               " time, round, select branch, random value), end time, event count, result"]
CLAIM = dict(
    text="PARTIAL by nature: a Gallina model is a function, so its determinism is trivial. Proved (Coq 8.16, axiom-free): the observable trace of the seeded-ring model is invariant under any two injective supplies of module identifiers (process-global MODULE_ID continues across simulations in one process); the answers of the future event set are independent of where its sequence numbers start; exactly one handler draw is consumed per handled message. DECIDED by execution: the harness runs every generated simulation three times with the same seed (twice in one process, once in a fresh child process) and compares complete histories (deliveries with times, random values, jitter, select! branch choices, end time, event count, result); the model replays run 1 from the observed draws and must reproduce its message log exactly; a static audit greps the crates for unseeded hashers.",
    note="Trusted / not modelled: rand's StdRng, tokio's RngSeed-driven select!, FxHash iteration order (deterministic hasher, observed), OS-level nondeterminism. The 3-run comparison is exploration-strength evidence for the real crate; the proof part covers identifier renaming and the draw schedule of the model only.",
    technique="Coq proofs of identifier-renaming invariance + three-run differential execution (same process twice, child process) + oracle-replay correspondence",
    design="6/C04")


def split(script):
    return script, []


def join(hdr, ops):
    return list(hdr)


def parse(script):
    i = 0
    seed = script[0]; k = max(script[1] % 6, 1); i = 2
    lat, jit = [], []
    for _ in range(k):
        lat.append(script[i]); jit.append(script[i + 1]); i += 2
    nk = script[i]; i += 1
    kicks = []
    for _ in range(nk):
        kicks.append(tuple(script[i:i + 3])); i += 3
    rounds = script[i] % 8; d = max(script[i + 1], 1)
    global _extra
    _extra = (script[i + 2] % 5, script[i + 3] % 4)
    return seed, k, lat, jit, kicks, rounds, d


def pretty(script):
    seed, k, lat, jit, kicks, rounds, d = parse(script)
    return "seed=%d ring of %d, hops(lat,jit)=%s, kicks(time,dst,ttl)=%s, select rounds=%d sleep=%dns, aux tasks=%d restarts=%d" % (
        seed, k, list(zip(lat, jit)), kicks, rounds, d, _extra[0], _extra[1])


def gen(rng, n):
    for _ in range(n):
        k = rng.randint(1, 5)
        s = [rng.randint(0, 2**32), k]
        for _ in range(k):
            s += [rng.choice([0, 0, 1, 10, 100, 1000]), rng.choice([0, 0, 1, 2, 3, 7, 50])]
        nk = rng.randint(1, 5)
        s.append(nk)
        t = 0
        for _ in range(nk):
            t += rng.choice([0, 0, 1, 5, 100])
            s += [t, rng.randint(0, k - 1), rng.randint(0, 15)]
        s += [rng.choice([0, 0, 1, 2, 4]), rng.choice([1, 5, 10, 100])]
        s += [rng.choice([0, 1, 2, 3, 4]), rng.choice([0, 0, 1, 2, 3])]   # aux: side-by-side tasks, restarts
        yield s


def entries(out):
    n = out[2]
    return [out[3 + 6 * i: 9 + 6 * i] for i in range(n)]


def model_input(script, out):
    """Oracle for the model: handler draws in handling order; jitter samples in SENDING order (a forward in the
    handler of entry e shows up as the jit field of the later entry with the same token and ttl-1)."""
    seed, k, lat, jit, kicks, rounds, d = parse(script)
    es = entries(out)
    rs = [e[4] for e in es]
    arrival = {(e[3], e[2]): e[5] for e in es if True}
    js = []
    for e in es:
        m, now, ttl, token, r, _ = e
        if ttl > 0 and r != 0 and jit[m] > 0:
            js.append(arrival.get((token, ttl - 1), 0))
    nused = 2 + 2 * k + 1 + 3 * len(kicks) + 4
    return list(script[:nused]) + [len(rs)] + rs + [len(js)] + js


def monitor(script, out):
    if len(out) < 3:
        return "malformed output"
    if out[0] != 1:
        return "two executions with the same seed in one process produced different observable histories"
    if out[1] != 1:
        return "an execution in a fresh process produced a different observable history than the in-process one"
    seed, k, lat, jit, kicks, rounds, d = parse(script)
    for e in entries(out):
        m, now, ttl, token, r, j = e
        if r > 3:
            return "random value out of range"
    # jitter samples lie in [0, jitter) of the hop they travelled (hop into module m is hop (m-1) mod k)
    sent = {(e[3], e[2]): e for e in entries(out)}
    for e in entries(out):
        m, now, ttl, token, r, j = e
        prev = sent.get((token, ttl + 1))
        if prev is not None:
            hop = prev[0]
            if not (0 <= j < max(jit[hop], 1)):
                return "jitter %d outside [0,%d) on hop %d" % (j, jit[hop], hop)
    return static_audit()


_audit = None


def static_audit():
    """No unseeded hashers / address-derived order in the crates (run once per check)."""
    global _audit
    if _audit is None:
        bad = []
        for crate in ["des", "des-cqueue", "des-net-utils"]:
            for f in glob.glob("/repo/%s/src/**/*.rs" % crate, recursive=True):
                txt = open(f).read()
                if re.search(r"RandomState|collections::HashMap\b(?!.*Fx)|collections::HashSet\b", txt) and "FxHash" not in txt and "tests" not in f:
                    for m in re.finditer(r"\bHash(Map|Set)(::new\(|<[^>]*>\s*=\s*Hash(Map|Set)::new)", txt):
                        bad.append(os.path.relpath(f, "/repo"))
                        break
        _audit = ("static audit: default-hasher HashMap/HashSet constructed in " + ", ".join(sorted(set(bad)))) if bad else ""
    return _audit or None


def nontrivial(script, out):
    seed, k, lat, jit, kicks, rounds, d = parse(script)
    return out[2] >= 3 and (any(j > 0 for j in jit) or rounds > 0)


def mechanisms(script, out):
    seed, k, lat, jit, kicks, rounds, d = parse(script)
    m = set()
    if any(j > 0 for j in jit): m.add("jittered_hop")
    if rounds: m.add("select_race")
    if _extra[0] >= 2: m.add("equal_deadline_tasks_in_one_module")
    if _extra[0] and _extra[1]: m.add("module_restart_reseeds_runtime")
    if any(l == 0 for l in lat): m.add("zero_latency_hop")
    if len(kicks) > 1: m.add("several_tokens")
    if len(set(kk[0] for kk in kicks)) < len(kicks): m.add("simultaneous_kicks")
    if out[2] >= 10: m.add("long_run")
    if k == 1: m.add("self_ring")
    return m
