"""C12, life part — "at_sim_end is invoked exactly once per module after the last event" also for modules that are
shut down (or waiting for a restart) when the run ends.  Reuses the life-cycle model, runner and generator of C09
(coq/Life, harness/src/bin/life.rs) on panic-free scripts; only the tear-down clause is this part's business."""
from props import c09
from props.c09 import *  # noqa
from props.life_common import *  # noqa

ID = "C12"; PART = "life"; MODEL = "life"; IMPL = "life"
COQ_PROP = "Properties/C09.v"; COQ_DIRS = ["Common", "CQueue", "Life"]
COQ_MODULE = "Life.Model"; RUN_FN = "run"
THEOREMS = ["C09_run_terminates", "C09_run_is_generated"]
QUICK_N = 800; THOROUGH_N = 40000
RULE = ("C09's panic-free life-cycle scripts (shutdown from handlers and tasks, restarts, repeated cycles); "
        "non-trivial = a module is down or waiting for its restart when the run ends")
TRUSTED = ["the tear-down sweep is modelled in coq/Life/Model.v (at_sim_end runs on every module, active or not)"]
ASSUMPTIONS = []
CLAIM = None


def gen(rng, n):
    for s in c09.gen(rng, n):
        yield c09.no_panic(s)


def _check(d, rs):
    k = len(d["mods"])
    ends = [i for i, r in enumerate(rs) if r[0] == R_END]
    per = {}
    for i in ends:
        per[rs[i][1]] = per.get(rs[i][1], 0) + 1
    for m in range(k):
        if per.get(m, 0) != 1:
            return "module %d got at_sim_end %d times (exactly once per module, shut-down modules included)" % (m, per.get(m, 0))
    first = min(ends)
    for i, r in enumerate(rs):
        if i > first and r[0] in (R_START, R_MSG, R_TIMER):
            return "a %s callback of module %d runs after the first at_sim_end (tear-down must follow the last event)" % (NAMES[r[0]], r[1])
    return None


def monitor(script, out):
    try:
        a, b, v = records3(out)
        d = decode(script)
    except ValueError as e:
        return None          # malformed logs are C09's business
    if any(r[0] in (R_PANIC, R_ERR, R_FUEL) for r in a + b):
        return None
    return _check(d, a) or _check(d, b)


def nontrivial(script, out):
    try:
        a, b, v = records3(out)
    except ValueError:
        return False
    return any(r[0] == R_SHUT for r in a)
