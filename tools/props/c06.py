"""C06 — all runnable async work finishes within the simulated instant that enabled it.

AS STATED the property is false of the pinned code (finding F4, known class `tokio_budget`):
one module callback = one LocalSet tick (MAX_TASKS_PER_TICK polls) + one scheduler turn
(event_interval polls), each poll under the cooperative budget Budget::initial(); the rest
runs at the module's next callback.  The four constants are re-read from the tokio source
pinned by /repo/Cargo.lock every time this module is loaded and travel in every script.

script := B_local B_rt C R G  nT task*  lp(start act*)  event*
task   := kind len op*      kind odd = spawn_local, even = tokio::spawn
op     := 0 Log | 1 Recv (own inbox) | 2 t Send | 3 t Join | 4 Yield | 5 End
event  := delta kind lp(pre act*) lp(act*)
act    := 0 t Spawn | 1 t Send | 2 _ current().shutdown() | 3 d current().shutdow_and_restart_in(max(d,1))
          (shutdown requests count in handle_message and in the first at_sim_start only)
          pre = what the module's processing element does in its incoming hook (outside the runtime; only Send has
          an effect); kind odd = the element consumes the message (handle_message not called, act ignored)
start  = what at_sim_start does (time 0)
output := records  6 0 now | 3 e now | 2 task woken now | 1 task now | 4 pl pr left | 7 0 now (Module::reset) | 5 pl pr left
"""
import glob, os, re

ID = "C06"; MODEL = "exec"; IMPL = "exec"
COQ_PROP = "Properties/C06.v"; COQ_DIRS = ["Common", "Exec"]
COQ_MODULE = "Exec.Model"; RUN_FN = "run"
THEOREMS = ["C06_ideal_executor_reaches_quiescence", "C06_quiescent_if_within_budget", "C06_known_class_is_over_budget",
            "C06_leftover_only_in_known_class", "C06_quiescent_iff_within_budget", "C06_budget_monotone", "C06_await_observes_enabling_instant",
            "C06_ops_within_their_poll", "C06_exec_from_quiescence_is_timely", "C06_consumed_message_is_driven",
            "C06_shutdown_request_keeps_exec"]
QUICK_N = 1500; THOROUGH_N = 60000
XCHECK_N = 40


# ----------------------------------------------------------------------------- constants from the pinned tokio source
def tokio_src():
    lock = open("/repo/Cargo.lock").read()
    m = re.search(r'name = "tokio"\nversion = "([^"]+)"', lock)
    if not m:
        raise RuntimeError("tokio not found in /repo/Cargo.lock")
    ver = m.group(1)
    dirs = sorted(glob.glob(os.path.expanduser("~/.cargo/registry/src/*/tokio-%s/src" % ver)))
    if not dirs:
        raise RuntimeError("tokio-%s sources not found in the cargo registry" % ver)
    return ver, dirs[0]


def tokio_consts():
    ver, src = tokio_src()

    def grab(path, pat):
        txt = open(os.path.join(src, path)).read()
        m = re.search(pat, txt, flags=re.S)
        if not m:
            raise RuntimeError("constant not found in tokio-%s/%s: %s" % (ver, path, pat))
        return int(m.group(1))
    return {
        "tokio": ver,
        "MAX_TASKS_PER_TICK": grab("task/local.rs", r"const MAX_TASKS_PER_TICK: usize = (\d+);"),
        "REMOTE_FIRST_INTERVAL": grab("task/local.rs", r"const REMOTE_FIRST_INTERVAL: u8 = (\d+);"),
        "event_interval": grab("runtime/builder.rs", r"#\[cfg\(not\(loom\)\)\]\s*const EVENT_INTERVAL: u32 = (\d+);"),
        "Budget::initial": grab("task/coop/mod.rs", r"const fn initial\(\) -> Budget \{\s*Budget\(Some\((\d+)\)\)"),
        "global_queue_interval": grab("runtime/scheduler/current_thread/mod.rs", r"const DEFAULT_GLOBAL_QUEUE_INTERVAL: u32 = (\d+);"),
    }


CONSTS = tokio_consts()
BL = CONSTS["MAX_TASKS_PER_TICK"]; BR = CONSTS["event_interval"]; CC = CONSTS["Budget::initial"]; RR = CONSTS["REMOTE_FIRST_INTERVAL"]
GQ = CONSTS["global_queue_interval"]
HDR = [BL, BR, CC, RR, GQ]
NH = len(HDR)

RULE = ("scripts = (tokio constants read from the pinned source, task table, events with callback actions) from a structured generator: "
        "fan-out of n independent tasks with n in {1, B-1, B, B+1, 2B, 10B} (all spawn_local / all tokio::spawn / mixed), wake chains "
        "A->B->C.. of length around B through per-task channels (tasks pre-spawned in batches, then one trigger), k receives in one poll "
        "with k around C, JoinHandle chains, yield_now, cross-executor wakes, messages CONSUMED or passed on by a processing element whose "
        "incoming hook wakes waiting tasks (tokio::spawn tasks through the inject queue; long event series rotate the scheduler tick through "
        "global_queue_interval), tasks spawned by at_sim_start, handlers that wake tasks and request shutdown() / shutdow_and_restart_in(d) in "
        "the same invocation (~15 % of the stream; messages during the down time, restarts replaying at_sim_start), random small mixes; "
        "later 'flush' events (delta 0 and > 0) "
        "show when left-over tasks run; non-trivial = distinct script in which tasks are polled and >= 2 targeted mechanisms occur")
TRUSTED = ["tokio %s constants re-read on every run: MAX_TASKS_PER_TICK=%d, default event_interval=%d, Budget::initial=%d, "
           "DEFAULT_GLOBAL_QUEUE_INTERVAL=%d, REMOTE_FIRST_INTERVAL=%d (the last has no effect: all wakes happen on the simulation thread, "
           "so the LocalSet's remote queue stays empty)" % (CONSTS["tokio"], BL, BR, CC, GQ, RR),
           "user code is a script language: tasks over Log/Recv/Send/Join/Yield/End with one unbounded channel per task; only the callback spawns; "
           "callbacks are at_sim_start (one stage), messages handled by handle_message, messages consumed / passed on by one processing "
           "element whose incoming hook sends on channels, and the tear-down; timer wake-ups (async_wakeup: wakes outside block_on, then "
           "exec of an empty callback -- the shape of a consumed message) are C05's subject; shutdown()/shutdow_and_restart_in(d) requested by "
           "handle_message or the first at_sim_start are scripted (restart delays >= 1 ns; what an inert module does is C09's subject)",
           "the harness observes polls and wakes by wrapping each task future and the waker it is polled with"]
ASSUMPTIONS = ["task ids, counts and times stay far below 2^62", "the module is driven by handle_message events only"]
CLAIM = dict(
    text="C06 AS STATED IS REFUTED (finding F4, known class tokio_budget, re-demonstrated on every run): a module callback gives its tasks one "
         "LocalSet tick (at most 61 polls), one scheduler turn (at most 61 polls) and 128 resource operations per poll; whatever is still runnable "
         "runs at the module's next callback, at a later simulated time (62 tokio::spawn in one handler: the 62nd task runs at the next event). "
         "Machine-checked (Coq 8.16, axiom-free), for ALL values of the three budgets and all task systems of the model's language (Log/Recv/Send/"
         "Join/Yield/End tasks spawned with spawn_local or tokio::spawn, per-task unbounded channels, JoinHandles, yield_now; callbacks = "
         "at_sim_start, handle_message, messages consumed or passed on by a processing element whose hooks wake tasks outside the runtime "
         "(inject queue, tick counter and global_queue_interval modelled), tear-down -- each drives the runtime with one exec; a callback may "
         "request shutdown / restart, which does not change its exec: tasks it woke are polled before the runtime is dropped): the executor "
         "without budgets terminates with every queue empty; forall x, ~KnownClass x -> the bounded executor (tokio's phases, budgets, LIFO "
         "deferred wakes) returns with all queues empty and produces exactly the state, log and per-poll results of the executor without budgets, "
         "where KnownClass x = the event needs more polls than b_local / b_rt in the LocalSet tick / scheduler turn, or a poll attempts more than "
         "b_coop resource operations, or yields, or a LocalSet task is woken after the tick; conversely every event of the class leaves work "
         "behind, so the bounded executor returns quiescent IF AND ONLY IF the event fits; "
         "larger budgets never change an event outside the class; in a run whose events are all outside the class every poll happens at the "
         "instant its task was made runnable, and every operation records the time of its poll (code after an await observes the enabling "
         "instant); an exec that starts quiescent -- also the exec of the empty callback after a processing element consumed the "
         "message and woke tasks -- never polls late. Refutation witnesses for every B (B+1 independent spawns leave one queued; "
         "c+1 receives are cut after c). The model predicts the real crate's full poll/operation log exactly (differential runs on every "
         "invocation against a real async module on des + tokio), and an independent monitor evaluates C06 itself on the implementation's log: "
         "failures inside the class are reported as KNOWN-FINDING, anything else is a violation.",
    note="Trusted: Coq kernel; extraction cross-checked in-Coq on a sample each run; harness/generator quality bounds the tie to the code; tokio is "
         "modelled (FIFO local queue, core + inject queue with tick counter, budgets, LIFO deferred wakes), not verified; the LocalSet's remote queue "
         "is unused on one thread and not modelled; timer wake-ups are not exercised; wakes performed by an element's "
         "event_end hook (after the exec) necessarily wait for the module's next callback and are outside the script language. No small complete "
         "patch exists in des (raising event_interval covers tokio::spawn but not spawn_local).",
    technique="Coq: termination measure for the budget-free executor, mode-irrelevance lemmas (budgets invisible to work that fits), wake-record "
              "invariant, symbolic refutation witnesses; differential correspondence check + independent trace monitor with a known-finding class",
    design="6/C06")

LOG = [0]; RECV = [1]; YIELD = [4]; END = [5]


def SEND(t): return [2, t]
def JOIN(t): return [3, t]
def SP(t): return [0, t]
def SD(t): return [1, t]
def SHUT(): return [2, 0]
def RST(d): return [3, d]


def flat(xs):
    return [x for a in xs for x in a]


def task(kind, ops):
    f = flat(ops)
    return [0, kind, len(f)] + f


def event(delta, acts, pre=(), consume=0):
    p = flat(pre); a = flat(acts)
    return [1, delta, consume, len(p)] + p + [len(a)] + a


def start(acts):
    a = flat(acts)
    return [2, len(a)] + a


def join(hdr, units):
    """units: tasks [0, kind, len, ..], events [1, delta, kind, lp, lp] and at most one start unit [2, len, ..] in any
    order; tasks and events keep their relative order"""
    ts = [u[1:] for u in units if u[0] == 0]
    es = [u[1:] for u in units if u[0] == 1]
    st = [u[1:] for u in units if u[0] == 2]
    out = list(hdr[:NH]) + [len(ts)]
    for t in ts:
        out += t
    out += st[0] if st else [0]
    for e in es:
        out += e
    return out


def split(script):
    hdr = script[:NH]
    nt = script[NH] if len(script) > NH else 0
    i = NH + 1
    units = []
    for _ in range(nt):
        if i >= len(script):
            break
        ln = script[i + 1] if i + 1 < len(script) else 0
        units.append([0] + script[i:i + 2 + ln]); i += 2 + ln
    if i < len(script):
        ln = script[i]
        units.append([2] + script[i:i + 1 + ln]); i += 1 + ln
    while i < len(script):
        j = i + 2
        for _ in range(2):
            ln = script[j] if j < len(script) else 0
            j += 1 + ln
        units.append([1] + script[i:j]); i = j
    return hdr, units


def mk(tasks, events, st=()):
    return join(HDR, tasks + ([start(st)] if st else []) + events)


def dec_acts(blob):
    acts, j = [], 0
    while j + 1 < len(blob):
        if blob[j] in (0, 1, 2):
            acts.append((blob[j], blob[j + 1])); j += 2
        elif blob[j] == 3:
            acts.append((3, max(blob[j + 1], 1))); j += 2
        else:
            break
    return acts


def shutdown_req(now, acts):
    q = None
    for a, x in acts:
        if a == 2: q = ("down", None)
        elif a == 3: q = ("down", now + x)
    return q


def plan(script):
    """The callbacks the module gets, from the script alone (which messages find the module up):
    ('start', t, acts) | ('ev', e, t, consumed, pre, acts) | ('reset', t); and the instant of the tear-down."""
    hdr, tasks, st, evs = parse(script)
    out = [("start", 0, st)]
    mode = shutdown_req(0, st)
    if mode: out.append(("reset", 0))
    st2 = [(a, x) for a, x in st if a in (0, 1)]
    t = 0
    for e, (d, k, pre, acts) in enumerate(evs):
        t += d
        if mode and mode[1] is not None and mode[1] < t:
            out.append(("start", mode[1], st2)); mode = None
        if mode is None:
            eff = [] if k else acts
            out.append(("ev", e, t, k, pre, eff))
            mode = shutdown_req(t, eff)
            if mode: out.append(("reset", t))
    if mode and mode[1] is not None:
        out.append(("start", mode[1], st2)); t = max(t, mode[1])
    return out, t


def parse(script):
    """-> hdr, tasks [(kind, ops)], start acts, events [(delta, consumed, pre acts, acts)]"""
    hdr, units = split(script)
    tasks, evs, st = [], [], []
    for u in units:
        if u[0] == 0:
            blob = u[3:]
            ops, j = [], 0
            while j < len(blob):
                o = blob[j]
                if o in (0, 1, 4, 5):
                    ops.append((o,)); j += 1
                elif o in (2, 3) and j + 1 < len(blob):
                    ops.append((o, blob[j + 1])); j += 2
                else:
                    break
            tasks.append((u[1] % 2, ops))
        elif u[0] == 2:
            st = dec_acts(u[2:])
        else:
            d = u[1]; k = (u[2] % 2) if len(u) > 2 else 0
            lp = u[3] if len(u) > 3 else 0
            pre = dec_acts(u[4:4 + lp])
            rest = u[4 + lp:]
            acts = dec_acts(rest[1:1 + rest[0]]) if rest else []
            evs.append((d, k, pre, acts))
    return hdr, tasks, st, evs


def pretty(script):
    hdr, tasks, st, evs = parse(script)
    names = {0: "log", 1: "recv", 4: "yield", 5: "end"}
    s = "budgets tick=%d turn=%d coop=%d gqi=%d; " % (hdr[0], hdr[1], hdr[2], hdr[4]) if len(hdr) >= 5 else ""
    parts = []
    for i, (k, ops) in enumerate(tasks[:12]):
        parts.append("T%d(%s):[%s]" % (i, "local" if k else "rt",
                                       " ".join(names.get(o[0]) or ("send>%d" % o[1] if o[0] == 2 else "join %d" % o[1]) for o in ops[:8]) + (" .." if len(ops) > 8 else "")))
    if len(tasks) > 12:
        parts.append(".. %d tasks" % len(tasks))

    def sh(acts):
        sp = [a[1] for a in acts if a[0] == 0]; sd = [a[1] for a in acts if a[0] == 1]
        dn = "".join("; shutdown" if a[0] == 2 else "; shutdown+restart in %d" % a[1] for a in acts if a[0] in (2, 3))
        return "spawn %s; send %s%s" % ((sp if len(sp) <= 6 else "%d tasks" % len(sp)), (sd if len(sd) <= 6 else "%d msgs" % len(sd)), dn)
    if st:
        parts.append("start{%s}" % sh(st))
    t = 0
    for d, k, pre, acts in evs:
        t += d
        el = ("element%s{%s} " % (" CONSUMES" if k else "", sh(pre))) if (pre or k) else ""
        parts.append("@%d %s%s" % (t, el, "" if k else "handler{%s}" % sh(acts)))
    return s + " ".join(parts)


# ----------------------------------------------------------------------------- generator
def flush_events(rng):
    r = rng.random()
    if r < 0.15:
        return []
    if r < 0.3:
        return [event(0, [])]                      # next callback in the same instant
    if r < 0.8:
        return [event(rng.choice([1, 7, 1000]), [])]
    return [event(0, []), event(7, []), event(3, [])]


def kinds_for(rng, n):
    m = rng.choice([0, 1, 2])
    return [m if m < 2 else rng.randint(0, 1) for _ in range(n)]


def gen_fanout(rng, n=None, kind=None):
    B = BL if kind in (None, 1) else BR
    n = n if n is not None else rng.choice([1, B - 1, B, B + 1, 2 * B, 10 * B, rng.randint(1, 2 * B + 2)])
    ks = [kind] * n if kind is not None else kinds_for(rng, n)
    body = rng.choice([[LOG], [LOG], [LOG, LOG], [], [LOG, END, LOG]])
    tasks = [task(k, body) for k in ks]
    return mk(tasks, [event(rng.choice([0, 5]), [SP(i) for i in range(n)])] + flush_events(rng))


def spawn_batches(ids, per):
    return [event(1, [SP(i) for i in ids[j:j + per]]) for j in range(0, len(ids), per)]


def gen_chain(rng, n=None, kind=None):
    """task i: recv; log; send i+1.  All are spawned (in batches that fit) and block; then one message starts the chain."""
    B = min(BL, BR)
    n = n if n is not None else rng.choice([2, B - 1, B, B + 1, B + 2, 2 * B, rng.randint(2, 2 * B + 2)])
    ks = [kind] * n if kind is not None else kinds_for(rng, n)
    tasks = [task(ks[i], [RECV, LOG, SEND(i + 1)] if i + 1 < n else [RECV, LOG]) for i in range(n)]
    order = list(range(n))
    if rng.random() < 0.3:
        rng.shuffle(order)
    evs = spawn_batches(order, rng.choice([B, B // 2, 7]))
    evs.append(event(5, [SD(0)]))
    return mk(tasks, evs + flush_events(rng))


def gen_coop(rng, k=None, kind=None):
    k = k if k is not None else rng.choice([CC - 1, CC, CC + 1, 2 * CC, 2 * CC + 1, rng.randint(1, 2 * CC + 2)])
    kind = kind if kind is not None else rng.randint(0, 1)
    tasks = [task(kind, [RECV] * k + [LOG])]
    sends = [SD(0)] * rng.choice([k, k, k + 1, max(0, k - 1)])
    acts = sends + [SP(0)] if rng.random() < 0.5 else [SP(0)] + sends
    evs = [event(5, acts)]
    if rng.random() < 0.3:                      # a second task feeds the first from inside a poll
        tasks.append(task(rng.randint(0, 1), [SEND(0)] * k + [LOG]))
        evs = [event(5, [SP(0)]), event(2, [SP(1)])]
    return mk(tasks, evs + flush_events(rng))


def gen_join(rng, n=None, kind=None):
    """task i joins task i+1; spawned in order, so i blocks until i+1 has finished: 2n-1 polls"""
    B = min(BL, BR)
    n = n if n is not None else rng.choice([2, 3, B // 2, B // 2 + 1, B // 2 + 2, B, rng.randint(2, B + 2)])
    ks = [kind] * n if kind is not None else kinds_for(rng, n)
    tasks = [task(ks[i], [JOIN(i + 1), LOG] if i + 1 < n else [LOG]) for i in range(n)]
    order = list(range(n))
    if rng.random() < 0.3:
        order.reverse()
    return mk(tasks, [event(5, [SP(i) for i in order])] + flush_events(rng))


def gen_yield(rng):
    n = rng.choice([1, 2, 5])
    ks = kinds_for(rng, n)
    tasks = [task(ks[i], rng.choice([[LOG, YIELD, LOG], [YIELD], [YIELD, YIELD, LOG], [RECV, YIELD, LOG, SEND((i + 1) % n)]])) for i in range(n)]
    acts = [SP(i) for i in range(n)] + [SD(rng.randrange(n))]
    return mk(tasks, [event(5, acts)] + flush_events(rng) + flush_events(rng))


def gen_mix(rng):
    nt = rng.choice([1, 2, 3, 5, 8, 20, 70])
    ks = kinds_for(rng, nt)
    tasks = []
    for i in range(nt):
        ops = []
        for _ in range(rng.choice([0, 1, 2, 3, 5, 8])):
            r = rng.random()
            if r < 0.25: ops.append(LOG)
            elif r < 0.5: ops.append(RECV)
            elif r < 0.75: ops.append(SEND(rng.randrange(nt + 1)))
            elif r < 0.9: ops.append(JOIN(rng.randrange(nt + 1)))
            elif r < 0.97: ops.append(YIELD)
            else: ops.append(END)
        tasks.append(task(ks[i], ops))
    evs = []
    for _ in range(rng.choice([1, 2, 3, 4, 6])):
        acts = []
        for _ in range(rng.choice([0, 1, 2, 5, nt, 2 * nt])):
            acts.append(SP(rng.randrange(nt)) if rng.random() < 0.6 else SD(rng.randrange(nt)))
        pre = [SD(rng.randrange(nt)) for _ in range(rng.choice([0, 0, 1, 2]))]
        if rng.random() < 0.1:
            acts.insert(rng.randrange(len(acts) + 1), RST(rng.choice([1, 5, 11])) if rng.random() < 0.7 else SHUT())
        evs.append(event(rng.choice([0, 1, 5, 7]), acts, pre=pre, consume=1 if rng.random() < 0.2 else 0))
    st = [SP(rng.randrange(nt)) for _ in range(rng.choice([0, 0, 1, nt]))]
    return mk(tasks, evs, st=st)


def gen_small_within(rng):
    """small systems that fit the budgets: local -> local -> rt -> rt wake chains, joins rt<-rt, local<-local"""
    n = rng.randint(2, 8)
    ks = sorted(kinds_for(rng, n), reverse=True)          # local tasks first: wakes only go local -> rt
    tasks = []
    for i in range(n):
        ops = [RECV, LOG]
        if i + 1 < n:
            ops.append(SEND(i + 1))
            if ks[i] == ks[i + 1] == 0 and rng.random() < 0.4:
                ops += [JOIN(i + 1), LOG]
        tasks.append(task(ks[i], ops))
    return mk(tasks, [event(1, [SP(i) for i in range(n)]), event(4, [SD(0)])] + flush_events(rng))


def gen_element(rng):
    """tasks spawned by at_sim_start wait on their channels; messages are consumed / passed on by the processing element,
    whose incoming hook sends to some of them (tokio::spawn tasks are then woken through the inject queue)"""
    B = min(BL, BR)
    n = rng.choice([1, 2, 3, 5, 8, B - 1, B, B + 1])
    ks = kinds_for(rng, n)
    rounds = rng.choice([1, 2, 3, 5])
    tasks = []
    for i in range(n):
        ops = []
        for _ in range(rounds):
            ops += [RECV, LOG]
            if rng.random() < 0.3 and n > 1:
                ops.append(SEND(rng.randrange(n)))
        tasks.append(task(ks[i], ops))
    evs = []
    for _ in range(rng.choice([1, 2, 3, 4, 8])):
        consume = rng.randint(0, 1)
        m = rng.choice([1, 1, 2, 3, n])
        pre = [SD(rng.randrange(n)) for _ in range(m)]
        if rng.random() < 0.1:
            pre.append(SP(rng.randrange(n)))           # no effect outside the runtime
        acts = [SD(rng.randrange(n)) for _ in range(rng.choice([0, 1, 2]))]
        evs.append(event(rng.choice([0, 1, 5, 7]), acts, pre=pre, consume=consume))
        if rng.random() < 0.3:
            evs.append(event(rng.choice([0, 3]), []))
    st = [SP(i) for i in range(n)]
    if rng.random() < 0.15:                             # some tasks are spawned later, by a handler
        st = st[:n // 2]
        evs.insert(0, event(1, [SP(i) for i in range(n // 2, n)]))
    return mk(tasks, evs + flush_events(rng), st=st)


def gen_tick_phase(rng):
    """many events in which the element wakes one tokio::spawn task (inject queue) and the handler another (core queue):
    which is polled first depends on the scheduler's tick counter modulo global_queue_interval"""
    ne = rng.choice([GQ - 2, GQ, GQ + 3, 2 * GQ + 5])
    a, b = [], []
    for _ in range(ne):
        a += [RECV, LOG]; b += [RECV, LOG]
    tasks = [task(0, a), task(0, b)]
    if rng.random() < 0.5:
        tasks.append(task(1, a))
    evs = []
    for _ in range(ne):
        pre = [SD(0)] + ([SD(2)] if len(tasks) > 2 and rng.random() < 0.5 else [])
        if rng.random() < 0.2:
            evs.append(event(rng.choice([0, 2]), [], pre=[SD(0), SD(1)], consume=1))
        else:
            evs.append(event(rng.choice([0, 2]), [SD(1)], pre=pre))
    return mk(tasks, evs, st=[SP(i) for i in range(len(tasks))])


def gen_shutdown(rng):
    """tasks wait on their channels; a handler (or at_sim_start) wakes some of them AND requests shutdown() /
    shutdow_and_restart_in(d) in the same invocation; messages during the down time; work after the restart"""
    B = min(BL, BR)
    n = rng.choice([1, 2, 3, 5, 8, B, B + 1])
    ks = kinds_for(rng, n)
    tasks = []
    for i in range(n):
        ops = []
        for _ in range(rng.choice([1, 2, 3])):
            ops += [RECV, LOG]
            if rng.random() < 0.25 and n > 1:
                ops.append(SEND(rng.randrange(n)))
            if rng.random() < 0.05:
                ops.append(YIELD)
        tasks.append(task(ks[i], ops))
    st = [SP(i) for i in range(n)]
    if rng.random() < 0.1:
        st.append(RST(rng.choice([1, 3])) if rng.random() < 0.7 else SHUT())
    evs = []
    for _ in range(rng.choice([1, 2, 3, 5, 8])):
        acts = [SD(rng.randrange(n)) for _ in range(rng.choice([0, 1, 1, 2, n]))]
        pre = [SD(rng.randrange(n))] if rng.random() < 0.2 else []
        r = rng.random()
        if r < 0.45:
            acts.insert(rng.randrange(len(acts) + 1), RST(rng.choice([0, 1, 2, 5, 6, 12])))
        elif r < 0.55:
            acts.append(SHUT())
        if rng.random() < 0.1:
            acts.append(SP(rng.randrange(n)))
        evs.append(event(rng.choice([0, 1, 1, 5, 7]), acts, pre=pre, consume=1 if rng.random() < 0.1 else 0))
    return mk(tasks, evs + flush_events(rng), st=st)


def gen(rng, n):
    fams = [gen_shutdown, gen_shutdown, gen_shutdown, gen_fanout, gen_fanout, gen_chain, gen_chain, gen_coop, gen_join, gen_yield, gen_mix, gen_mix, gen_small_within,
            gen_element, gen_element, gen_element, gen_tick_phase]
    for _ in range(n):
        yield rng.choice(fams)(rng)


def exhaustive():
    """fan-out and chain length: every value in [1, 2B+2], for both executors"""
    import random
    rng = random.Random(6)
    B = max(BL, BR)
    for n in range(1, 2 * B + 3):
        for kind in (0, 1):
            yield mk([task(kind, [LOG]) for _ in range(n)], [event(5, [SP(i) for i in range(n)]), event(7, [])])
            yield gen_chain(rng, n=n, kind=kind)
    for k in range(1, 2 * CC + 3, 3):
        yield gen_coop(rng, k=k, kind=k % 2)
    for kind in (0, 1):
        for consume in (0, 1):
            for n in range(1, B + 3):                 # the element wakes n waiting tasks
                yield mk([task(kind, [RECV, LOG]) for _ in range(n)],
                         ([event(1, [SP(i) for i in range(BL, n)])] if n > BL else []) +
                         [event(5, [], pre=[SD(i) for i in range(n)], consume=consume), event(7, [])],
                         st=[SP(i) for i in range(min(n, BL))])


def around(rng, script, n):
    for _ in range(n):
        yield rng.choice([gen_fanout, gen_chain, gen_coop, gen_join, gen_yield, gen_mix, gen_element, gen_tick_phase, gen_shutdown])(rng)


# ----------------------------------------------------------------------------- reading the output
class Bad(Exception):
    pass


def records(out):
    i, res = 0, []
    while i < len(out):
        t = out[i]
        if t == 9 and i == len(out) - 1:
            raise Bad("the simulation returned an error")
        ln = {1: 3, 2: 4, 3: 3, 4: 4, 5: 4, 6: 3, 7: 3}.get(t)
        if ln is None or i + ln > len(out):
            raise Bad("malformed output at %d" % i)
        res.append(tuple(out[i:i + ln])); i += ln
    return res


def left_flags(out):
    try:
        return [r[3] for r in records(out) if r[0] == 4]
    except Bad:
        return []


# ----------------------------------------------------------------------------- C06 on the implementation's log
def monitor(script, out):
    """C06 itself, from the script and the implementation's log only (no scheduling model): a task that becomes runnable at
    instant w -- spawned; message sent to its channel while it awaits recv (or present when it gets there); awaited task
    finished; yield_now -- must be polled at instant w, so that the code after the await observes w; every operation carries
    the time of its poll; and no task may still be runnable when time has moved on."""
    try:
        recs = records(out)
    except Bad as e:
        return str(e)
    hdr, tasks, st_acts, evs = parse(script)
    n = len(tasks)
    todo, end = plan(script)
    pc = [0] * n; spawned = [False] * n; inbox = [0] * n; fin = [None] * n
    jh = ["N"] * n; runnable = [None] * n; why = [""] * n; blocked = [None] * n
    eff = [None] * n; ypend = [False] * n
    cur = 0; step = 0

    def deliver(tgt, when, who):
        if tgt < n and fin[tgt] is None:
            inbox[tgt] += 1
            if blocked[tgt] == "recv":
                blocked[tgt] = None; runnable[tgt] = when; why[tgt] = "message from %s" % who

    def finish(i, when):
        fin[i] = when; pc[i] = len(tasks[i][1])
        h = jh[i]
        if isinstance(h, tuple) and blocked[h[1]] == ("join", i):
            blocked[h[1]] = None; runnable[h[1]] = when; why[h[1]] = "task %d finished" % i

    def enter(i):
        ops = tasks[i][1]
        if pc[i] < len(ops) and ops[pc[i]][0] == 3 and eff[i] is None:
            tg = ops[pc[i]][1]
            if tg < n and (jh[tg] == "T" or jh[tg] == ("H", i)):
                jh[tg] = ("H", i); eff[i] = True
            else:
                eff[i] = False

    def callback(acts, now):
        for a, tg in acts:
            if a == 0:
                if tg < n and not spawned[tg]:
                    spawned[tg] = True; jh[tg] = "T"; runnable[tg] = now; why[tg] = "spawned"
            elif a == 1:
                deliver(tg, now, "the callback")

    def expect(kind, rec):
        nonlocal step
        if step >= len(todo) or todo[step][0] != kind:
            return None, "unexpected record %s (expected %s)" % (list(rec), todo[step][:3] if step < len(todo) else "the tear-down")
        it = todo[step]; step += 1
        return it, None

    k = 0
    while k < len(recs):
        r = recs[k]; k += 1
        if r[0] == 3:
            _, e, now = r
            it, err = expect("ev", r)
            if err:
                return err
            if e != it[1]:
                return "event %d handled where event %d was due (a message for an active module was skipped or one for a shut-down module handled)" % (e, it[1])
            if now != it[2]:
                return "event %d scripted for %d was handled at %d" % (e, it[2], now)
            cur = now
            _, _, _, consumed, pre, acts = it
            for a, tg in pre:
                if a == 1:
                    deliver(tg, now, "the processing element" + (" that consumed the message" if consumed else ""))
            callback(acts, now)
        elif r[0] == 6:
            it, err = expect("start", r)
            if err:
                return err
            if r[2] != it[1]:
                return "at_sim_start ran at %d, due at %d" % (r[2], it[1])
            cur = r[2]
            callback(it[2], cur)
        elif r[0] == 7:
            it, err = expect("reset", r)
            if err:
                return err
            lost = [i for i in range(n) if runnable[i] is not None]
            if lost:
                i = lost[0]
                return ("task %d became runnable at %d (%s) in the event that requested the shutdown and was cancelled without being polled"
                        % (i, runnable[i], why[i]))
            # the runtime is gone: every task is cancelled, the table starts afresh
            for i in range(n):
                pc[i] = 0; spawned[i] = False; inbox[i] = 0; fin[i] = None; jh[i] = "N"; runnable[i] = None
                blocked[i] = None; eff[i] = None; ypend[i] = False
        elif r[0] in (4, 5):
            left = any(x is not None for x in runnable)
            if bool(r[3]) != left:
                return "block_on returned reporting left=%d but %s" % (r[3], "tasks %s are runnable" % [i for i in range(n) if runnable[i] is not None][:5] if left else "no task is runnable")
        elif r[0] == 2:
            _, i, w, now = r
            if i >= n or not spawned[i]:
                return "poll of unknown task %d" % i
            if now != cur:
                return "task %d polled at %d outside the current event (%d)" % (i, now, cur)
            if runnable[i] is None:
                return "task %d polled at %d although nothing made it runnable" % (i, now)
            if runnable[i] != now:
                return ("task %d became runnable at %d (%s) but was polled at %d: the code after its await observes a later instant"
                        % (i, runnable[i], why[i], now))
            runnable[i] = None
            ops = tasks[i][1]
            if fin[i] is not None:
                return "finished task %d polled" % i
            if pc[i] == len(ops):
                finish(i, now)
            enter(i)
            while k < len(recs) and recs[k][0] == 1 and recs[k][1] == i:
                _, _, t2 = recs[k]; k += 1
                if t2 != now:
                    return "task %d polled at %d recorded time %d" % (i, now, t2)
                if fin[i] is not None or pc[i] >= len(ops):
                    return "task %d ran past its end" % i
                o = ops[pc[i]]
                if o[0] == 1:
                    if inbox[i] == 0:
                        return "task %d received a message that was never sent" % i
                    inbox[i] -= 1
                elif o[0] == 2:
                    deliver(o[1], now, "task %d" % i)
                elif o[0] == 3:
                    if eff[i]:
                        if fin[o[1]] is None:
                            return "task %d joined task %d before it finished" % (i, o[1])
                        jh[o[1]] = "N"
                    eff[i] = None
                elif o[0] == 4:
                    if not ypend[i]:
                        return "task %d passed yield_now without yielding" % i
                    ypend[i] = False
                if o[0] == 5:
                    finish(i, now)
                    break
                pc[i] += 1
                if pc[i] == len(ops):
                    finish(i, now)
                    break
                enter(i)
            if fin[i] is None:
                o = ops[pc[i]]
                if o[0] == 1:
                    if inbox[i] > 0:
                        runnable[i] = now; why[i] = "a message is waiting (poll cut short)"
                    else:
                        blocked[i] = "recv"
                elif o[0] == 3 and eff[i]:
                    if fin[o[1]] is not None:
                        runnable[i] = now; why[i] = "task %d has finished (poll cut short)" % o[1]
                    else:
                        blocked[i] = ("join", o[1])
                elif o[0] == 4 and not ypend[i]:
                    ypend[i] = True; runnable[i] = now; why[i] = "yield_now"
                else:
                    return "task %d stopped at %d before an operation that does not wait" % (i, now)
        elif r[0] == 1:
            return "operation of task %d outside a poll" % r[1]
    if step != len(todo):
        return "the run stopped before %s" % (todo[step][:3],)
    for i in range(n):
        if runnable[i] is not None and runnable[i] < end:
            return "task %d became runnable at %d (%s) and was never polled although time advanced to %d" % (i, runnable[i], why[i], end)
    return None


def known_class(script, impl_out, model_out):
    """tokio_budget: the model reproduces the implementation's log exactly and says that some callback returned with work
    still queued -- by C06_quiescent_iff_within_budget exactly the events of the Coq KnownClass (over budget)."""
    if impl_out is None:
        return None
    if model_out is not None and impl_out != model_out:
        return None
    src = model_out if model_out is not None else impl_out
    return "tokio_budget" if any(left_flags(src)) else None


def known_witness(cls):
    if cls == "tokio_budget":
        n = BR + 1
        return mk([task(0, [LOG]) for _ in range(n)], [event(5, [SP(i) for i in range(n)]), event(7, [])])
    return None


def mechanisms(script, out):
    m = set()
    try:
        recs = records(out)
    except Bad:
        return m
    hdr, tasks, st_acts, evs = parse(script)
    kinds = {k for k, _ in tasks}
    if any(a == 0 for a, _ in st_acts): m.add("spawned_by_at_sim_start")
    if kinds == {0, 1}: m.add("mixed_executors")
    elif kinds == {1}: m.add("all_spawn_local")
    elif kinds == {0}: m.add("all_tokio_spawn")
    for _, ops in tasks:
        for o in ops:
            if o[0] == 3: m.add("join")
            if o[0] == 4: m.add("yield_now")
            if o[0] == 2: m.add("task_sends")
    run = 0
    cur_ev = None
    for r in recs:
        if r[0] == 3:
            cur_ev = evs[r[1]] if r[1] < len(evs) else None
            if cur_ev and any(a == 1 for a, _ in cur_ev[2]) and not cur_ev[1] and any(a == 1 and t < len(tasks) and tasks[t][0] == 0 for a, t in cur_ev[3]) \
                    and any(a == 1 and t < len(tasks) and tasks[t][0] == 0 for a, t in cur_ev[2]):
                m.add("inject_and_core_queue_in_one_turn")
        if r[0] in (4, 5, 6):
            cur_ev = None
        if r[0] == 2 and cur_ev and any(a == 1 and t == r[1] for a, t in cur_ev[2]) and r[2] == r[3]:
            m.add("wake_from_consuming_element" if cur_ev[1] else "wake_from_passing_element")
        if r[0] == 4:
            if r[1] == BL: m.add("tick_budget_reached")
            if r[2] == BR: m.add("turn_budget_reached")
            if r[1] == BL - 1 or r[2] == BR - 1: m.add("one_below_budget")
            if r[3]: m.add("work_left_behind")
            if r[1] + r[2] > 1 and not r[3]: m.add("multi_poll_quiescent")
        if r[0] == 2:
            run = 0
            if r[2] != r[3]: m.add("late_poll")
        if r[0] == 1:
            run += 1
            if run == CC: m.add("coop_budget_reached")
        if r[0] == 5 and (r[1] or r[2]): m.add("polls_at_sim_end")
    for d, _, _, _ in evs[1:]:
        if d == 0: m.add("same_instant_callback")
    todo, _ = plan(script)
    if any(it[0] == "reset" for it in todo): m.add("shutdown")
    if sum(1 for it in todo if it[0] == "start") > 1: m.add("restart")
    if any(it[0] == "ev" for it in todo) and len([1 for it in todo if it[0] == "ev"]) < len(evs): m.add("message_for_inactive_module")
    # a poll at its wake instant inside a callback whose record is followed by a reset
    polled = False
    for r in recs:
        if r[0] in (3, 6): polled = False
        elif r[0] == 2 and r[2] == r[3]: polled = True
        elif r[0] == 7 and polled: m.add("wake_and_shutdown_in_one_event")
    return m


def nontrivial(script, out):
    try:
        polled = any(r[0] == 2 for r in records(out))
    except Bad:
        return False
    return polled and len(mechanisms(script, out)) >= 2
