"""C20 — dropping a simulation releases every module, task and message exactly once."""
import itertools

ID = "C20"; MODEL = "own"; IMPL = "own"
COQ_PROP = "Properties/C20.v"; COQ_DIRS = ["Common", "Own"]
COQ_MODULE = "Own.Model"; RUN_FN = "run"
THEOREMS = ["C20_freed_at_most_once", "C20_no_release_after_free", "C20_release_terminates",
            "C20_all_freed_after_root_release", "C20_user_objects_freed_exactly_once",
            "C20_checker_sound", "C20_supported_set_never_freed", "C20_primitives_preserve_wf",
            "C20_reachable_graphs_wf", "C20_every_simulation_releases_everything", "C20_model_output_all_freed",
            "C20_drop_path_irrelevant", "C20_counts_are_in_degrees"]
QUICK_N = 2500; THOROUGH_N = 120000
XCHECK_N = 30
RULE = ("scripts = (module tree with nested children, 0..3 gates per module, gate links with/without a queueing channel forming chains, "
        "module-level cycles and closed gate rings, per module: sends at every (re)start, self messages, tasks sleeping on timers or blocked on a "
        "receive, processing elements, a shutdown / shutdown+restart / panic trigger, a send from at_sim_end; injected messages; stopping point "
        "= never frozen into a runtime | runtime never started | max_itr(k) | max_time(t) | run to completion | started, k events, abandoned "
        "without finish; order in which Sim / remaining events / caller-held GateRefs+ModuleRefs are dropped, normally or by a panic unwinding "
        "through their owner); every simulation is executed twice "
        "in the same process; non-trivial = distinct script that reaches >= 3 targeted mechanisms")
TRUSTED = ["Arc/Rc/Weak counting, Box/Vec drop glue and tokio's task ownership are not modelled: the model's edge schema (coq/Own/Shape.v) is what is "
           "validated, on every run, by the destructor counters of the real crate (per class: created, dropped exactly once, dropped otherwise, alive)",
           "user code is a script: modules consume every message; tasks only sleep or wait; user values hold no des handles (a task that captures "
           "its own ModuleRef is a user-made cycle outside the schema)",
           "the event set is the two-list specification that C01 proves the calendar queue refines; channels have bitrate = one message per second, "
           "100 ms latency, no jitter, Queue(None)",
           "tokio: every runnable task runs in the executor turn of the event that made it runnable (C06, at most 4 tasks per module here); tasks "
           "finishing in one turn are compared up to order"]
ASSUMPTIONS = ["at most 6 modules, 3 gates, 8 sends, 4 self messages, 4 tasks per module, 12 links, 6 injections (larger values are clamped by both runners)",
               "heap growth is measured by a counting global allocator in implrun own between the 2nd and 3rd execution of the same script "
               "(the harness releases its own logs first); a leak smaller than one block per execution cannot exist, a one-off lazy "
               "initialisation inside des or tokio that happens only on the 3rd execution would be a false alarm (none observed)"]
CLAIM = dict(
    text="Machine-checked (Coq 8.16, axiom-free) for an executable reference-count heap with the ownership schema read off the des struct "
         "definitions (Globals/ModuleTree/ModuleContext/Processor/ProcessingElement/Gate/Channel/Message/NetEvents/tokio runtime/task/TimerSlot/"
         "TimerQueue; strong and weak edges; ModuleContext::drop running Gate::dissolve_paths): (1) for every heap and every release sequence no "
         "object is freed twice, and on count-consistent heaps no handle is released after the free; (2) the release machine terminates; (3) for "
         "EVERY graph that is count-consistent, typed by the schema and whose connected gates are listed by a module context (boolean checker "
         "proved sound; and proved to hold of EVERY graph a scripted simulation reaches at every stopping point, by one preservation lemma per "
         "builder/runtime operation and induction over the script), after the roots (Sim, static module context, static event buffer, event set / remaining events, caller-held refs) are "
         "released in any order NO object is allocated any more and every object is in the destructor log exactly once - by the type-rank "
         "argument (all strong edges except gate connections descend in (type rank, path length); gate rings are cut by dissolve_paths); in "
         "particular every module state, processing element, task capture and message; (4) conversely a set of objects supporting each other "
         "through ordinary strong fields is never freed; Refuted for the pinned schema: a buffered Connection holding its own channel (before fix "
         "6ce5d8e) leaks the channel and its queued messages on a limit stop with backlog, and TimerSlot.queue: Arc<TimerQueue> (before fix 012bc88) "
         "leaves queue and slot allocated when a timer is pending at drop. Ownership-graph release is thus proved for all schema-shaped graphs; "
         "real Arc/Rc counting and tokio task ownership are NOT modelled - the schema is validated against destructor counters and a counting "
         "allocator on every run: generated simulations (nested module trees, gate chains and rings, channels with backlog, tasks blocked on "
         "timers/receives, shut-down/restarted/panicked modules, messages in the event set / channel queues / returned as remaining events / in "
         "the static buffer) are run on the real crate to every kind of stopping point, dropped, and compared with the extracted model (drop "
         "counts per class, result, remaining events, end time, call log, heap growth, and the Arc strong/weak reference counts of every "
         "scripted object read at the stopping point before anything is dropped - gates, channels and Globals through the public API, module "
         "contexts, processors, the tokio runtime, timer queues and slots and the module tree through the hook of fixes/hook_own_counts.diff - "
         "which the model prints as in-degrees of its graph (C20_counts_are_in_degrees) and the monitor checks against what the schema's edge "
         "types allow); each simulation is run three times in one process, must "
         "behave identically and must not make the live heap grow. Partial.",
    note="Partial: Rust's reference counting, drop glue and tokio are trusted/validated, not proved. The model touches its heap only through "
         "seven checked primitives (allocate behind a handle, clone, move into a field, move out, drop, record a Weak) that refuse an edge the "
         "schema forbids; that they never refuse in practice is what the differential check shows (a refusal would change the counters). End to "
         "end (C20_every_simulation_releases_everything): for every script the model's verdict is once = created, nothing alive, nothing "
         "allocated. Two defects were found and repaired: 6ce5d8e (F14) and 012bc88 (timer slot <-> queue cycle, visible "
         "only to the allocator counters); their witnesses are in corpus/C20 and Refuted/C20.v.",
    technique="Coq invariant proof over a worklist release machine (count = in-degree + pending handles), well-founded type-rank descent, "
              "supported-set argument for cycles; differential correspondence check with destructor counters and a counting allocator",
    design="6/C20")

def _hook_present():
    """is ModuleRef::verif_own_probe (fixes/hook_own_counts.diff) in the des sources the runner is built against?"""
    import os, re
    hd = os.environ.get("VERIF_HARNESS_DIR", os.path.join(os.path.dirname(os.path.dirname(os.path.dirname(os.path.abspath(__file__)))), "harness"))
    try:
        m = re.search(r'^des\s*=\s*\{[^}]*path\s*=\s*"([^"]+)"', open(os.path.join(hd, "Cargo.toml")).read(), flags=re.M)
        des = m.group(1) if os.path.isabs(m.group(1)) else os.path.join(hd, m.group(1))
        return "fn verif_own_probe" in open(os.path.join(des, "src/net/module/refs.rs")).read()
    except Exception:
        return False


HOOKED = _hook_present()      # scripts ask for the hooked reference-count classes only if the runner can deliver them

NS = 1000000000
SELF_D = [0, 1, 5, 5, 10, 10, NS, NS + NS // 10, 2 * NS, 5 * NS // 2]
TASK_D = [0, 0, 5, 10, 10, NS, NS + NS // 10, 3 * NS, 10 ** 12]
TRIG_D = [0, 5, 10, NS // 2, NS, 2 * NS]
TIMES = [0, 1, 5, 9, 10, 11, NS - 1, NS, NS + NS // 10, NS + NS // 10 + 1, 2 * NS, 2 * NS + NS // 10, 3 * NS, 7 * NS // 2, 10 * NS]


def enc_mod(m):
    return ([m["parent"], m["npe"], m["nsend"], len(m["selfd"])] + list(m["selfd"]) + [len(m["tasks"])] + list(m["tasks"]) +
            [m["trig"], m["trign"], m["trigd"], m["ngates"], 1 if m["endsend"] else 0])


def encode(d):
    out = [d["stop"], d["arg"], d["order"], d["hold"], len(d["mods"])]
    for m in d["mods"]:
        out += enc_mod(m)
    out.append(len(d["links"]))
    for l in d["links"]:
        out += list(l)
    out.append(len(d["injs"]))
    for j in d["injs"]:
        out += list(j)
    return out


def decode(s):
    it = iter(list(s) + [0] * 400)
    nx = lambda: next(it)
    d = {"stop": nx() % 6, "arg": nx(), "order": nx() % 4, "hold": nx() % 4, "mods": [], "links": [], "injs": []}
    n = min(nx(), 6)
    for _ in range(n):
        m = {"parent": nx(), "npe": min(nx(), 2), "nsend": min(nx(), 8)}
        k = nx(); m["selfd"] = [nx() for _ in range(k)][:4]
        k = nx(); m["tasks"] = [nx() for _ in range(k)][:4]
        m["trig"] = nx(); m["trign"] = nx(); m["trigd"] = nx(); m["ngates"] = min(nx(), 3); m["endsend"] = nx() % 2 == 1
        d["mods"].append(m)
    n = min(nx(), 12)
    d["links"] = [tuple(nx() for _ in range(5)) for _ in range(n)]
    n = min(nx(), 6)
    d["injs"] = [tuple(nx() for _ in range(3)) for _ in range(n)]
    return d


def gen_mod(rng, i, busy):
    m = {"parent": 0 if i == 0 or rng.random() < 0.35 else rng.randint(1, i),
         "npe": rng.choice([0, 0, 1, 2]),
         "nsend": rng.choice([0, 1, 2, 3, 5]) if rng.random() < busy else 0,
         "selfd": [rng.choice(SELF_D) for _ in range(rng.choice([0, 0, 1, 2, 3]))],
         "tasks": [rng.choice(TASK_D) for _ in range(rng.choice([0, 0, 1, 2, 3]))],
         "trig": 0, "trign": 0, "trigd": 0,
         "ngates": rng.choice([1, 2, 2, 3, 3]), "endsend": rng.random() < 0.2}
    if rng.random() < 0.4:
        m["trig"] = rng.choice([1, 2, 2, 3])
        m["trign"] = rng.choice([1, 1, 2, 3])
        m["trigd"] = rng.choice(TRIG_D)
    return m


def to_block(rng, m):
    """turn a module into one built from a builder block of des/src/net/runtime/blocks.rs"""
    kind = rng.choice([1, 2, 2, 2, 3, 3, 4, 4, 5])
    m["trig"] = 4 * kind + rng.choice([0, 0, 0, 1, 2, 3, 3])
    m["trign"] = rng.choice([1, 1, 2, 3])
    m["trigd"] = rng.choice(TRIG_D)
    return m


def gen_script(rng):
    n = rng.choice([1, 2, 2, 3, 3, 4, 5])
    busy = rng.choice([0.5, 0.8, 1.0])
    mods = [gen_mod(rng, i, busy) for i in range(n)]
    if rng.random() < 0.22:                      # the builder-block stream
        k = rng.randrange(n)
        for i in range(n):
            if i == k or rng.random() < 0.3:
                to_block(rng, mods[i])
        if all((m["trig"] // 4) % 6 for m in mods):       # somebody has to send
            mods.append(gen_mod(rng, n, 1.0)); n += 1
            mods[-1]["nsend"] = max(mods[-1]["nsend"], 2)
    links = []
    pat = rng.choice(["ring", "ring", "chain", "transit", "gatering", "random", "mixed"])
    chp = rng.choice([0.0, 0.5, 1.0, 1.0])
    ch = lambda: 1 if rng.random() < chp else 0
    if pat in ("ring", "mixed") and n >= 2:
        for i in range(n):
            links.append((i, 0, (i + 1) % n, 1, ch()))
    if pat == "chain":
        for i in range(n - 1):
            links.append((i, 0, i + 1, 1, ch()))
    if pat == "transit" and n >= 3:
        links.append((0, 0, 1, 1, ch()))
        for i in range(1, n - 1):
            links.append((i, 1, i + 1, 1, ch()))
    if pat in ("gatering", "mixed") and n >= 3:
        for i in range(n):
            links.append((i, 2, (i + 1) % n, 2, ch() if rng.random() < 0.3 else 0))
        for m in mods:
            m["ngates"] = 3
    if pat == "random" or rng.random() < 0.25:
        for _ in range(rng.randint(1, 4)):
            links.append((rng.randrange(n), rng.randrange(3), rng.randrange(n), rng.randrange(3), ch()))
    if rng.random() < 0.15:
        rng.shuffle(links)
    injs = [(rng.randint(0, 1), rng.randrange(n), rng.choice(TIMES)) for _ in range(rng.choice([0, 0, 1, 2, 4]))]
    stop = rng.choice([0, 1, 2, 2, 2, 2, 3, 3, 3, 4, 4, 5, 5])
    arg = 0
    if stop in (2, 5):
        arg = rng.choice([0, 1, 2, 3, 4, 5, 6, 8, 10, 13, 17, 25, 40])
    if stop == 3:
        arg = rng.choice(TIMES)
    order = rng.randint(0, 1) + (2 if rng.random() < 0.25 else 0)      # bit 1: dropped by unwinding
    return encode({"stop": stop, "arg": arg, "order": order, "hold": rng.randint(0, 1) + (2 if HOOKED else 0),
                   "mods": mods, "links": links[:12], "injs": injs})


def gen(rng, n):
    for _ in range(n):
        yield gen_script(rng)


def _mod(parent=0, npe=0, nsend=0, selfd=(), tasks=(), trig=0, trign=0, trigd=0, ngates=2, endsend=False):
    return {"parent": parent, "npe": npe, "nsend": nsend, "selfd": list(selfd), "tasks": list(tasks), "trig": trig,
            "trign": trign, "trigd": trigd, "ngates": ngates, "endsend": endsend}


FIXED = [
    # 1: the F14 shape: one module sending 5 messages to itself over a slow queueing channel, plus a long timer
    {"mods": [_mod(npe=1, nsend=5, tasks=[3 * NS, 0], ngates=2, endsend=True)], "links": [(0, 0, 0, 1, 1)], "injs": []},
    # 2: parent with two nested children in a channel ring; the middle one restarts, the last one panics
    {"mods": [_mod(nsend=2, selfd=[5], tasks=[10], ngates=2), _mod(parent=1, npe=2, nsend=1, tasks=[NS, 0], trig=2, trign=1, trigd=NS, ngates=2),
              _mod(parent=2, nsend=1, selfd=[NS], trig=3, trign=2, ngates=2)],
     "links": [(0, 0, 1, 1, 1), (1, 0, 2, 1, 0), (2, 0, 0, 1, 1)], "injs": [(0, 2, 5), (1, 0, 2 * NS)]},
    # 3: closed gate ring of four modules (never sent on) next to a transit chain with a channel; one module shuts down
    {"mods": [_mod(nsend=3, ngates=3), _mod(nsend=0, tasks=[5, 5], trig=1, trign=2, ngates=3), _mod(npe=1, nsend=2, selfd=[1, 1], ngates=3),
              _mod(parent=3, nsend=1, tasks=[2 * NS], ngates=3, endsend=True)],
     "links": [(0, 2, 1, 2, 0), (1, 2, 2, 2, 1), (2, 2, 3, 2, 0), (3, 2, 0, 2, 0), (0, 0, 1, 1, 1), (1, 1, 2, 1, 0), (2, 0, 3, 0, 1)],
     "injs": [(1, 2, 0), (0, 1, NS)]},
    # 4: no links at all: sends come back to the sender; timers with equal deadlines; restart with delay 0
    {"mods": [_mod(npe=2, nsend=2, selfd=[10, 10], tasks=[10, 10, 0], trig=2, trign=3, trigd=0, ngates=1), _mod(parent=1, nsend=1, tasks=[10 ** 12], ngates=1)],
     "links": [], "injs": [(0, 0, 10), (0, 1, 10), (1, 1, 11)]},
]


def exhaustive():
    """every stopping point of four fixed simulations: each event index (max_itr and start+dispatch_n+abandon), each distinct event
    time (max_time), never frozen, never started, run to completion; both drop orders; with and without caller-held references"""
    for sim in FIXED:
        for order, hold in itertools.product((0, 1), (0, 1)):
            base = dict(sim, order=order, hold=hold + (2 if HOOKED else 0))
            for stop in (0, 1, 4):
                yield encode(dict(base, stop=stop, arg=0))
                yield encode(dict(base, stop=stop, arg=0, order=order + 2))      # ... dropped by unwinding
            for k in range(0, 45, 4):
                yield encode(dict(base, stop=2, arg=k, order=order + 2))
                yield encode(dict(base, stop=5, arg=k, order=order + 2))
            for k in range(0, 45):
                yield encode(dict(base, stop=2, arg=k))
                yield encode(dict(base, stop=5, arg=k))
            for t in sorted(set(TIMES + [x + d for x in (0, NS, 2 * NS, 3 * NS) for d in (0, NS // 10, NS // 10 + 1)] + [4 * NS, 5 * NS, 6 * NS])):
                yield encode(dict(base, stop=3, arg=t))


# ----------------------------------------------------------------------------- output
def parse(out):
    """two records: ok res nrem time c0..c3 o0..o3 notonce alive nlog log* ncnt cnt*, then the heap-growth flag"""
    recs = []
    i = 0
    if not out:
        raise ValueError("empty output")
    if out == [777]:
        raise ValueError("the runner was built against sources without fixes/hook_own_counts.diff but the script asks for hooked counts")
    grew, out = out[-1], out[:-1]
    while i < len(out):
        if i + 15 > len(out):
            raise ValueError("truncated record")
        h = out[i:i + 15]
        n = h[14]
        if i + 15 + 4 * n + 1 > len(out):
            raise ValueError("truncated log")
        lg = [tuple(out[i + 15 + 4 * k: i + 19 + 4 * k]) for k in range(n)]
        j = i + 15 + 4 * n
        nc = out[j]
        if j + 1 + nc > len(out):
            raise ValueError("truncated counts")
        recs.append({"ok": h[0], "res": h[1], "nrem": h[2], "time": h[3], "created": h[4:8], "once": h[8:12],
                     "notonce": h[12], "alive": h[13], "log": lg, "cnt": out[j + 1: j + 1 + nc]})
        i = j + 1 + nc
    if len(recs) != 2:
        raise ValueError("expected two records, got %d" % len(recs))
    recs[0]["grew"] = recs[1]["grew"] = grew
    return recs


def accepted_links(d):
    """the links Gate::connect accepts, in order (same rule as both runners)"""
    n = len(d["mods"])
    nconn, pairs, out = {}, set(), []
    for l in d["links"]:
        a, b = (l[0], l[1]), (l[2], l[3])
        if l[0] >= n or l[2] >= n or l[1] >= d["mods"][l[0]]["ngates"] or l[3] >= d["mods"][l[2]]["ngates"]:
            continue
        if a == b or (a, b) in pairs or nconn.get(a, 0) >= 2 or nconn.get(b, 0) >= 2:
            continue
        nconn[a] = nconn.get(a, 0) + 1; nconn[b] = nconn.get(b, 0) + 1
        pairs.add((a, b)); pairs.add((b, a))
        out.append(l)
    return out


def check_counts(d, r):
    """the reference counts read at the stopping point against what the ownership schema's edge types allow
    (coq/Own/Shape.v): exact where the schema fixes the number of holders, bounded elsewhere"""
    c = list(r["cnt"])
    if r["res"] == 2:
        return None if not c else "reference counts reported after an error result"
    mods = d["mods"]
    hold = d["hold"] % 2
    msgs = r["created"][3]
    pend = r["nrem"] + len(mods)                  # events that can hold a ModuleRef: event set + static buffer
    it = iter(c)
    try:
        g = (next(it), next(it))
        if g != (1, 1):
            return "Globals: (strong, weak) = %s, the schema has exactly Sim.globals and BUF_CTX's Weak: (1, 1)" % (g,)
        if d["hold"] // 2:
            t = (next(it), next(it))
            if t != (2, 0):
                return "module tree: (strong, weak) = %s, the schema has exactly Sim.modules and Globals.modules: (2, 0)" % (t,)
            for i, m in enumerate(mods):
                child = 1 if (m["parent"] != 0 and m["parent"] - 1 < i) else 0
                nch = sum(1 for j, x in enumerate(mods) if x["parent"] == i + 1 and i < j)
                cs, cw, ps, pw, rt, ls, qs, qw, n = [next(it) for _ in range(9)]
                slots = [(next(it), next(it)) for _ in range(n)]
                who = "module %d" % i
                if (cs, cw) != (ps, pw):
                    return "%s: context %s and processor %s are not held by the same ModuleRefs" % (who, (cs, cw), (ps, pw))
                if cw != 1 + m["ngates"] + nch:
                    return "%s: %d weak handles to the context; the schema has ctx.me + one per gate (owner) + one per child (parent) = %d" % (who, cw, 1 + m["ngates"] + nch)
                if not (1 + child <= cs <= 1 + child + hold + pend):
                    return "%s: %d strong handles to the context; the schema allows the tree, the parent, the caller and at most %d events" % (who, cs, pend)
                if (rt, ls) not in ((0, 0), (1, 1)):
                    return "%s: tokio runtime / local set counts %s; only the context holds them" % (who, (rt, ls))
                if (qs, qw) != (1, n):
                    return "%s: timer queue (strong, weak) = %s with %d pending slots; the schema has the driver's handle and one Weak per slot" % (who, (qs, qw), n)
                for sl in slots:
                    if sl[0] != 1 or sl[1] > 4 * 8:
                        return "%s: timer slot (strong, weak) = %s; only the queue holds a slot, sleeping tasks hold Weak handles" % (who, sl)
        for i, m in enumerate(mods):
            for k in range(m["ngates"]):
                s_, w_ = next(it), next(it)
                if w_ != 0:
                    return "gate %d of module %d: %d weak handles; the schema has none" % (k, i, w_)
                if not (1 <= s_ <= 3 + hold + 3 * msgs):
                    return "gate %d of module %d: %d strong handles; the schema allows its context, two peers, the caller and three per message" % (k, i, s_)
        for l in accepted_links(d):
            if l[4]:
                for _ in range(2):
                    s_, w_ = next(it), next(it)
                    if w_ != 0:
                        return "a channel has %d weak handles; the schema has none" % w_
                    if not (1 <= s_ <= 2 + msgs):
                        return "a channel has %d strong handles; the schema allows its gate, one unbusy event and one exit event per message" % s_
    except StopIteration:
        return "the list of reference counts is shorter than the script's objects"
    if list(it):
        return "the list of reference counts is longer than the script's objects"
    return None


CLASSES = ["module state", "processing element", "task capture", "message body"]


def monitor(script, out):
    """C20 itself, on the implementation's counters: every user-visible value created by the simulation has been dropped exactly
    once after the simulation, the returned events and the caller's handles were dropped; nothing is alive; the second simulation
    in the same process behaves exactly like the first; and nothing at all stays allocated: executing the simulation once
    more does not make the process's live heap grow."""
    try:
        recs = parse(out)
    except ValueError as e:
        return "malformed output: %s" % e
    for k, r in enumerate(recs):
        who = "simulation %d" % (k + 1)
        for c in range(4):
            if r["once"][c] != r["created"][c]:
                return "%s: %d of %d %s values were not dropped exactly once" % (who, r["created"][c] - r["once"][c], r["created"][c], CLASSES[c])
        if r["notonce"] != 0:
            return "%s: %d values dropped zero times or more than once" % (who, r["notonce"])
        if r["alive"] != 0:
            return "%s: %d user-visible values are still alive after everything was dropped" % (who, r["alive"])
        msg = check_counts(decode(script), r)
        if msg:
            return "%s, at the stopping point: %s" % (who, msg)
    if recs[0]["grew"] != 0:
        return ("memory stays allocated: the live heap (bytes or blocks) is larger after a third execution of the same simulation "
                "than after the second, although every simulation, its remaining events and all handles were dropped")
    a, b = recs
    if a != b:
        for key in ("res", "nrem", "time", "created", "once", "log", "cnt"):
            if a[key] != b[key]:
                return "the second simulation in the same process differs from the first in %s: %s vs %s" % (key, str(a[key])[:120], str(b[key])[:120])
        return "the second simulation in the same process differs from the first"
    return None


def mechanisms(script, out):
    d = decode(script)
    ms = set()
    stop = d["stop"]
    ms.add(["never_frozen", "never_started", "limit_itr", "limit_time", "complete", "abandoned_mid_run"][stop])
    n = len(d["mods"])
    if any(m["parent"] != 0 and m["parent"] - 1 < i for i, m in enumerate(d["mods"])):
        ms.add("nested_children")
    if any(m["parent"] != 0 and m["parent"] - 1 < i and d["mods"][m["parent"] - 1]["parent"] != 0 for i, m in enumerate(d["mods"])):
        ms.add("nested_depth3")
    valid = [l for l in d["links"] if l[0] < n and l[2] < n and l[1] < d["mods"][l[0]]["ngates"] and l[3] < d["mods"][l[2]]["ngates"]]
    if valid:
        ms.add("gate_links")
    if any(l[4] for l in valid):
        ms.add("channel")
    deg = {}
    for l in valid:
        deg[(l[0], l[1])] = deg.get((l[0], l[1]), 0) + 1
        deg[(l[2], l[3])] = deg.get((l[2], l[3]), 0) + 1
    if any(v >= 2 for v in deg.values()):
        ms.add("transit_gate")
    if valid and len(deg) >= 3 and all(v >= 2 for k, v in deg.items() if k[1] == 2) and sum(1 for k in deg if k[1] == 2) >= 3:
        ms.add("closed_gate_ring")
    if d["hold"] % 2:
        ms.add("caller_keeps_refs")
    if d["hold"] // 2:
        ms.add("hooked_reference_counts")
    if d["order"] % 2:
        ms.add("profiler_dropped_first")
    if d["order"] // 2:
        ms.add("dropped_by_unwinding")
    if stop >= 2:
        if any(0 in m["tasks"] for m in d["mods"]):
            ms.add("task_blocked_on_receive")
        if any(any(t > 0 for t in m["tasks"]) for m in d["mods"]):
            ms.add("task_on_timer")
        if any(m["npe"] for m in d["mods"]):
            ms.add("processing_elements")
    try:
        r = parse(out)[0]
    except (ValueError, IndexError):
        return ms
    if r["nrem"] > 0 and r["res"] == 1:
        ms.add("remaining_events_returned")
    if r["nrem"] > 0 and r["res"] == 0:
        ms.add("events_dropped_with_runtime")
    if r["res"] == 2:
        ms.add("ended_with_error")
    kinds = {e[2] for e in r["log"]}
    if 5 in kinds:
        ms.add("shutdown")
    if 5 in kinds and sum(1 for e in r["log"] if e[2] == 1) > n:
        ms.add("restarted")
    if 3 in kinds:
        ms.add("task_finished")
    if 6 in kinds:
        ms.add("builder_block_task_failed")
    kinds_of = [(m["trig"] // 4) % 6 for m in d["mods"]]
    if any(kinds_of):
        ms.add("builder_block_module")
    if stop >= 2:
        for i, k in enumerate(kinds_of):
            if k in (1, 2, 3):
                starts = sum(1 for e in r["log"] if e[1] == i and e[2] == 1)
                ends = sum(1 for e in r["log"] if e[1] == i and e[2] in (3, 6))
                if starts > ends and not (5 in kinds and starts == ends):
                    ms.add("builder_block_task_pending_at_end")
                    if k in (2, 3):
                        ms.add("failable_block_task_pending_at_end")
    if r["created"][2] > sum(1 for e in r["log"] if e[2] == 3) and stop >= 2:
        ms.add("tasks_pending_at_drop")
        fin = {}
        for e in r["log"]:
            if e[2] == 3:
                fin[e[1]] = fin.get(e[1], 0) + 1
        # a module none of whose sleeping tasks has finished although it was started: a timer slot is pending
        if any(any(t > 0 for t in m["tasks"]) and fin.get(i, 0) == 0 for i, m in enumerate(d["mods"])):
            ms.add("timer_pending_at_drop")
    handled = sum(1 for e in r["log"] if e[2] == 2)
    if r["created"][3] > handled:
        ms.add("messages_in_flight_at_drop")
    if "channel" in ms and stop in (2, 3, 5) and r["created"][3] - handled >= 3 and r["nrem"] > 0:
        ms.add("channel_backlog_at_stop")
    if any(m["endsend"] and (m["trig"] // 4) % 6 == 0 for m in d["mods"]) and r["res"] in (1, 2):
        ms.add("static_event_buffer_at_drop")
        if d["order"] // 2:
            ms.add("dropped_by_unwinding_with_buffered_sim_end_sends")
    return ms


def nontrivial(script, out):
    return len(mechanisms(script, out)) >= 3


def pretty(script):
    d = decode(script)
    stop = ["built+frozen+dropped", "runtime built, never run", "max_itr(%d)" % d["arg"], "max_time(%dns)" % d["arg"],
            "run to completion", "start+dispatch_n_events(%d), abandoned" % d["arg"]][d["stop"]]
    s = "stop=%s order=%s%s hold=%d; " % (stop, "profiler,sim" if d["order"] % 2 else "sim,profiler",
                                          " DROPPED BY UNWINDING" if d["order"] // 2 else "", d["hold"] % 2)
    for i, m in enumerate(d["mods"]):
        s += "m%d(parent=%s pe=%d send=%d self=%s tasks=%s trig=%s gates=%d%s) " % (
            i, "m%d" % (m["parent"] - 1) if m["parent"] and m["parent"] - 1 < i else "-", m["npe"], m["nsend"], m["selfd"], m["tasks"],
            ["", "AsyncFn::new ", "AsyncFn::failable ", "AsyncFn::io ", "ModuleFn::failable ", "HandlerFn::failable "][(m["trig"] // 4) % 6] +
            ["-", "shutdown@%d" % m["trign"], "restart@%d+%dns" % (m["trign"], m["trigd"]), "panic@%d" % m["trign"]][m["trig"] % 4],
            m["ngates"], " endsend" if m["endsend"] else "")
    s += "links=" + ",".join("m%d.g%d-%sm%d.g%d" % (l[0], l[1], "ch-" if l[4] else "", l[2], l[3]) for l in d["links"])
    s += " inj=" + ",".join("%s(m%d,%d)" % ("gate" if j[0] % 2 else "direct", j[1], j[2]) for j in d["injs"])
    return s


def split(script):
    d = decode(script)
    hdr = [d["stop"], d["arg"], d["order"], d["hold"]]
    ops = [("m", m) for m in d["mods"]] + [("l", l) for l in d["links"]] + [("i", j) for j in d["injs"]]
    return hdr, ops


def join(hdr, ops):
    return encode({"stop": hdr[0], "arg": hdr[1], "order": hdr[2], "hold": hdr[3],
                   "mods": [o[1] for o in ops if o[0] == "m"], "links": [o[1] for o in ops if o[0] == "l"],
                   "injs": [o[1] for o in ops if o[0] == "i"]})
