"""C03 — equal-timestamp events are dispatched in a deterministic scheduling order."""
from props.cq_common import *  # noqa
from props import cq_common

ID = "C03"; MODEL = "cq"; IMPL = "cq"
COQ_PROP = "Properties/C03.v"; COQ_DIRS = ["Common", "CQueue"]
COQ_MODULE = "CQueue.Model"; RUN_FN = "run"
THEOREMS = ["C03_order_independent_of_parameters", "C03_invariant_reachable", "C03_fetch_min_dispatch_key",
            "C03_class_fixed", "C03_new_event_class", "C03_same_future_instant_fifo", "C03_current_instant_first"]
QUICK_N = 3000; THOROUGH_N = 300000
RULE = ("tie-heavy calendar-queue histories (>= 50% of adds reuse a recent timestamp; bursts; zero-delay follow-ups at the"
        " current instant; ties at year multiples) over all (n,t) of the generator; each history is also re-run under a"
        " second random (n,t) and must give the identical answer; non-trivial = distinct script with at least one tie"
        " that is actually fetched")
TRUSTED = ["the net-layer flush order (buf_process) is exercised by the net harnesses (C08/C14), not here"]
ASSUMPTIONS = ["default feature set (cqueue backend); the BinaryHeap backend only promises time order"]
CLAIM = dict(
    text="Machine-checked (Coq 8.16, axiom-free): on the two-list specification, fetch always returns the pending event with the least dispatch key (time, class, scheduling sequence number), where the class (scheduled for the then-current instant or not) is fixed at scheduling time; corollaries: same-future-instant FIFO, current-instant-first; and by the C01 refinement the calendar queue's answers are identical for every two parameterisations (n,t), (n',t'). Tied to des-cqueue by differential runs on tie-heavy histories, a Python reference of the ordering rule as monitor, and a metamorphic re-run under a second (n,t).",
    note="Trusted: Coq kernel; extraction (ExtrOcamlBasic) with in-Coq vm_compute cross-check; harness and generator; claimed for the default cqueue backend only.",
    technique="Coq proof of the dispatch-key characterisation on the spec + C01 refinement + differential/metamorphic correspondence check",
    design="6/C03")


def gen(rng, n):
    k = 0
    while k < n:
        s = gen_beyond(rng) if k % 12 == 5 else gen_script(rng, tie_heavy=True)
        yield s; k += 1
        if k < n and rng.random() < 0.5:
            # metamorphic twin: same history, different queue parameters
            # (the scan distance max_time/t' is kept bounded so that both runners finish quickly)
            hdr, ops = split(s)
            mx = max([o[1] for o in ops if o[0] == 1] + [1])
            cands = [(n2, t2) for n2 in NS for t2 in TS if mx // t2 <= max(2000, 200000 // n2)]
            if cands:
                yield join(list(rng.choice(cands)) + [hdr[2], hdr[3]], ops); k += 1


def nontrivial(script, out):
    hdr, ops = split(script)
    ref = Ref(hdr[2]); tie = False
    for o in ops:
        if o[0] == 1: ref.add(o[1], o[2])
        elif o[0] == 2: ref.cancel(o[1])
        elif o[0] == 3:
            p = ref.pending()
            if len(p) >= 2 and p[0][0] == p[1][0]: tie = True
            ref.fetch()
    return tie


def monitor(script, out):
    """The ordering rule of C03 evaluated on the implementation's outputs: every fetch must return the pending event
    with the least (time, class, scheduling number), class 0 = scheduled for the then-current instant."""
    try:
        recs = walk(script, out)
    except ValueError as e:
        return "malformed output: %s" % e
    ref = Ref(script[2])
    for o, r in recs:
        if o[0] == 1:
            ok = ref.add(o[1], o[2])
            if ok != (r == [1]):
                return "add accept/reject differs from the scheduling rule: %s" % r
        elif o[0] == 2:
            ref.cancel(o[1])
        elif o[0] == 3:
            e = ref.fetch()
            if e is None:
                if r != [9, 2]:
                    return "fetch on empty queue returned %s" % r
            elif r != [2, e[2], e[0]]:  # noqa
                return ("fetch returned %s but the scheduling rule dispatches (pay=%d,time=%d) next "
                        "(current-instant events first in scheduling order, then equal timestamps in scheduling order)" % (r, e[2], e[0]))
    return None
