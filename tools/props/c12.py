"""C12 — start-up and tear-down callbacks run once, stage by stage, in module-tree order.

Script (see coq/Tree/Model.v `dec_op`, harness/src/bin/tree.rs): op* with strings as
length-prefixed lists of Unicode scalar values
  1 stages <path>      sim.node(path, module declaring stages%8 start stages)
  2 <path>             sim.get(path): ordinal, parent(), path().len()/as_str()/name()
  3 <path> <name>      sim.get(path).child(name)
  4 <str>              ObjectPath::from(str), its name/as_parent_str/parent()
  5 <str> <name>       ObjectPath::from(str).appended(name)
  6 <path> L (k <name>)^(L%4) <stage list>
                       sim.node(path, Ndl::new(registry, def)): an NDL described block; the module type of nesting
                       level i has the single submodule entry `name` (k%5 = 0) or `name[k%5]`; the i-th created
                       module declares the i-th stage count of the list (1 when exhausted)
After the ops the simulation is run without events; the runner prints Sim::nodes(), the
at_sim_start call log (ordinal, stage, index of current().path() in nodes(), parent ordinal+1
as seen by current().parent()), the at_sim_end call log and whether run() failed."""
import itertools

ID = "C12"; MODEL = "tree"; IMPL = "tree"
COQ_PROP = "Properties/C12.v"; COQ_DIRS = ["Common", "Tree"]
COQ_MODULE = "Tree.Model"; RUN_FN = "run"
THEOREMS = ["C12_add_is_preorder", "C12_forest_is_declared_tree", "C12_valid_all_accepted",
            "C12_interleaving_independent", "C12_script_state", "C12_stage_barrier", "C12_stage_in_preorder",
            "C12_start_once_per_declared_stage", "C12_start_calls_declared", "C12_end_once_per_module",
            "C12_dup_and_orphan_rejected", "C12_builder_verdicts", "C12_tree_add_panic_unreachable",
            "C12_path_laws", "C12_parent_lookup", "C12_child_lookup", "C12_object_path",
            "C12_ndl_block_is_adds", "C12_ndl_block_rejected"]
QUICK_N = 2500; THOROUGH_N = 150000
RULE = ("scripts drawn from a structured generator: a random module tree (depth <= 5, fan-out <= 4, names from a pool with"
        " shared textual prefixes `a`,`ab`,`a-b`,`abc` and non-ASCII `é`,`日本`,`😀`), inserted in a random VALID order"
        " (uniform choice among nodes whose parent is present, so children of different parents interleave), stage counts"
        " 0..3 (sometimes up to 7), parent/child/path queries interleaved; in 45% of the scripts some insertions are NDL described"
        " blocks (sim.node(path, Ndl{..}): root + up to three nesting levels of atoms/clusters) attached at the root path, at top"
        " level, below nodes that already have later siblings, below nodes created by earlier blocks; a malformed stream re-inserts existing paths"
        " (duplicates) and inserts nodes before/without their parent (orphans); a small stream uses ill-formed strings"
        " (empty elements) for correspondence only. Non-trivial = distinct script hitting >= 3 targeted mechanisms.")
TRUSTED = ["module bodies, gates, props capture, processing stack and the async runtime around the callbacks are not modelled;"
           " the scripted modules emit no events",
           "From<&str> is modelled on UTF-8 bytes (Rust iterates chars); equal for valid UTF-8, which is all a &str can hold",
           "children hash maps are modelled as one association list (newest binding wins)",
           "NDL blocks: every module type of the generated description has at most one submodule entry (atom or cluster), so the"
           " instantiation order does not depend on FxHashMap iteration order; gates/connections of NDL are C18's subject"]
ASSUMPTIONS = ["path elements are non-empty and contain no '.' (the property's quantifier); ill-formed strings are only"
               " compared model-vs-implementation",
               "stage counts are taken modulo 8 by the wire format (theorems hold for every count)"]
CLAIM = dict(
    text="Machine-checked (Coq 8.16, axiom-free): for EVERY sequence of node insertions with well-formed paths (any depth/fan-out,"
         " names sharing prefixes or multi-byte; duplicates and orphans included) the byte-level model of ModuleTree::add/"
         "SimBuilder::raw yields the depth-first pre-order of the declared tree with siblings in creation order; the forest used"
         " is shown to be the declared tree (children of every node = its declared children in declaration order), hence the"
         " vector is independent of how insertions of different parents are interleaved; duplicates and orphans panic in every"
         " reachable state and nothing else does (ModuleTree::add's own panic is unreachable); attaching an NDL described block"
         " (SimBuilder::raw_ndl, depth-first instantiation) at an acceptable path equals inserting its nodes one by one, a block with"
         " a duplicate/orphan root panics and changes nothing, so all of this covers NDL blocks too; the at_sim_start log is stage-"
         "monotone, each module receives exactly stages 0..n-1 once each in order, within a stage calls follow the pre-order;"
         " at_sim_end visits every module exactly once; parent()/child()/path() of every module agree with the declared tree;"
         " ObjectPath laws parent(appended p n)=p, name(appended p n)=n,"
         " from(as_str p)=p for dot-free non-empty names over arbitrary bytes. The model is tied to the des crate by differential"
         " runs (extracted model vs a real Sim built, run and queried through the public API) on every invocation, plus an"
         " independent monitor stating C12 on the implementation's output.",
    note="Trusted: Coq kernel; extraction (ExtrOcamlBasic) cross-checked in-Coq by vm_compute each run; harness/generator quality"
         " bounds the tie to the code; only event-free simulations are run (at_sim_end 'after the last event' is exercised with"
         " zero events); module internals, gates, props and the async runtime are not modelled.",
    technique="Coq refinement proof (vector vs rose-forest pre-order, block-decomposition invariant; forest extensionality for"
              " interleaving independence) + differential correspondence check + output monitor",
    design="6/C12")

NAMES = ["a", "ab", "a-b", "é", "b", "abc", "éa", "aé", "ba", "日本", "a_b", "😀", "x", "a1"]


def cps(s):
    return [ord(c) for c in s]


def lp(xs):
    return [len(xs)] + list(xs)


def enc_str(s):
    return lp(cps(s))


def utf8(s):
    return list(s.encode("utf-8"))


# ---------------------------------------------------------------- script structure
def _take_str(script, i):
    if i >= len(script):
        return "", i
    k = script[i]; i += 1
    out = []
    for _ in range(k):
        if i >= len(script):
            break
        c = script[i]; i += 1
        out.append(chr(c) if (c < 0xD800 or 0xDFFF < c < 0x110000) else "�")
    return "".join(out), i


def parse(script):
    """-> list of (op tuple, raw int slice). Mirrors Model.dec_op (total)."""
    ops = []; i = 0
    while i < len(script):
        j = i; t = script[i]
        if t == 1 and i + 1 < len(script):
            st = script[i + 1] % 8
            p, i = _take_str(script, i + 2)
            ops.append((("node", st, p), script[j:i]))
        elif t == 2:
            p, i = _take_str(script, i + 1); ops.append((("get", p), script[j:i]))
        elif t == 3:
            p, i = _take_str(script, i + 1); n, i = _take_str(script, i); ops.append((("child", p, n), script[j:i]))
        elif t == 4:
            p, i = _take_str(script, i + 1); ops.append((("from", p), script[j:i]))
        elif t == 5:
            p, i = _take_str(script, i + 1); n, i = _take_str(script, i); ops.append((("app", p, n), script[j:i]))
        elif t == 6:
            p, i = _take_str(script, i + 1)
            nl = 0
            if i < len(script):
                nl = script[i] % 4; i += 1
            levels = []
            for _ in range(nl):
                if i >= len(script):
                    break
                k = script[i] % 5
                n, i = _take_str(script, i + 1)
                levels.append((k, n))
            sts = []
            if i < len(script):
                cnt = script[i]; i += 1
                for _ in range(cnt):
                    if i >= len(script):
                        break
                    sts.append(script[i] % 8); i += 1
            ops.append((("ndl", p, tuple(levels), tuple(sts)), script[j:i]))
        else:
            break
    return ops


def enc_block(path, levels, sts):
    out = [6] + enc_str(path) + [len(levels)]
    for k, n in levels:
        out += [k] + enc_str(n)
    return out + lp(sts)


def sub_names(k, nm):
    return [nm] if k == 0 else ["%s[%d]" % (nm, i) for i in range(k)]


def block_paths(q, levels):
    """nodes of an NDL block attached at q (tuple of names), in depth-first creation order"""
    out = [q]
    if levels:
        k, nm = levels[0]
        for sub in sub_names(k, nm):
            out += block_paths(q + (sub,), levels[1:])
    return out


def block_wf(o):
    return wf_or_root(o[1]) and all(n != "" and "." not in n for _, n in o[2])


def split(script):
    return [], [raw for _, raw in parse(script)]


def join(hdr, ops):
    out = list(hdr)
    for o in ops:
        out += o
    return out


def pretty(script):
    parts = []
    for o, _ in parse(script):
        if o[0] == "node": parts.append("node(%r,stages=%d)" % (o[2], o[1]))
        elif o[0] == "get": parts.append("get(%r)" % o[1])
        elif o[0] == "child": parts.append("child(%r,%r)" % (o[1], o[2]))
        elif o[0] == "from": parts.append("from(%r)" % o[1])
        elif o[0] == "ndl":
            parts.append("node(%r,Ndl{%s},stages=%s)" % (o[1], " > ".join(n if k == 0 else "%s[%d]" % (n, k) for k, n in o[2]), list(o[3])))
        else: parts.append("appended(%r,%r)" % (o[1], o[2]))
    return "; ".join(parts)


def segs(s):
    return s.split(".") if s != "" else []


def wf(s):
    return s != "" and all(x != "" for x in s.split("."))


def wf_or_root(s):
    return s == "" or wf(s)


# ---------------------------------------------------------------- generator
def gen_tree(rng, max_depth=5, max_fan=4, cap=28):
    """list of paths (tuples of names) of a random tree, parents before children."""
    nodes = []

    def grow(prefix, depth):
        if depth > max_depth or len(nodes) >= cap:
            return
        hi = max_fan if depth <= 2 else max(1, max_fan - depth + 1)
        k = rng.randint(1 if depth == 1 else 0, hi)
        names = rng.sample(NAMES, k) if rng.random() < 0.6 else rng.sample(NAMES[:6], min(k, 6))
        for n in names:
            if len(nodes) >= cap:
                return
            p = prefix + (n,)
            nodes.append(p)
            if rng.random() < (0.75 if depth < 3 else 0.45):
                grow(p, depth + 1)
    grow((), 1)
    return nodes


def valid_order(rng, nodes):
    """uniformly pick among available nodes (parent already placed) at every step"""
    placed = set(); todo = list(nodes); out = []
    while todo:
        avail = [p for p in todo if len(p) == 1 or p[:-1] in placed]
        style = rng.random()
        p = rng.choice(avail)
        todo.remove(p); placed.add(p); out.append(p)
    return out


def rand_name(rng):
    return rng.choice(NAMES)


def rand_path(rng, known, wfonly=True):
    r = rng.random()
    if known and r < 0.7:
        return ".".join(rng.choice(known))
    if known and r < 0.85:
        return ".".join(rng.choice(known) + (rand_name(rng),))
    return ".".join(rand_name(rng) for _ in range(rng.randint(1, 3)))


WEIRD = ["", ".", "a.", ".a", "a..b", "..", "a.b.", "é..", ". ."]


def rand_levels(rng):
    L = rng.choice([0, 1, 1, 1, 2, 2, 3])
    if L == 3:   # keep three-level blocks narrow
        return [(rng.choice([0, 1, 2]), rand_name(rng)) for _ in range(3)]
    return [(rng.choice([0, 0, 1, 2, 3]), rand_name(rng)) for _ in range(L)]


def gen_script(rng):
    nodes = gen_tree(rng, max_depth=rng.choice([2, 3, 4, 5, 5]), max_fan=rng.choice([2, 3, 4, 4]))
    order = valid_order(rng, nodes)
    kind = rng.random()
    malformed = kind < 0.30
    weird = 0.30 <= kind < 0.36
    ndl = rng.random() < 0.45            # some insertions are NDL described blocks
    stage_hi = 7 if rng.random() < 0.1 else 3
    ops = []
    placed = []                          # every declared path (tuples), blocks expanded
    by_block = []                        # paths created by NDL blocks
    allnodes = list(nodes)

    def stage():
        return rng.randint(0, stage_hi) if rng.random() < 0.8 else 1

    def put_block(q, levels):
        paths = block_paths(q, levels)
        n_st = rng.choice([0, len(paths), len(paths), rng.randint(0, len(paths) + 1)])
        ops.append(enc_block(".".join(q), levels, [stage() for _ in range(n_st)]))
        for x in paths:
            if x not in placed:
                placed.append(x); by_block.append(x); allnodes.append(x)

    if ndl and rng.random() < 0.2:       # the root an NDL description attached at "" creates (Sim::ndl)
        put_block((), rand_levels(rng))
    for p in order:
        if malformed and rng.random() < 0.12 and placed:
            q = rng.choice(placed)
            if ndl and rng.random() < 0.5:
                ops.append(enc_block(".".join(q), rand_levels(rng), [1, 2]))                     # duplicate block root
            else:
                ops.append([1, rng.randint(0, 3)] + enc_str(".".join(q)))                        # duplicate
        if malformed and rng.random() < 0.12:
            later = [q for q in order if q not in placed and len(q) >= 2 and q[:-1] not in placed]
            if later and rng.random() < 0.7:
                q = rng.choice(later)                                                            # child before parent
            else:
                q = (rand_name(rng) + "zz", rand_name(rng))                                      # parent never exists
            if ndl and rng.random() < 0.5:
                ops.append(enc_block(".".join(q), rand_levels(rng), []))
            else:
                ops.append([1, rng.randint(0, 3)] + enc_str(".".join(q)))
        if weird and rng.random() < 0.3:
            if ndl and rng.random() < 0.4:
                ops.append(enc_block(rng.choice(WEIRD), [(rng.randint(0, 2), rng.choice(["", "a.b", "é", "a"]))], [1]))
            else:
                ops.append([1, rng.randint(0, 3)] + enc_str(rng.choice(WEIRD)))
        if p in placed:
            pass                                                                                 # an NDL block already made it
        elif ndl and rng.random() < 0.3:
            put_block(p, rand_levels(rng))
        else:
            ops.append([1, stage()] + enc_str(".".join(p)))
            placed.append(p)
        if ndl and by_block and rng.random() < 0.25 and len(placed) < 60:
            # attach something below a node that an NDL block created (nested blocks, plain children of block nodes)
            c = rng.choice(by_block)
            q = c + (rand_name(rng),)
            if q not in placed and len(q) <= 7:
                if rng.random() < 0.6:
                    put_block(q, rand_levels(rng)[:2])
                else:
                    ops.append([1, stage()] + enc_str(".".join(q))); placed.append(q); allnodes.append(q)
        r = rng.random()
        if r < 0.10:
            ops.append([2] + enc_str(rand_path(rng, placed)))
        elif r < 0.20:
            q = rng.choice(placed)
            kids = [x[-1] for x in allnodes if x and x[:-1] == q]
            n = rng.choice(kids) if kids and rng.random() < 0.7 else rand_name(rng)
            ops.append([3] + enc_str(".".join(q)) + enc_str(n))
        elif r < 0.25:
            ops.append([4] + enc_str(rand_path(rng, placed) if not weird else rng.choice(WEIRD)))
        elif r < 0.30:
            base = rand_path(rng, placed) if rng.random() < 0.85 else ""
            ops.append([5] + enc_str(base) + enc_str(rand_name(rng) if not weird else rng.choice(["", "a.b", "é"])))
    for _ in range(rng.randint(0, 4)):   # queries against the complete tree
        q = rng.choice(placed)
        if rng.random() < 0.5:
            ops.append([2] + enc_str(".".join(q)))
        else:
            kids = [x[-1] for x in allnodes if x and x[:-1] == q]
            ops.append([3] + enc_str(".".join(q)) + enc_str(rng.choice(kids) if kids and rng.random() < 0.8 else rand_name(rng)))
    return join([], ops)


def gen(rng, n):
    for _ in range(n):
        yield gen_script(rng)


def exhaustive():
    """Every valid insertion order of every tree with <= 6 nodes: a sequence in which node i attaches to the root or to
    one of the i-1 earlier nodes enumerates all (ordered tree, valid order) pairs (n! per n).  Sibling k gets NAMES[k]
    (`a`,`ab`,`a-b`,`é`,...), two stage-count assignments each."""
    for n in range(1, 7):
        for parents in itertools.product(*[range(0, i + 1) for i in range(n)]):
            paths = []; nkids = {}
            for i, par in enumerate(parents):
                base = () if par == 0 else paths[par - 1]
                k = nkids.get(base, 0); nkids[base] = k + 1
                paths.append(base + (NAMES[k],))
            for variant in (0, 1):
                ops = []
                for i, p in enumerate(paths):
                    st = 1 if variant == 0 else (i * 3 + len(p)) % 4
                    ops.append([1, st] + enc_str(".".join(p)))
                yield join([], ops)
            if n <= 5:
                # the same sequence with its i-th insertion made through an NDL block (node + cluster h[2] + leaf)
                for b in range(n):
                    ops = []
                    for i, p in enumerate(paths):
                        if i == b:
                            ops.append(enc_block(".".join(p), [(2, "h"), (0, "é")], [(i + 1) % 4, 2, 0, 1, 3]))
                        else:
                            ops.append([1, (i * 3 + len(p)) % 4] + enc_str(".".join(p)))
                    yield join([], ops)


# ---------------------------------------------------------------- output parsing
class Bad(Exception):
    pass


def _take_out_lp(out, i):
    if i >= len(out): raise Bad("output truncated")
    k = out[i]; i += 1
    if i + k > len(out): raise Bad("output truncated in string")
    return out[i:i + k], i + k


def walk(script, out):
    """-> (list of (op, record-dict), nodes, startlog, endlog, run_failed)"""
    ops = [o for o, _ in parse(script)]
    i = 0; recs = []
    for o in ops:
        if i >= len(out): raise Bad("output too short")
        t = out[i]
        if o[0] in ("node", "ndl"):
            if t == 1: recs.append((o, {"ok": True})); i += 1
            elif t == 9 and i + 1 < len(out): recs.append((o, {"ok": False, "site": out[i + 1]})); i += 2
            else: raise Bad("bad node record at %d" % i)
        elif o[0] == "get":
            if t != 2 or i + 1 >= len(out): raise Bad("bad get record at %d" % i)
            if out[i + 1] == 0: recs.append((o, {"found": False})); i += 2
            else:
                if i + 4 >= len(out): raise Bad("short get record")
                ordn, par, depth = out[i + 2], out[i + 3], out[i + 4]
                s, j = _take_out_lp(out, i + 5); nm, j = _take_out_lp(out, j)
                recs.append((o, {"found": True, "ord": ordn, "parent": par, "depth": depth, "str": s, "name": nm})); i = j
        elif o[0] == "child":
            if t != 3 or i + 1 >= len(out): raise Bad("bad child record at %d" % i)
            if out[i + 1] == 0: recs.append((o, {"found": False})); i += 2
            else: recs.append((o, {"found": True, "child": out[i + 2]})); i += 3
        elif o[0] == "from":
            if t != 4: raise Bad("bad from record at %d" % i)
            depth = out[i + 1]; nm, j = _take_out_lp(out, i + 2); ps, j = _take_out_lp(out, j)
            r = {"depth": depth, "name": nm, "pstr": ps}
            if out[j] == 0: r["parent"] = None; j += 1
            else:
                pd = out[j + 1]; s, k = _take_out_lp(out, j + 2); pn, k = _take_out_lp(out, k)
                r["parent"] = {"depth": pd, "str": s, "name": pn, "eq": out[k]}; j = k + 1
            recs.append((o, r)); i = j
        else:
            if t != 5: raise Bad("bad appended record at %d" % i)
            depth = out[i + 1]; s, j = _take_out_lp(out, i + 2); nm, j = _take_out_lp(out, j)
            recs.append((o, {"depth": depth, "str": s, "name": nm, "eq": out[j], "peq": out[j + 1]})); i = j + 2
    if i >= len(out) or out[i] != 6: raise Bad("missing nodes section")
    n = out[i + 1]; i += 2; nodes = []
    for _ in range(n):
        s, i = _take_out_lp(out, i); nodes.append(s)
    if out[i] != 7: raise Bad("missing start log")
    k = out[i + 1]; i += 2
    start = [tuple(out[i + 4 * a:i + 4 * a + 4]) for a in range(k)]; i += 4 * k
    if out[i] != 8: raise Bad("missing end log")
    k = out[i + 1]; i += 2
    end = [tuple(out[i + 2 * a:i + 2 * a + 2]) for a in range(k)]; i += 2 * k
    if out[i:i + 1] != [10] or i + 2 != len(out): raise Bad("missing run result")
    return recs, nodes, start, end, out[i + 1]


# ---------------------------------------------------------------- the property
def declared_tree(script):
    """Contract simulation on well-formed insertions (plain nodes and NDL blocks): -> (verdict per insertion op,
    decl, seen, created per insertion op) with decl = list of (path tuple, stages, via_ndl) in creation order
    (index = ordinal).  An NDL block is the sequence of its nodes in depth-first order; a block whose root is
    rejected creates nothing."""
    verdicts = []; decl = []; seen = {}; created = []
    for o, _ in parse(script):
        if o[0] == "node":
            p = tuple(segs(o[2]))
            if p in seen: verdicts.append("dup"); created.append([])
            elif len(p) >= 2 and p[:-1] not in seen: verdicts.append("orphan"); created.append([])
            else:
                verdicts.append("ok"); seen[p] = len(decl); decl.append((p, o[1], False)); created.append([p])
        elif o[0] == "ndl":
            q = tuple(segs(o[1]))
            if q in seen: verdicts.append("dup"); created.append([])
            elif len(q) >= 2 and q[:-1] not in seen: verdicts.append("orphan"); created.append([])
            else:
                verdicts.append("ok")
                bp = block_paths(q, o[2])
                for k, x in enumerate(bp):
                    seen[x] = len(decl); decl.append((x, o[3][k] if k < len(o[3]) else 1, True))
                created.append(bp)
    return verdicts, decl, seen, created


def preorder(decl):
    kids = {}
    for d in decl:
        p = d[0]
        kids.setdefault(p[:-1], []).append(p)
    out = []

    def go(q):
        for c in kids.get(q, []):
            out.append(c)
            if c != ():          # the module at path "" is listed with the top-level nodes
                go(c)
    go(())
    return out


def monitor(script, out):
    """C12 evaluated on the implementation's output alone."""
    try:
        recs, nodes, start, end, failed = walk(script, out)
    except (Bad, IndexError) as e:
        return "malformed output: %s" % e
    ops = [o for o, _ in parse(script)]
    ins = [o for o in ops if o[0] in ("node", "ndl")]
    all_wf = all(wf(o[2]) if o[0] == "node" else block_wf(o) for o in ins)
    if failed:
        return "run() returned an error although no module fails"
    if not all_wf and any(o[0] == "ndl" for o in ins):
        return None   # an ill-formed block may be left half built; correspondence only
    if any(o[0] == "ndl" and o[1] == "" for o in ins[1:]):
        # a block attached at the root path "" after other nodes exist: its children may collide with existing
        # top-level nodes (the block is then left half built), and whether the module at "" is the parent of
        # what existed before is not something the property fixes; correspondence only
        return None
    # created modules as the implementation reports them, in creation order: one per accepted node op, the
    # block's nodes in depth-first order per accepted NDL block
    stages = {}
    for o, r in recs:
        if o[0] == "node" and r["ok"]:
            stages[len(stages)] = o[1]
        elif o[0] == "ndl" and r["ok"]:
            for k, _ in enumerate(block_paths(tuple(segs(o[1])), o[2])):
                stages[len(stages)] = o[3][k] if k < len(o[3]) else 1
    # --- exactly once per declared stage / barrier / end once (no tree knowledge needed)
    seen_calls = {}
    last_stage = 0
    for (ordn, st, pos, par) in start:
        if ordn not in stages: return "at_sim_start called on unknown module #%d" % ordn
        if st >= stages[ordn]: return "module #%d declares %d stages but got at_sim_start(%d)" % (ordn, stages[ordn], st)
        seen_calls[(ordn, st)] = seen_calls.get((ordn, st), 0) + 1
        if seen_calls[(ordn, st)] > 1: return "at_sim_start(%d) called twice on module #%d" % (st, ordn)
        if st < last_stage: return "stage barrier violated: a stage-%d call after a stage-%d call" % (st, last_stage)
        last_stage = st
    for k, s in stages.items():
        for st in range(s):
            if (k, st) not in seen_calls: return "module #%d never got at_sim_start(%d)" % (k, st)
    ends = sorted(e[0] for e in end)
    if ends != list(range(len(stages))):
        return "at_sim_end not exactly once per module: %s for %d modules" % (ends, len(stages))
    if not all_wf:
        return None   # ill-formed element strings are outside the property; correspondence still compares them
    # --- builder contract
    verdicts, decl, seen, created = declared_tree(script)
    vi = 0
    for o, r in recs:
        if o[0] not in ("node", "ndl"): continue
        v = verdicts[vi]; vi += 1
        what = "node %r" % o[2] if o[0] == "node" else "NDL block at %r" % o[1]
        dup_site, orphan_site = (1, 2) if o[0] == "node" else (4, 5)
        if v == "dup" and (r["ok"] or r["site"] != dup_site): return "duplicate %s was not rejected as duplicate: %s" % (what, r)
        if v == "orphan" and (r["ok"] or r["site"] != orphan_site): return "%s without parent was not rejected: %s" % (what, r)
        if v == "ok" and not r["ok"]: return "valid %s was rejected (site %s)" % (what, r.get("site"))
    root = seen.get(())
    if root is not None and root != 0:
        # a module at path "" created after other nodes: whether it is the parent of the nodes that existed before
        # is not something the property fixes; tree order and lookups are compared model-vs-implementation only
        return None

    def parents_ok(p, got):
        if len(p) >= 2: return got == seen[p[:-1]] + 1
        if p == () or root is None: return got == 0
        return got in (0, root + 1)      # top-level node next to a root module: both readings accepted
    # --- vector = pre-order of the declared tree, siblings in creation order
    pre = preorder(decl)
    exp_nodes = [utf8(".".join(p)) for p in pre]
    if nodes != exp_nodes:
        return "module order is not the pre-order of the declared tree: got %s expected %s" % (
            [bytes(x).decode("utf-8", "replace") for x in nodes], [".".join(p) for p in pre])
    index = {p: i for i, p in enumerate(pre)}
    # --- within a stage: pre-order; object path and parent seen inside the callbacks
    by_stage = {}
    for (ordn, st, pos, par) in start:
        by_stage.setdefault(st, []).append(ordn)
        p = decl[ordn][0]
        if pos != index[p]: return "module #%d saw path at index %d in at_sim_start, declared %r is at %d" % (ordn, pos, p, index[p])
        if not parents_ok(p, par): return "module %r: parent() gave %d, which is not its declared parent" % (p, par)
    for st, got in by_stage.items():
        exp = [seen[p] for p in pre if decl[seen[p]][1] > st]
        if got != exp: return "stage %d calls not in tree order: got %s expected %s" % (st, got, exp)
    for (ordn, pos) in end:
        if pos != index[decl[ordn][0]]: return "module #%d saw a foreign path in at_sim_end" % ordn
    # --- lookups agree with the tree declared so far
    cur = {}   # path -> ordinal, as of the op
    vi = 0
    for o, r in recs:
        if o[0] in ("node", "ndl"):
            for x in created[vi]: cur[x] = len(cur)
            vi += 1
        elif o[0] == "get" and wf(o[1]):
            p = tuple(segs(o[1]))
            if (p in cur) != r["found"]: return "get(%r) found=%s but declared=%s" % (o[1], r["found"], p in cur)
            if r["found"]:
                if (r["ord"], r["depth"], r["str"], r["name"]) != (cur[p], len(p), utf8(o[1]), utf8(p[-1])) or not parents_ok(p, r["parent"]):
                    return "get(%r) disagrees with the declared tree: %s" % (o[1], r)
        elif o[0] == "child" and wf(o[1]):
            p = tuple(segs(o[1]))
            if (p in cur) != r["found"]: return "get(%r) found=%s but declared=%s" % (o[1], r["found"], p in cur)
            if r["found"] and o[2] != "" and "." not in o[2]:
                exp = cur[p + (o[2],)] + 1 if p + (o[2],) in cur else 0
                if r["child"] != exp: return "child(%r,%r) gave %d, declared tree says %d" % (o[1], o[2], r["child"], exp)
        elif o[0] == "from" and wf_or_root(o[1]):
            s = segs(o[1])
            exp = {"depth": len(s), "name": utf8(s[-1]) if s else [], "pstr": utf8(".".join(s[:-1]))}
            exp["parent"] = None if not s else {"depth": len(s) - 1, "str": utf8(".".join(s[:-1])),
                                                 "name": utf8(s[-2]) if len(s) >= 2 else [], "eq": 1}
            if r != exp: return "ObjectPath::from(%r) bookkeeping wrong: %s" % (o[1], r)
        elif o[0] == "app" and wf_or_root(o[1]) and o[2] != "" and "." not in o[2]:
            s = segs(o[1]) + [o[2]]
            exp = {"depth": len(s), "str": utf8(".".join(s)), "name": utf8(o[2]), "eq": 1, "peq": 1}
            if r != exp: return "from(%r).appended(%r) violates the path laws: %s" % (o[1], o[2], r)
    return None


# ---------------------------------------------------------------- coverage
def mechanisms(script, out):
    m = set()
    ops = [o for o, _ in parse(script)]
    ins = [o for o in ops if o[0] in ("node", "ndl")]
    if not all(wf(o[2]) if o[0] == "node" else block_wf(o) for o in ins):
        m.add("ill_formed_string")
        return m
    verdicts, decl, seen, created = declared_tree(script)
    if "dup" in verdicts: m.add("duplicate_rejected")
    if "orphan" in verdicts: m.add("orphan_rejected")
    vec = []
    parents_seen = []
    by_ndl = set()
    for o, v, made in zip(ins, verdicts, created):
        if o[0] == "ndl":
            if v != "ok":
                m.add("ndl_block_rejected")
            else:
                q = made[0]
                if q == (): m.add("ndl_block_at_root")
                elif len(q) == 1: m.add("ndl_block_top_level")
                if len(q) >= 1 and q[:-1] in by_ndl: m.add("ndl_block_nested")
                if any(k > 0 for k, _ in o[2]): m.add("ndl_block_with_cluster")
                if len(o[2]) >= 2: m.add("ndl_block_with_grandchildren")
                if len(q) >= 2:
                    par = q[:-1]
                    j = vec.index(par) + 1
                    while j < len(vec) and len(vec[j]) > len(par): j += 1
                    if j < len(vec): m.add("ndl_block_attached_below_node_with_later_sibling")
        for p in made:
            par = p[:-1]
            if len(p) >= 2:
                i = vec.index(par) + 1
                j = i
                while j < len(vec) and len(vec[j]) > len(par):
                    if len(vec[j]) > len(par) + 1: m.add("skip_over_grandchildren")
                    j += 1
                if j < len(vec): m.add("insert_before_later_subtree")
                if j > i: m.add("insert_after_existing_siblings")
                vec.insert(j, p)
            else:
                vec.append(p)
            if o[0] == "ndl": by_ndl.add(p)
            elif len(p) >= 2 and par in by_ndl: m.add("plain_node_below_ndl_node")
            if par in parents_seen and parents_seen[-1] != par: m.add("interleaved_parents")
            parents_seen.append(par)
    for p, st, _ in decl:
        if st == 0: m.add("zero_stages")
        if st >= 2: m.add("multi_stage")
        if len(p) >= 4: m.add("depth_ge_4")
        if p and any(ord(c) > 127 for c in p[-1]): m.add("non_ascii_name")
    sib = {}
    for p, _, _ in decl:
        if p: sib.setdefault(p[:-1], []).append(p[-1])
    for names in sib.values():
        if any(a != b and b.startswith(a) for a in names for b in names): m.add("sibling_name_prefix")
        if len(names) >= 3: m.add("fanout_ge_3")
    if len({st for _, st, _ in decl}) >= 3: m.add("mixed_stage_counts")
    for o in ops:
        if o[0] == "get": m.add("query_parent_path")
        if o[0] == "child": m.add("query_child")
        if o[0] in ("from", "app"): m.add("path_ops")
    return m


def nontrivial(script, out):
    return len(mechanisms(script, out) - {"query_parent_path", "query_child", "path_ops"}) >= 3
