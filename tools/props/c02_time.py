"""C02, time part — the representation of simulated time (SimTime / Duration arithmetic and the clock).

"inside every event handler SimTime::now() equals exactly the timestamp the event was scheduled with" and every
deadline computed as `now + delay` rest on SimTime arithmetic being exact nanosecond arithmetic over the
(secs: u64, nanos: u32) pair and on the two-atomics clock giving back what was stored.  Every other model writes a
time as one natural number of nanoseconds; this part proves that abstraction sound for the pair-level model of
des/src/time/{mod,duration}.rs (coq/Time) and runs that model against the real type."""
ID = "C02"; PART = "time"; MODEL = "simtime"; IMPL = "simtime"
COQ_PROP = "Properties/C02_time.v"; COQ_DIRS = ["Common", "Time"]
COQ_MODULE = "Time.Model"; RUN_FN = "run"
THEOREMS = ["C02_time_representation_iso", "C02_time_add_exact", "C02_time_sub_exact", "C02_clock_roundtrip",
            "C02_start_time_buildable_iff", "C02_time_as_nanoseconds_is_faithful"]
QUICK_N = 3000; THOROUGH_N = 200000
RULE = ("scripts of 1..14 operations on one SimTime variable (set, +, +=, -, -=, checked_add/sub, cmp/==/duration_since in "
        "three flavours/duration_diff, eq_approx, clock via a runtime built with start_time(cur), ZERO/MIN/MAX) with operands "
        "drawn from boundary families (0, 1 ns, 10^9-1 ns, whole seconds, 2^23 s..2^53 ns +- odd nanoseconds where f64 stops "
        "being exact, 2^32/2^63/2^64-1 seconds, the last bucket width of the range) and operands derived from the current "
        "value (equal, +-1 ns, complement to the range end); non-trivial = distinct script with a carry or borrow between "
        "the fields, or a refused operation")
TRUSTED = ["std::time::Duration is modelled from its source (checked_add/checked_sub/new/derive(Ord)); the correspondence "
           "check compares it with the model on every run",
           "f64 conversions (From<f64>, Add<f64>, Div, PartialEq<f64>) and serde of SimTime are not modelled: floats are "
           "never compared; the runtime, net layer and timers do not use them"]
ASSUMPTIONS = ["operands are valid Durations (nanos < 10^9), as every caller of the public API can only construct"]
CLAIM = None

NPS = 10**9
U64 = 2**64
LIMIT = U64 * NPS
WIDTH = 2500000
ARITY = {1: 2, 2: 2, 3: 2, 4: 2, 5: 2, 6: 2, 7: 2, 8: 2, 9: 4, 10: 0, 11: 1}
NAMES = {1: "set", 2: "+", 3: "+=", 4: "-", 5: "-=", 6: "checked_add", 7: "checked_sub", 8: "relate", 9: "eq_approx",
         10: "clock", 11: "const"}


def ops_of(script):
    ops, i = [], 0
    while i < len(script):
        c = script[i]
        if c not in ARITY or i + 1 + ARITY[c] > len(script):
            break
        ops.append(tuple(script[i:i + 1 + ARITY[c]]))
        i += 1 + ARITY[c]
    return ops


def split(script):
    return [], ops_of(script)


def join(hdr, ops):
    out = []
    for o in ops:
        out += list(o)
    return out


def ns(s, n):
    return (s % U64) * NPS + (n % NPS)


def pn(x):
    return [x // NPS, x % NPS]


def reference(script):
    """exact integer arithmetic, written independently of the Coq model: (expected output, facts)"""
    cur, out, facts = 0, [], set()
    for o in ops_of(script):
        c = o[0]
        if c == 1:
            cur = ns(o[1], o[2]); out += [1] + pn(cur)
        elif c in (2, 3, 6):
            d = ns(o[1], o[2]); r = cur + d
            if (cur % NPS) + (d % NPS) >= NPS: facts.add("carry_into_seconds")
            if r >= LIMIT: facts.add("addition_refused")
            if d >= 2**53 and d % 2 == 1: facts.add("odd_duration_beyond_f64_mantissa")
            if c == 6:
                out += [6, 1] + pn(r) if r < LIMIT else [6, 0]
            elif r < LIMIT:
                cur = r; out += [c, 0] + pn(cur)
            else:
                out += [c, 9]
        elif c in (4, 5, 7):
            d = ns(o[1], o[2])
            if d <= cur and (cur % NPS) < (d % NPS): facts.add("borrow_from_seconds")
            if d > cur: facts.add("subtraction_refused")
            if c == 7:
                out += [7, 1] + pn(cur - d) if d <= cur else [7, 0]
            elif d <= cur:
                cur -= d; out += [c, 0] + pn(cur)
            else:
                out += [c, 9]
        elif c == 8:
            d = ns(o[1], o[2])
            out += [8, 0 if cur < d else (1 if cur == d else 2), int(cur == d)]
            out += ([1] + pn(cur - d)) if d <= cur else [0]
            out += pn(max(cur - d, 0)) + pn(abs(cur - d))
            if cur // NPS == d // NPS and cur != d: facts.add("order_decided_by_nanos")
            if d > cur: facts.add("duration_since_later_time")
        elif c == 9:
            d = ns(o[1], o[2]); e = ns(o[3], o[4])
            out += [9, int(abs(cur - d) < e)]
            if abs(cur - d) == e: facts.add("eq_approx_at_the_error_bound")
        elif c == 10:
            ok = (cur // WIDTH) * WIDTH + WIDTH < LIMIT
            out += ([10, 0] + pn(cur)) if ok else [10, 9]
            facts.add("clock_read_back" if ok else "start_time_in_last_bucket_width")
            if cur >= 2**64: facts.add("clock_beyond_2^64_ns")
        elif c == 11:
            cur = LIMIT - 1 if o[1] == 2 else 0; out += [11] + pn(cur)
    return out, facts


def monitor(script, out):
    exp, _ = reference(script)
    if out == exp:
        return None
    # locate the first differing record for the message
    i = 0
    while i < min(len(out), len(exp)) and out[i] == exp[i]:
        i += 1
    return ("SimTime arithmetic is not exact nanosecond arithmetic: output differs from the integer reference at position %d "
            "(got %s, expected %s)" % (i, out[max(0, i - 3):i + 4], exp[max(0, i - 3):i + 4]))


def nontrivial(script, out):
    _, f = reference(script)
    return bool(f & {"carry_into_seconds", "borrow_from_seconds", "addition_refused", "subtraction_refused",
                     "start_time_in_last_bucket_width"})


def mechanisms(script, out):
    return sorted(reference(script)[1])


def pretty(script):
    def d(s, n):
        return "%d.%09ds" % (s % U64, n % NPS)
    parts = []
    for o in ops_of(script):
        c = o[0]
        if c == 9:
            parts.append("eq_approx(%s, err=%s)" % (d(o[1], o[2]), d(o[3], o[4])))
        elif c == 10:
            parts.append("clock")
        elif c == 11:
            parts.append("cur:=" + ("MAX" if o[1] == 2 else "ZERO"))
        else:
            parts.append("%s %s" % (NAMES[c], d(o[1], o[2])))
    return "; ".join(parts)


def _val(rng, cur):
    """a nanosecond count from a boundary family or derived from the current value"""
    k = rng.randrange(16)
    if k == 0: v = rng.choice([0, 1, 2, NPS - 1, NPS, NPS + 1, 2 * NPS - 1])
    elif k == 1: v = rng.randrange(0, 5 * NPS)
    elif k == 2: v = rng.randrange(0, 2**40) * NPS + rng.choice([0, 1, NPS - 1, rng.randrange(NPS)])
    elif k == 3: v = 2**rng.randrange(50, 64) + rng.choice([-1, 0, 1, 3, 12345, -7])          # around / beyond f64's mantissa
    elif k == 4: v = rng.randrange(2**23, 2**34) * NPS + rng.choice([1, 3, 999999999, 2 * rng.randrange(NPS // 2) + 1])
    elif k == 5: v = 2**64 + rng.choice([-2, -1, 0, 1, NPS]) * rng.choice([1, NPS])            # the u64-nanoseconds boundary
    elif k == 6: v = rng.choice([2**32, 2**63, U64 - 1, U64 - 2]) * NPS + rng.choice([0, 1, NPS - 1, rng.randrange(NPS)])
    elif k == 7: v = LIMIT - 1 - rng.choice([0, 1, WIDTH - 1, WIDTH, WIDTH + 1, 2 * WIDTH, rng.randrange(3 * WIDTH), NPS])
    elif k == 8: v = cur
    elif k == 9: v = cur + rng.choice([-1, 1, -NPS, NPS, -(cur % NPS) - 1, NPS - (cur % NPS)])
    elif k == 10: v = LIMIT - 1 - cur + rng.choice([0, 1, -1, 2])                               # complement to the range end
    elif k == 11: v = (cur // NPS) * NPS + rng.randrange(NPS)                                   # same second
    elif k == 12: v = rng.randrange(LIMIT)
    elif k == 13: v = rng.randrange(0, 2**20)
    elif k == 14: v = rng.randrange(U64) * NPS + rng.choice([0, NPS - 1])
    else: v = rng.randrange(0, 2**64)
    return min(max(v, 0), LIMIT - 1)


def gen(rng, n):
    for _ in range(n):
        cur, s = 0, []
        for _ in range(rng.randint(1, 14)):
            c = rng.choice([1, 1, 2, 2, 2, 3, 3, 4, 4, 5, 6, 7, 8, 8, 9, 10, 11])
            if c == 10:
                s += [10]
            elif c == 11:
                k = rng.choice([0, 1, 2, 2]); s += [11, k]
            elif c == 9:
                v = _val(rng, cur); e = abs(cur - v) + rng.choice([0, 0, 1, -1, NPS, rng.randrange(3)])
                e = min(max(e, 0), LIMIT - 1)
                s += [9] + pn(v) + pn(e)
            else:
                v = _val(rng, cur)
                if c in (2, 3) and rng.random() < 0.6 and cur + v >= LIMIT:
                    v = rng.randrange(0, LIMIT - cur)
                if c in (4, 5) and rng.random() < 0.6 and v > cur:
                    v = rng.randrange(0, cur + 1)
                s += [c] + pn(v)
            # track the variable with the reference semantics
            cur = _cur_after(s)
        yield s


def _cur_after(script):
    cur = 0
    for o in ops_of(script):
        c = o[0]
        if c == 1: cur = ns(o[1], o[2])
        elif c in (2, 3):
            if cur + ns(o[1], o[2]) < LIMIT: cur += ns(o[1], o[2])
        elif c in (4, 5):
            if ns(o[1], o[2]) <= cur: cur -= ns(o[1], o[2])
        elif c == 11: cur = LIMIT - 1 if o[1] == 2 else 0
    return cur


def exhaustive():
    """every binary operation on every pair of boundary values"""
    B = [0, 1, NPS - 1, NPS, NPS + 1, 2**53 - 1, 2**53 + 1, 10**16 + 1, 2**64 - 1, 2**64, 2**64 + 1,
         (U64 - 1) * NPS, LIMIT - 1 - WIDTH, LIMIT - WIDTH, LIMIT - 2, LIMIT - 1]
    for a in B:
        for b in B:
            for c in (2, 3, 4, 5, 6, 7, 8):
                yield [1] + pn(a) + [c] + pn(b) + [10]
            yield [1] + pn(a) + [9] + pn(b) + pn(abs(a - b)) + [9] + pn(b) + pn(min(abs(a - b) + 1, LIMIT - 1))
