"""C13 — A panicking module is contained, attributed and does not disturb other modules."""
import copy
from props.life_common import *  # noqa
from props import c09

ID = "C13"; MODEL = "life"; IMPL = "life"
COQ_PROP = "Properties/C13.v"; COQ_DIRS = ["Common", "Life"]
COQ_MODULE = "Life.Model"; RUN_FN = "run"
THEOREMS = ["C13_contained", "C13_errors_exact", "C13_ok_only_if_no_uncaught_panic", "C13_globals_released",
            "C13_others_as_if_silent", "C13_stereotype_in_force", "C13_errors_exact_full", "C13_ok_iff", "C13_others_teardown", "C13_silent_ends_no_later", "C13_only_catch_flag_matters",
            "C13_others_as_if_silent_cq", "C13_others_teardown_cq", "C13_silent_ends_no_later_cq", "C13_errors_exact_full_cq", "C13_ok_iff_cq"]
QUICK_N = 2500; THOROUGH_N = 120000
RULE = ("scripts as for C09 (2..4 scripted modules with handler / start / task / end programs, injected messages) with a panic -- an "
        "explicit panic!(), or one raised by the library on behalf of the module: schedule_at / send_at / "
        "current().shutdow_and_restart_at called with a time stamp in the past (now - d, d >= 1 ns; at now = 0, where no past exists, "
        "the script panics itself); or one that BEGINS WHILE A LIBRARY LOCK IS HELD: a panic inside a closure given to Prop::update / "
        "Prop::map of the module's own property, or a re-entrant access to that property from inside such a closure (the library's own "
        "'Could not lock mutex' panic), followed in the same run by reads of that property from other modules (through their ModuleRef) "
        "and from the module itself after a restart; or a zero-delay send through a channel whose ChannelProbe panics (user code run "
        "under the process-global event buffer lock) -- placed in "
        "handle_message, at_sim_start (initial and restarts), at_sim_end and in spawned tasks: every (module, callback kind, program, "
        "position) of a healthy base simulation, all 32 stereotypes (on_panic_catch x the four flags des never reads: on_panic_drop, "
        "on_panic_restart, on_panic_drop_submodules, on_panic_inform_parent), set_stereotyp (any of the 32) from "
        "callbacks and tasks -- in the very callback that panics, in an earlier event, in another program, before a restart --, one or "
        "modules whose Module::reset calls schedule_in / send_in (buf_process holds the event buffer lock while it runs reset: the library's "
        "'Could not lock mutex' panic, with the buffer used again afterwards by other modules and by the restarted module), several panicking modules, panics after a shutdown request in the same callback, task handles given to join() or try_join() "
        "(tasks that finish, panic, are cancelled by a shutdown or are still asleep at the end), a family in which the dead module's "
        "left-over timers prolong the run and the other modules act in at_sim_end; each script is simulated twice in one "
        "process, and a third time with the panics of one module replaced by 'quiet' (falls silent) to compare the other modules' logs.  "
        "non-trivial = distinct script whose run contains a callback panic and a later event of another module")
TRUSTED = c09.TRUSTED + [
    "every module's property 'p' is 100 + its index, set before the run and never changed (the lock-held panics start before anything "
    "is written), so a property read is a log of a constant and the model carries no property state; what the real code leaves after a "
    "closure that writes and then panics (the write persists, there is no roll-back) was looked up by hand, not modelled",
    "a library-raised panic is scripted as: write the panic record, then call schedule_at / send_at / shutdow_and_restart_at with a past time stamp; if the "
    "library does not panic inside the call the program simply goes on (and the log shows it)",
    "a callback panic is observed through the record the scripted callback writes just before panic!() (it carries the on_panic_catch "
    "flag read from current().stereotyp() at that moment); set_stereotyp calls are logged by the script action that makes them; the "
    "error list is read from the RuntimeError returned by Runtime::finish (PanicError / JoinError paths; the JoinError kind from its "
    "Debug form); join() / try_join() calls and the end of every task (completed / about to panic / future dropped) are logged by the "
    "scripted code",
    "'falls silent' (the comparison run of others_as_if_silent) is the script action quiet: request shutdown() unless a request is pending, "
    "return, and let the tasks polled in that event end without acting"]
ASSUMPTIONS = c09.ASSUMPTIONS
CLAIM = dict(
    text="Machine-checked (Coq 8.16, axiom-free) for the model of unwind.rs/events.rs/ctx.rs/mod.rs (Harness::exec/catch as: the rest of "
         "the callback and the yield are skipped, the module is deactivated, a PanicError is recorded unless Stereotyp.on_panic_catch as "
         "read when the panic is caught, i.e. after the callback), "
         "for every script of 2..4 modules with panics (explicit, or raised by schedule_at / send_at / shutdow_and_restart_at called with a past time stamp -- in "
         "the model each is a panic at that point of the callback) anywhere in handle_message / at_sim_start / at_sim_end / tasks, task handles given "
         "to join() or try_join(), any number of "
         "panicking modules, both stereotypes and set_stereotyp anywhere in callbacks and tasks: (1) contained: after a callback of m panicked no start-up stage and no dispatched event holds any record of m "
         "(no handler, wake-up, task step, send) until a restart event of m, which exists only if m itself requested "
         "shutdow_and_restart before it panicked; (2) errors_exact + stereotype_in_force: the PanicError entries of the returned error are "
         "exactly the callback panics caught while the module's stereotype in force does not catch -- in force = the last set_stereotyp "
         "of the module before the panic, in the panicking callback itself or earlier, across shutdown / restart, else the configured "
         "one --, one per panic, in the order of the panics; errors_exact_full: the complete returned list, entry by entry: the "
         "PanicErrors of start-up and dispatched events in order, then per module in tree order either the PanicError of its at_sim_end "
         "callback (join section skipped) or its join errors -- try_join handles first, in spawn order over all incarnations, a Paniced "
         "entry for each panicked task; then the join handles in that order: NotFinished for a task that has not ended, Paniced, "
         "Tokio(cancelled) for a task dropped with the tokio runtime of an earlier incarnation -- where handles and task fates are read "
         "off the trace (spawn / task-end records); ok_iff: run() returns Ok exactly if that list is empty; (3) globals_released: "
         "after every start-up step and every dispatched event, panicking ones included, the module-context slot is empty and the event "
         "buffer drained, and the slot is empty after every at_sim_end; (4) others_as_if_silent: for every module m (any stereotype, any "
         "number of start-up stages), every record of every other module during start-up and event dispatch is the same as in the run where m's "
         "callbacks fall silent (return, request shutdown unless a request is pending, polled tasks end) wherever they panic -- proved "
         "as a two-phase simulation (equal worlds until the panic; afterwards equal up to events that are inert for a dead m); "
         "others_teardown: the tear-down (at_sim_end) records of every other module are the same in the two runs once the time stamps of "
         "the call records are blanked (the runs may end at different instants; proved via: when the event set runs empty no module has "
         "a pending timer or next_wakeup); silent_ends_no_later: every tear-down record of the run in which m falls silent is stamped "
         "no later than every tear-down record of the run in which it panics (proved via 'nothing is scheduled into the past': the "
         "event set's clock is the time of the last dispatched event, every queued event lies at or after it, timer queues are sorted, "
         "so a run ends exactly at its never-decreasing horizon, and the silent run's horizon stays at or below the panicking one's).  "
         "Composition with C01: the model's event loop over the concrete calendar queue (any n, t >= 1) returns the same result as over the "
         "event-set specification (Properties/C09.v C09_run_script_over_cqueue, through C01's refinement relation), and (2), (4) and "
         "silent_ends_no_later are restated for the run over the calendar queue itself (_cq theorems).  Tied to "
         "des on every invocation by differential runs (panic!() in scripted callbacks and tasks on the real runtime, set_stereotyp, "
         "RuntimeError contents, is_active samples after every event), each script simulated twice in one process (the second run must "
         "equal the first: global state stays usable) and, for callback panics, a third time in its falls-silent variant whose other "
         "modules' logs are compared; the monitor states (1), (2) (tracking the stereotype in force from the logged set_stereotyp calls "
         "and checking the flag sampled at each panic against it; the full error list predicted from the logged panics, join/try_join "
         "calls and task ends), the second-simulation equality, (4) incl. the tear-down records up to their time stamp, and 'the run in "
         "which m falls silent does not end later than the one in which it panics' on the implementation's log.",
    note="Partial: unwinding itself (that catch_unwind leaves tokio's and Rust's internal state intact, lock poisoning) is not modelled, only "
         "observed through the second simulation. Panics inside spawned tasks are caught by tokio and reported as JoinErrors by at_sim_end "
         "(join / try_join); they do not deactivate the module (the property text says they should; the code does not). JoinHandles "
         "survive shutdown/restart (reset_join_handles is only called by the AsyncFn wrapper), so a join()ed task cancelled by a shutdown "
         "yields a Tokio(cancelled) JoinError at the end, and the tear-down goes on after an error (the early return in "
         "Sim::at_sim_end tests the freshly swapped-in empty error) -- both modelled as the code behaves. (4) was false for every multi-stage module "
         "before 1526470 (the start-up sweep ran the later stages of a module whose stage 0 panicked) and for catching multi-stage "
         "modules before 9e87d89 (module_restart went on with the later stages after a caught panic): Refuted/C13.v, "
         "corpus/C13/multistage_panic.txt; a runtime that samples the stereotype before the callback is the pinned variant (c) there. "
         "The tear-down records of other modules agree up to the final time stamp (left-over wake-ups of the dead module move the end of "
         "the simulation): proved (others_teardown), and so is that the silent run never ends later than the panicking one "
         "(silent_ends_no_later; the monitor clause stays). at_sim_end is called on panicked modules too. Only on_panic_catch of the "
         "five Stereotyp flags is read by des, and never by the model (C13_only_catch_flag_matters: a module's configuration and the decoded "
         "set_stereotyp action do not depend on the other four). Locks: des_net_utils::sync::Mutex guards the property slots and the "
         "process-global BUF_CTX; panics that begin under a property lock are scripted (closure panic, re-entrant access) and the lock must "
         "be usable afterwards; BUF_CTX is held by buf_process while it calls Module::reset, so the public send/schedule API panics with "
         "'Could not lock mutex on single thread' when used from reset(): scripted (per-module flag) and modelled as the code behaves -- "
         "contained, reported as PanicError whatever the stereotype says (Harness::pass), nothing else of the shutdown/restart bookkeeping "
         "changes (C09_reset_panic_frame); a panicking ChannelProbe on a zero-delay send (user code under BUF_CTX) is scripted as a panic of "
         "the sender. Panicking destructors of message bodies run outside callbacks are out of scope (fixes/F20.md). Before 09c7b16 (F19) "
         "current().shutdow_and_restart_at(t) with t in the past was accepted inside the callback and rejected only when buf_process "
         "handed the restart event to the runtime, outside the panic harness -- run() itself panicked (not contained, not attributed): "
         "Refuted/C13.v (d), corpus/C13/library_panics.txt line 3; since the fix the call panics inside the callback and is scripted "
         "like the other two.",
    technique="Coq: trace invariants over a step relation (panic => inactive, inactive => no records), error-list bookkeeping, and a "
              "stuttering two-run simulation with a relational reading of the interpreter; differential correspondence check; log monitor",
    design="6/C13")

PANICKY = None  # set by gen


# ----------------------------------------------------------------------------- the property on the implementation's log
def check_panics(d, rs):
    run = Run(d, rs)
    k = run.k
    dead = [False] * k          # a callback panicked and the module was not restarted since
    dead_at = [None] * k
    pending = [False] * k       # a restart of the module is pending
    panics = []                 # (module, on_panic_catch when it panicked) of callback panics, in order
    catching = [mod["catch"] for mod in d["mods"]]      # Stereotyp.on_panic_catch in force, as the log lets a reader follow it
    task_panics = [0] * k
    body_errs = []              # expected PanicErrors of the start-up phase and the dispatched events
    end_panic = [False] * k     # the module's at_sim_end callback panicked while its stereotype did not catch
    spawns = [[] for _ in range(k)]     # (incarnation, id, must) of every JoinHandle, in the order they were handed over
    fate = {}                   # (module, incarnation, id) -> 0 completed | 1 panicked | 2 dropped with its runtime
    inc = [0] * k
    for phase, t, mask, recs in run.units():
        ms = {rec_mod(r) for r in recs}
        m = next(iter(ms)) if len(ms) == 1 else None
        if m is None:
            if phase == "loop":
                for i in range(k):
                    if dead[i] and (mask >> i) & 1:
                        raise Bad("is_active(module %d) is true after the event at %d although it panicked at %s" % (i, t, dead_at[i]))
            continue
        now = t if phase == "loop" else (0 if phase == "start" else recs[0][3])
        is_restart = phase == "loop" and recs[0][0] == R_START
        if phase != "end" and dead[m]:
            if not is_restart:
                raise Bad("module %d panicked at %s but the %s at %s holds its records %s"
                          % (m, dead_at[m], "event" if phase == "loop" else "start-up sweep", now, recs[:3]))
            if not pending[m]:
                raise Bad("module %d panicked at %s without a pending restart but is restarted at %d" % (m, dead_at[m], t))
        if is_restart:
            dead[m] = False; pending[m] = False
        after = False
        for r in recs:
            if r[0] == R_RESET:
                inc[m] = r[3]
            if r[0] == R_RPANIC:
                # Module::reset runs under Harness::pass: its panic is reported whatever the stereotype says
                body_errs.append((0, m))
            if r[0] == R_SPAWN:
                if r[3] != inc[m]:
                    raise Bad("module %d spawns task %d for incarnation %d but has been reset %d times" % (m, r[2], r[3], inc[m]))
                if r[4] != (d["mods"][m].get("join", 0) >> r[2]) & 1:
                    raise Bad("module %d hands the handle of task %d to %s, the script says otherwise" % (m, r[2], "join" if r[4] else "try_join"))
                spawns[m].append((r[3], r[2], r[4]))
            if r[0] == R_TEND:
                if (m, r[3], r[2]) in fate:
                    raise Bad("task %d of module %d (incarnation %d) ends twice" % (r[2], m, r[3]))
                if not any(sp[0] == r[3] and sp[1] == r[2] for sp in spawns[m]):
                    raise Bad("task %d of module %d (incarnation %d) ends but was never spawned" % (r[2], m, r[3]))
                fate[(m, r[3], r[2])] = r[4]
            if after and r[0] not in (R_CANCEL, R_RESET, R_RPANIC) and not (r[0] == R_TEND and r[4] == 2) and phase != "end":
                raise Bad("module %d: %s follows the panic of its callback in the same event" % (m, r))
            if r[0] == R_SETCATCH:
                catching[m] = r[3]
            if r[0] == R_PANIC:
                if r[3] != catching[m]:
                    raise Bad("module %d panics with on_panic_catch = %d although the stereotype it last set (or was built with) says %d"
                              % (m, r[3], catching[m]))
                if r[2] == 0:
                    after = True; panics.append((m, catching[m])); dead[m] = True; dead_at[m] = now
                    if not catching[m]:
                        if phase == "end":
                            end_panic[m] = True
                        else:
                            body_errs.append((0, m))
                else:
                    task_panics[m] += 1
        req = request_of(now, recs, m)
        if any(r[0] == R_RESET for r in recs):
            pending[m] = bool(req and req[0] == "restart")
        if phase == "loop":
            for i in range(k):
                if dead[i] and (mask >> i) & 1:
                    raise Bad("is_active(module %d) is true after the event at %d although its callback panicked at %s" % (i, t, dead_at[i]))
    # errors_exact_full: the complete error list, entry by entry (code, module)
    want = list(body_errs)
    for m in range(k):
        if end_panic[m]:
            want.append((0, m))         # the PanicError of at_sim_end; its join section is skipped
            continue
        for (i, tid, must) in spawns[m]:        # try_join handles first, in order
            if not must and fate.get((m, i, tid)) == 1:
                want.append((1, m))
        for (i, tid, must) in spawns[m]:        # then the join handles
            if must:
                f = fate.get((m, i, tid))
                if f is None:
                    want.append((2, m))
                elif f == 1:
                    want.append((1, m))
                elif f == 2:
                    want.append((3, m))
    for r in run.errs:
        if r[1] != (0 if r[3] == 0 else 1) or r[3] not in (0, 1, 2, 3) or not 0 <= r[2] < k:
            raise Bad("unexpected error entry %s" % (r,))
    got = [(r[3], r[2]) for r in run.errs]
    if got != want:
        i = next((j for j in range(min(len(got), len(want))) if got[j] != want[j]), min(len(got), len(want)))
        names = {0: "PanicError", 1: "JoinError(Paniced)", 2: "JoinError(NotFinished)", 3: "JoinError(Tokio)"}
        show = lambda e: "%s of module %d" % (names[e[0]], e[1])
        raise Bad("run() returned the errors [%s]; the panics, join handles and task ends in the log call for [%s] (first difference at entry %d)"
                  % (", ".join(show(e) for e in got), ", ".join(show(e) for e in want), i))
    return run, panics, task_panics


def proj(rs, m):
    """what module m experienced: its records of the start-up phase and of the dispatched events, its tear-down records without
    their time stamp (the instant the simulation ends at depends on left-over wake-ups of other modules), its error entries"""
    start, boot, events, end, errs = phases(rs)
    body = [r for r in start if rec_mod(r) == m] + [r for ev in events for r in ev if rec_mod(r) == m]
    tail = [(r[0], r[1], r[2], 0, r[4]) if r[0] in CALLS else r for r in end if rec_mod(r) == m]
    return body + tail + [r for r in errs if r[2] == m]


def monitor(script, out):
    """C13 evaluated on the implementation's log alone"""
    try:
        a, b, v = records3(out)
        d = decode(script)
        check_panics(d, a)
        # global state stays usable: the second simulation in the same process behaves like the first
        if a != b:
            i = next((j for j in range(min(len(a), len(b))) if a[j] != b[j]), min(len(a), len(b)))
            return "the second simulation in the same process differs from the first at record %d: %s vs %s" % (
                i, a[i] if i < len(a) else "end", b[i] if i < len(b) else "end")
        if v is not None:
            m = d["variant"]
            dq = copy.deepcopy(d)
            for ps in (dq["mods"][m]["start"], dq["mods"][m]["msg"], [dq["mods"][m]["end"]]):
                for p in ps:
                    p[:] = [("quiet",) if x[0] in PANICS else x for x in p]
            check_panics(dq, v)
            ta = [r[3] for r in a if r[0] == R_END]
            tv = [r[3] for r in v if r[0] == R_END]
            if ta and tv and tv[0] > ta[0]:
                return ("the simulation in which module %d falls silent ends at %d, later than the one in which it panics (%d): a dead "
                        "module's left-over wake-ups can only prolong the run" % (m, tv[0], ta[0]))
            for o in range(len(d["mods"])):
                if o != m and proj(a, o) != proj(v, o):
                    pa, pv = proj(a, o), proj(v, o)
                    i = next((j for j in range(min(len(pa), len(pv))) if pa[j] != pv[j]), min(len(pa), len(pv)))
                    return ("module %d is disturbed by the panic of module %d: its record %d is %s, but %s in the run where module %d "
                            "merely falls silent" % (o, m, i, pa[i] if i < len(pa) else "missing", pv[i] if i < len(pv) else "missing", m))
    except (ValueError, Bad) as e:
        return str(e)
    except (IndexError, KeyError, TypeError) as e:
        return "malformed log (%s: %s)" % (type(e).__name__, e)
    return None


def panic_source(d, phase, recs, r, inc):
    """the script action behind panic record r: the first panic-like action of the program that ran (a callback also ends at
    `quiet`)"""
    mod = d["mods"][r[1]]
    if r[2] > 0:
        prog = mod["tasks"][r[2] - 1] if r[2] - 1 < len(mod["tasks"]) else []
        stop = PANICS
    else:
        stop = PANICS + ("quiet",)
        if phase == "end":
            prog = mod["end"]
        elif any(x[0] == R_MSG for x in recs):
            x = next(x for x in recs if x[0] == R_MSG)
            prog = mod["msg"][x[2] % len(mod["msg"])] if mod["msg"] else []
        else:
            prog = mod["start"][min(inc, len(mod["start"]) - 1)] if mod["start"] else []
    a = next((a for a in prog if a[0] in stop), None)
    return a[0] if a else None


def mechanisms(script, out):
    ms = set()
    try:
        a, b, v = records3(out)
        d = decode(script)
        run, panics, tp = check_panics(d, a)
    except (ValueError, Bad, IndexError, KeyError, TypeError):
        return ms
    if not panics and not any(tp):
        return ms
    seen = set()
    lockp = set()       # modules that panicked while holding their property's lock
    probed = set()      # modules whose channel probe panicked under the event buffer's lock
    rpan = set()        # modules whose reset panicked (failed re-lock of the event buffer)
    incs = [0] * len(d["mods"])
    if any(mo.get("flags") for mo in d["mods"]):
        ms.add("stereotype_other_flags_set")
    if any(mo.get("flags", 0) & 8 and not mo["catch"] for mo in d["mods"]):
        ms.add("stereotype_inform_parent_without_catch")
    if any(len(x) > 2 and x[2] for mo in d["mods"] for ps in (mo["start"], mo["msg"], mo["tasks"], [mo["end"]]) for p in ps for x in p if x[0] == "setcatch"):
        ms.add("stereotype_other_flags_changed_at_run_time")
    for phase, t, mask, recs in run.units():
        mods = {rec_mod(r) for r in recs}
        for r in recs:
            if r[0] == R_PANIC:
                src = panic_source(d, phase, recs, r, incs[r[1]])
                nowu = t if phase == "loop" else (0 if phase == "start" else next((x[3] for x in recs if x[0] in CALLS), 0))
                if src in ("sched_past", "send_past", "restart_past") and nowu == 0:
                    ms.add("past_call_at_time_zero_panics_by_script")
                elif src == "probe_send":
                    ms.add("panic_in_channel_probe_under_buffer_lock" if nowu > 0 or phase != "end" else "probe_send_of_down_module")
                    probed.add(r[1])
                elif src in ("prop_panic", "prop_reenter"):
                    ms.add("panic_begins_while_property_lock_is_held")
                    ms.add("panic_by_reentrant_property_access" if src == "prop_reenter" else "panic_inside_prop_closure")
                    if r[2] > 0:
                        ms.add("lock_held_panic_in_task")
                    lockp.add(r[1])
                elif src in ("sched_past", "send_past", "restart_past"):
                    api = {"sched_past": "schedule_at_past", "send_past": "send_at_past", "restart_past": "restart_at_past"}[src]
                    ms.add("panic_raised_by_" + api)
                    if r[2] > 0:
                        ms.add("panic_raised_by_" + api + "_in_task")
                    elif any(x[0] == R_MSG for x in recs):
                        ms.add("panic_raised_by_" + api + "_in_handle_message")
                    elif phase == "end":
                        ms.add("panic_raised_by_" + api + "_in_at_sim_end")
                    else:
                        ms.add("panic_raised_by_" + api + "_in_at_sim_start")
                    if any(x[0] in (R_SEND, R_SCHED) and x[1] == r[1] for x in recs):
                        ms.add("library_panic_after_buffered_sends")
            if r[0] == R_RESET:
                incs[r[1]] = r[3]
            if r[0] == R_RPANIC:
                ms.add("reset_calls_send_and_panics")
                if d["mods"][r[1]]["catch"]:
                    ms.add("reset_panic_of_catching_module_reported")
                rpan.add(r[1])
            if r[0] == R_START and phase == "loop" and r[1] in rpan:
                ms.add("restart_after_panicking_reset")
            if r[0] in (R_SEND, R_SCHED) and (rpan or probed):
                ms.add("buffer_used_after_panic_under_its_lock")
                if r[1] in rpan or r[1] in probed:
                    ms.add("buffer_used_by_the_restarted_module_itself")
            if r[0] == R_LOG and r[3] >= 100 and (r[3] - 100) in lockp:
                ms.add("property_read_after_lock_held_panic")
                ms.add("property_read_by_other_module_after_lock_held_panic" if r[1] != r[3] - 100
                       else "property_read_by_the_module_itself_after_restart")
            if r[0] == R_PANIC and r[2] == 0:
                kind = "handle_message" if any(x[0] == R_MSG for x in recs) else ("at_sim_end" if phase == "end" else
                       ("restart_at_sim_start" if phase == "loop" else "at_sim_start"))
                ms.add("panic_in_" + kind)
                ms.add("catching_stereotype" if r[3] else "non_catching_stereotype")
                if any(x[0] == R_SETCATCH and x[1] == r[1] for x in recs):
                    ms.add("stereotype_set_in_the_panicking_callback")
                if r[3] != d["mods"][r[1]]["catch"]:
                    ms.add("stereotype_changed_before_panic")
                if any(x[0] in (R_SHUT, R_QUIET) and x[1] == r[1] for x in recs):
                    ms.add("panic_after_shutdown_request")
                if any(x[0] in (R_SEND, R_SCHED) and x[1] == r[1] for x in recs):
                    ms.add("sends_before_panic_flushed")
            if r[0] == R_PANIC and r[2] > 0:
                ms.add("panic_in_task")
        if phase == "loop" and seen and mods and not mods <= seen:
            ms.add("other_module_event_after_panic")
        if phase == "loop" and not recs and seen:
            ms.add("event_ignored_after_panic")
        if phase == "end" and any(r[0] in (R_TASK, R_TIMER) for r in recs) and mods <= seen:
            ms.add("tasks_of_panicked_module_polled_at_sim_end")
        for r in recs:
            if r[0] == R_PANIC and r[2] == 0:
                seen.add(r[1])
    pm_ = [m for m, c in panics]
    if len(set(pm_)) >= 2:
        ms.add("several_modules_panic")
    if len(pm_) > len(set(pm_)):
        ms.add("module_panics_again_after_restart")
    if any(r[1] == 1 for r in run.errs):
        ms.add("join_error_reported")
    for r in run.errs:
        if r[3] in (1, 2, 3):
            ms.add(["", "join_error_paniced", "join_error_not_finished", "join_error_cancelled_by_shutdown"][r[3]])
    if any(r[0] == R_SPAWN and r[4] == 1 for r in a) and any(r[0] == R_SPAWN and r[4] == 0 for r in a):
        ms.add("join_and_try_join_handles")
    if any(r[0] == R_SPAWN and r[3] > 0 for r in a) and any(r[1] == 1 for r in run.errs):
        ms.add("join_error_with_handles_of_several_incarnations")
    if any(r[1] == 0 for r in run.errs) and any(r[1] == 1 for r in run.errs):
        ms.add("panic_and_join_errors_mixed")
    if not run.errs and panics:
        ms.add("run_ok_all_caught")
    if v is not None:
        ms.add("silent_variant_compared")
        ta = [r[3] for r in a if r[0] == R_END]; tv = [r[3] for r in v if r[0] == R_END]
        if ta and tv and ta[0] != tv[0]:
            ms.add("silent_variant_ends_earlier")
        if any(r[0] == R_END and r[1] != d["variant"] for r in a) and any(r[0] in (R_TASK, R_TIMER, R_SEND, R_LOG) and r[1] != d["variant"]
                                                                       for r in phases(a)[3]):
            ms.add("other_module_acts_in_tear_down")
        if d["mods"][d["variant"]]["stages"] > 1 and d["mods"][d["variant"]]["catch"]:
            ms.add("silent_variant_catching_multi_stage")
        if d["mods"][d["variant"]]["stages"] > 1:
            ms.add("silent_variant_multi_stage")
    return ms


def nontrivial(script, out):
    ms = mechanisms(script, out)
    return any(x.startswith("panic_in_") for x in ms) and ("other_module_event_after_panic" in ms or "event_ignored_after_panic" in ms)


# ----------------------------------------------------------------------------- generators
def base_sim(rng):
    """a healthy multi-module simulation (no panic, quiet) with traffic between the modules"""
    f = rng.choice([c09.fam_handler_restart, c09.fam_task_shutdown, c09.fam_transit, c09.fam_cycles, lambda r: c09.no_panic(gen_random(r))])
    d = decode(c09.no_panic(f(rng)))
    for m in d["mods"]:
        if not m["start"]:
            m["start"] = [[]]
        if rng.random() < 0.4:
            m["end"] = [("log", 30)]
    return d


def sites(d):
    """every (module, kind, program index, position) a panic can be placed at"""
    out = []
    for m, mod in enumerate(d["mods"]):
        for kind, progs in (("start", mod["start"]), ("msg", mod["msg"]), ("tasks", mod["tasks"])):
            for i, p in enumerate(progs):
                for pos in range(len(p) + 1):
                    out.append((m, kind, i, pos))
        for pos in range(len(mod["end"]) + 1):
            out.append((m, "end", 0, pos))
    return out


def place(d, site, act=("panic",)):
    m, kind, i, pos = site
    p = d["mods"][m]["end"] if kind == "end" else d["mods"][m][kind][i]
    p.insert(pos, act)


def gen_script(rng):
    d = base_sim(rng)
    ss = sites(d)
    n = rng.choice([1, 1, 1, 2, 2, 3])
    chosen = [rng.choice(ss) for _ in range(n)]
    if rng.random() < 0.5:
        chosen = [s for s in chosen if s[1] != "tasks"] or chosen
    # place from the back so that positions stay valid
    for s in sorted(set(chosen), key=lambda s: -s[3]):
        place(d, s, gen_panic(rng))
    for m in d["mods"]:
        m["catch"] = rng.randint(0, 1)
        # the other four Stereotyp flags: des never reads them, any of the 16 combinations is legal
        m["flags"] = rng.choice([0, 2 | 4, 8, 8, 1 | 8, 15, rng.randrange(16)])
        # Module::reset calls schedule_in / send_in (the library panics: buf_process holds the event buffer's lock)
        m["rsend"] = rng.choice([0, 0, 0, 1, 2])
        # which JoinHandles go to join() rather than try_join()
        m["join"] = rng.choice([0, 0, 1, 2, 3, 5, 7]) if m["tasks"] else 0
    # the stereotype is a Cell: it may be changed in the very callback that panics (just before the panic!()), in an earlier
    # callback or task of the module, or after the panic
    for (mm, kind, i, pos) in sorted(set(chosen), key=lambda s: -s[3]):
        r = rng.random()
        prog = d["mods"][mm]["end"] if kind == "end" else d["mods"][mm][kind][i]
        if r < 0.35:
            at = next((ix for ix, x in enumerate(prog) if x[0] in PANICS), 0)
            prog.insert(rng.randint(0, at), ("setcatch", rng.randint(0, 1), rng.choice([0, 8, 8, 9, 15, rng.randrange(16)])))
        elif r < 0.5:
            other = rng.choice(["start", "msg", "tasks"])
            if d["mods"][mm][other]:
                rng.choice(d["mods"][mm][other]).insert(0, ("setcatch", rng.randint(0, 1), rng.choice([0, 8, 9, rng.randrange(16)])))
    # the property of a panicking module is read afterwards: by other modules (handlers, tasks, at_sim_end) and by the module
    # itself (start programs of later incarnations, at_sim_end)
    k = len(d["mods"])
    for mm in {s[0] for s in chosen}:
        if rng.random() < 0.7:
            for o in range(k):
                if o != mm and rng.random() < 0.7:
                    tgt = rng.choice([d["mods"][o]["end"]] + d["mods"][o]["msg"] + d["mods"][o]["tasks"])
                    tgt.append(("prop_read", mm))
            if rng.random() < 0.5:
                rng.choice(d["mods"][mm]["start"] + [d["mods"][mm]["end"]]).insert(0, ("prop_read", mm))
    cb = [s[0] for s in chosen if s[1] != "tasks"]
    if cb and rng.random() < 0.6:
        d["variant"] = rng.choice(cb)
        if rng.random() < 0.4:
            d["mods"][d["variant"]]["stages"] = rng.choice([2, 3])
    return encode(d)


def fam_long_tail(rng):
    """a module with several pending timers panics early: its left-over wake-ups keep the event loop going after the
    last event of the run in which it falls silent; the other modules act in their at_sim_end (tear-down records are
    compared up to the end time) and hold join()ed / try_join()ed tasks"""
    k = rng.choice([2, 3])
    mods = []
    for i in range(k):
        mods.append({"catch": rng.randint(0, 1), "join": rng.choice([0, 1, 2, 3]), "flags": rng.choice([0, 8, 15]),
                     "stages": rng.choice([1, 1, 2]), "bud": rng.choice([4, 8]),
                     "start": [[]], "msg": [[("log", 1)], [("send", 0, rng.choice([0, 1, 2]), 0)]],
                     "tasks": [[("sleep", rng.choice([1, 2, 3])), ("log", 5)] + ([("sleep", rng.choice([2, 30])), ("log", 6)] if rng.random() < 0.5 else [])
                               for _ in range(rng.choice([0, 1, 2]))],
                     "end": [rng.choice([("log", 30), ("send", 0, rng.choice([0, 2]), 1), ("sched", 1, 0), ("restart", 2), ("shutdown",)])
                             for _ in range(rng.choice([0, 1, 2]))]})
    m = rng.randrange(k)
    mods[m]["tasks"] = [[("sleep", rng.choice([3, 5])), ("sleep", rng.choice([10, 20])), ("log", 7), ("sleep", rng.choice([5, 40])), ("log", 8)],
                        [("sleep", rng.choice([8, 15, 25])), ("log", 9)]][:rng.choice([1, 2])]
    mods[m]["msg"] = [[("log", 2), gen_panic(rng)]]
    if rng.random() < 0.3:
        mods[m]["msg"][0].insert(1, ("restart", rng.choice([1, 4])))
    inj = [(0, m, rng.choice([1, 2, 4]), 0)] + [(rng.choice([0, 1]), rng.randrange(k), rng.choice(TIMES), rng.randint(0, 3))
                                                for _ in range(rng.choice([0, 1, 3]))]
    return encode({"mods": mods, "inj": inj, "variant": m})


def gen(rng, n):
    for i in range(n):
        if i % 10 == 9:
            yield fam_long_tail(rng)
        elif i % 7 == 6:
            yield gen_random(rng, joins=True)
        else:
            yield gen_script(rng)


def fixed_sims():
    a = {"mods": [
        {"catch": 0, "stages": 1, "bud": 8, "start": [[("sched", 2, 0)], [("log", 11)]],
         "msg": [[("log", 1), ("send", 0, 1, 1)], [("send", 1, 2, 0), ("restart", 4), ("log", 2)]],
         "tasks": [[("sleep", 3), ("log", 7), ("send", 0, 0, 0), ("sleep", 4), ("log", 8)]], "end": [("log", 30)]},
        {"catch": 0, "stages": 1, "bud": 8, "start": [[("log", 12)]],
         "msg": [[("log", 3), ("sched", 3, 1)], [("log", 4), ("send", 0, 0, 1)]],
         "tasks": [[("log", 5), ("sleep", 6), ("send", 0, 1, 0)]], "end": [("log", 31)]}],
        "inj": [(0, 0, 1, 0), (0, 1, 1, 0), (1, 0, 5, 1), (0, 0, 9, 1), (2, 1, 6, 0)]}
    b = {"mods": [
        {"catch": 0, "stages": 1, "bud": 6, "start": [[("send", 1, 3, 0)]], "msg": [[("log", 1), ("send", 0, 2, 0)]], "tasks": [], "end": []},
        {"catch": 0, "stages": 1, "bud": 6, "start": [[]], "msg": [[("log", 2), ("send", 1, 0, 0), ("sched", 4, 0)]],
         "tasks": [[("sleep", 2), ("send", 0, 0, 0), ("sleep", 2), ("shutdown",)]], "end": [("log", 32)]},
        {"catch": 0, "stages": 1, "bud": 6, "start": [[("sched", 1, 0)]], "msg": [[("log", 3), ("send", 0, 1, 0)]],
         "tasks": [[("sleep", 5), ("log", 9)]], "end": []}],
        "inj": [(0, 0, 2, 0), (1, 2, 3, 0), (2, 0, 4, 0), (0, 1, 7, 0)]}
    return [a, b]


def exhaustive():
    """every (module, callback, program, position) panic placement in two fixed simulations x both stereotypes, each compared with
    its falls-silent variant where the panic is in a callback; the panic is an explicit one, or raised by schedule_at / send_at called
    or current().shutdow_and_restart_at called with a time stamp in the past"""
    for base in fixed_sims():
        for site in sites(base):
            for catch in (0, 1):
                for act in (("panic",), ("sched_past", 0, 1), ("send_past", 0, 2, 1), ("restart_past", 0), ("prop_panic", 0),
                            ("prop_panic", 1), ("prop_reenter",)):
                    d = copy.deepcopy(base)
                    place(d, site, act)
                    d["mods"][site[0]]["catch"] = catch
                    d["mods"][site[0]]["flags"] = 8 if act[0] == "panic" else (15 if catch else 1)
                    for o, mo in enumerate(d["mods"]):
                        if o != site[0]:
                            mo["end"].append(("prop_read", site[0]))
                            if mo["msg"]:
                                mo["msg"][-1].append(("prop_read", site[0]))
                    if site[1] != "tasks":
                        d["variant"] = site[0]
                    yield encode(d)
