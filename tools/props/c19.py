"""C19 — topology views mirror the gate graph and answer graph queries correctly.

Script (see coq/Topo/Model.v `run`, harness/src/bin/topo.rs):
  p  nmod cnt_1 .. cnt_nmod   nch (len mode m0 g0 m1 g1 ..){nch}   query*
    p: where the process-global 16-bit ModuleId counter stands when the simulation is built (the runner burns ids until the
    next ModuleId::gen() is p mod 2^16); first output record 10 nmod d z: d = module ids pairwise distinct, z = #ids == NULL.
    modules m0.. with cnt_i gates each; a chain g0 - g1 - .. - gh (h hops, g1..g(h-1) transit gates) is wired only if it has
    at least one hop and all its gates exist, are distinct and still unconnected; `mode` picks connect order/orientation.
  query = 1 global view | 2 r spanned(m_r) | 3 s dijkstra(m_s) | 4 connected | 5 bidirectional | 6 mask filter_nodes
        | 7 mask filter_edges | 8 m edges_for(m_m) | 9 k m1..mk from_modules([..])
Output: 10 nmod d z, then view = 1 nn module{nn} ne (src sm sg em eg dst){ne} | 3 nn (0 | 1 src sm sg em eg dst){nn} | 4 b | 5 b
        | 6 ne (..){ne} | 7 | 9 1
"""
import itertools
from collections import Counter, deque

ID = "C19"; MODEL = "topo"; IMPL = "topo"
COQ_PROP = "Properties/C19.v"; COQ_DIRS = ["Common", "Topo"]
COQ_MODULE = "Topo.Model"; RUN_FN = "run"
THEOREMS = ["C19_global_view_exact", "C19_from_modules_exact", "C19_spanned_exact", "C19_views_wellformed",
            "C19_connected_iff", "C19_bidirectional_iff", "C19_filter_exact", "C19_filter_nodes_view",
            "C19_filter_edges_exact", "C19_first_hop_of_shortest_path", "C19_script_worlds", "C19_module_ids_distinct", "C19_history_exact"]
QUICK_N = 4000; THOROUGH_N = 150000
CLAIM = dict(
    text="Machine-checked (Coq 8.16, axiom-free) for a function-by-function model of topology.rs as it is now (both work lists FIFO): for EVERY gate graph whose chains stay within the supported 16 hops - trees, stars, rings, multi-edges, self-loops, disconnected parts, transit gates anywhere - the global view has one node per module in module order and, per module, exactly one edge per endpoint gate in gate order, labelled with that gate and the far gate of its chain and leading to the node of the far gate's owner (from_modules on any duplicate-free module list: the same, restricted to chains ending inside the list); the view spanned from ANY root terminates, contains exactly the modules reachable from the root, each once, root first, with the same exact edges - proved via the invariant that every index handed to a pending module is its position in nodes++pending; connected() is true iff every node reaches every node (the recursive visit is a DFS whose depth is bounded by the node count); bidirectional() is true iff every edge u->v is answered by an edge v->u; filter_nodes keeps exactly the selected nodes in order and exactly the edges among them, re-indexed to the same modules (so a filtered exact view is the exact view of the kept modules); filter_edges keeps exactly the selected edges; dijkstra never panics for a source that is a node, terminates, and maps every reachable node other than the source to an edge leaving the source that starts a walk no walk undercuts (BFS layering invariant with lazy deletion), and maps neither the source nor unreachable nodes. Histories: a script interleaves queries with wiring operations (connect of existing gates, new gates, at build time and from a module at run time); C19_history_exact shows that every view query of every history returns the exact view of the gate graph built by the operations before it (the graph stays closed, and short when declared chains have at most 16 hops), and the differential runs and the monitor judge each query against the graph of that moment. Module activity is no input of any view: the model's world has no activity field (operation ODown changes nothing), and at run time the runner takes modules down (shutdown(), shutdow_and_restart_in with the queries inside the down time, a panic caught by the stereotype, is_active() verified false) before querying from a module that is up: the views must still be the exact views of the gate graph. Refuted by evaluation for the pinned code: LIFO dijkstra on the triangle, LIFO spanned on a root with two neighbours. The model is tied to des by differential runs of the extracted model against the real Sim/Gate/Topology API on generated gate graphs (including chains of 17..22 hops, where the model reproduces the 16-hop cut-off) and by an independent monitor that recomputes node sets, edge multisets, reachability and BFS distances from the wiring the script declares.",
    note="Trusted: Coq kernel; extraction (ExtrOcamlBasic only) cross-checked in-Coq by vm_compute on a sample each run; the harness and generator bound the tie to the code. The gate layer enters as an abstract view (module = ordered gate list, endpoint = the gate sequence path_iter visits; C08 proves path_iter walks the wired chain). Hypotheses: short (<= 16 hops; only for from_modules) and closed (far ends are gates of modules of the world). Chains beyond 16 hops are outside the quantifier: from_modules then reports a transit gate as the end (recorded in fixes/F13.md, not claimed). bidirectional() tests node pairs, which coincides with the gate-level wording of its documentation on every view and node-filtered view; after filter_edges on multi-edges the two readings differ (Refuted/C19.v, not an observation point of C19). Module identity: the model names a module by its index, the code by its ModuleId (from_modules/spanned look chain ends up by id); that ids of one simulation are pairwise distinct is proved for the wrapping 16-bit counter (C19_module_ids_distinct) and checked on the real ids of every script, with the process-global counter placed at 0xff, mid-range, below 0xff and within a few ids of the 2^16 wrap (a module whose id is ModuleId::NULL = 0 behaves like any other). A Topology object is a value: it does not follow later changes of the gate graph (derived queries answer for the snapshot). des has no public disconnect (Gate::dissolve_paths is crate-private and only runs when a module is dropped), so gate graphs only grow within a simulation; modules are not added after the first query. Every runner process builds and queries about a thousand simulations back to back, so state surviving from one simulation to the next in a static would show up as well. Node attachments, edge-cost attachments and the dot/svg export are not modelled.",
    technique="Coq proofs over an executable model (loop invariants: index prediction for spanned, DFS closure for connected, BFS layering for dijkstra) + differential correspondence check + property monitor",
    design="6/C19")
RULE = ("scripts declare 1..14 modules with gates in shuffled creation order and wire trees, stars, rings, multi-edges, self-loops,"
        " disconnected parts and random graphs through chains of 1..16 hops (transit gates on arbitrary modules, random connect"
        " order/orientation), plus a malformed stream (re-used / unknown gates, chains without a hop) and a separate stream with"
        " 17..22-hop chains that is outside C19's quantifier (compared with the model, excluded from the monitor); queries: global"
        " view, spanned from every kind of root, from_modules on subsets/permutations, dijkstra from every source, connected,"
        " bidirectional, filter_nodes with random masks, filter_edges, edges_for; half of the scripts are histories: some chains are"
        " connected and some gates created (SimBuilder::gate / ModuleRef::create_gate / Spawner::gate) only after a first view"
        " was taken, views are queried before, between and after these steps, and from a random point on the history continues"
        " at run time inside a module (Topology::current(), des::net::globals()) while up to three other modules are down"
        " (shutdown(), shutdow_and_restart_in with the queries inside the down time, a panic caught by the stereotype; the runner"
        " verifies is_active() == false before the first run-time query); every script also fixes where the process-global"
        " 16-bit ModuleId counter stands when the simulation is built (fresh process 0xff, mid-range, within a few ids of the 2^16"
        " wrap so that the modules' ids straddle it, below 0xff) and the runner reports whether the ids are pairwise distinct;"
        " non-trivial = distinct script with a view of"
        " at least two nodes and one edge that hits at least three targeted mechanisms")
TRUSTED = ["the gate layer is seen through an abstract view (module = ordered gate list, endpoint gate = the gate sequence path_iter"
           " visits); that path_iter really walks the wired chain is C08's theorem and is re-validated here by the differential runs",
           "node and module identity: ModuleId / ObjectPath are represented by the module's index; Edge.from/to node ids are private,"
           " the harness prints the position of the edge end's module within nodes() (equal to the id when nodes are distinct);"
           " that the ModuleIds of one simulation are pairwise distinct is reported by the runner for every script and checked"
           " by the monitor as an explicit premise (at every position of the id counter, including across the 2^16 wrap)",
           "the FxHashMap returned by dijkstra is read per node (its iteration order is unobservable)"]
ASSUMPTIONS = ["chains within the supported 16 hops (from_modules cuts a longer chain off after 16 connections and reports a transit"
               " gate as its end; such scripts are generated only in the stream labelled outside the quantifier)",
               "at most 24 modules x 40 gates per script; filter predicates are pure functions of the module / edge"]
MAXMOD, MAXG, MAXCH, MAXHOPS = 24, 40, 64, 16


# ----------------------------------------------------------------------------- structure
def _take_lp(s, i):
    if i >= len(s):
        return [], i
    k = s[i]; i += 1
    k = min(k, len(s) - i)
    return s[i:i + k], i + k


def parse(script):
    """-> (counts, chains [(mode, [(m,g)..])] as declared (valid or not), queries, index where the queries start)"""
    counts, i = _take_lp(script, 1)           # script[0] is the id-counter position
    counts = [min(c, MAXG) for c in counts[:MAXMOD]]
    chains = []
    if i < len(script):
        nch = min(script[i], MAXCH); i += 1
        for _ in range(nch):
            c, i = _take_lp(script, i)
            if not c:
                chains.append((0, []))
                continue
            body = c[1:]
            chains.append((c[0], [(min(body[j], 255), min(body[j + 1], 255)) for j in range(0, len(body) - 1, 2)]))
    qstart = i
    qs = []
    while i < len(script):
        t = script[i]
        if t in (1, 4, 5):
            qs.append([t]); i += 1
        elif t in (2, 3, 6, 7, 8):
            if i + 1 >= len(script):
                break
            qs.append([t, script[i + 1]]); i += 2
        elif t in (9, 10):
            l, j = _take_lp(script, i + 1)
            qs.append([t, len(l)] + l); i = j
        elif t in (11, 13):
            if i + 2 >= len(script):
                break
            qs.append([t, script[i + 1], script[i + 2]]); i += 3
        elif t == 12:
            if i + 1 >= len(script):
                break
            qs.append([12, script[i + 1]]); i += 2
        else:
            break
    return counts, chains, qs, qstart


def chain_of(op):
    """the gates of a connect operation `10 len mode m0 g0 ..`"""
    body = op[3:]
    return [(min(body[j], 255), min(body[j + 1], 255)) for j in range(0, len(body) - 1, 2)]


def split(script):
    counts, chains, qs, qstart = parse(script)
    return list(script[:qstart]), qs


def join(hdr, ops):
    out = list(hdr)
    for o in ops:
        out += o
    return out


MAXLATE = 60


class World:
    """The gate graph the script has declared SO FAR: which chains are wired, and what each endpoint gate's far end
    is.  Starts with the header; `connect` / `new_gate` apply the wiring operations of the history."""
    def __init__(self, script):
        counts, chains, qs, _ = parse(script)
        self.counts, self.queries = list(counts), qs
        self.nm = len(counts)
        self.used = set()
        self.chains = []      # wired chains (lists of gates)
        self.dropped = 0
        self.far = {}         # endpoint gate -> (far gate, hops)
        self.max_hops = 0
        self.edges = []       # one directed edge per endpoint gate
        for mode, c in chains:
            if not self.connect(c):
                self.dropped += 1

    def connect(self, c):
        ok = (len(c) >= 2 and len(set(c)) == len(c)
              and all(m < self.nm and g < self.counts[m] and (m, g) not in self.used for m, g in c))
        if not ok:
            return False
        self.used.update(c)
        self.chains.append(c)
        self.far[c[0]] = (c[-1], len(c) - 1)
        self.far[c[-1]] = (c[0], len(c) - 1)
        self.max_hops = max(self.max_hops, len(c) - 1)
        self.edges = [(g, f) for g, (f, _) in sorted(self.far.items())]
        return True

    def new_gate(self, m):
        """-> position + 1 of the new gate, 0 if none is created"""
        m = min(m, 255)
        if m < self.nm and self.counts[m] < MAXLATE:
            self.counts[m] += 1
            return self.counts[m]
        return 0

    def apply(self, op):
        """applies a wiring operation; -> the record the runner prints for it (its own book-keeping, not des output)"""
        if op[0] == 10:
            return [11, int(self.connect(chain_of(op)))]
        if op[0] == 11:
            return [12, self.new_gate(op[1])]
        return None

    def final(self):
        """the world after the whole history"""
        for op in self.queries:
            self.apply(op)
        return self

    def adj(self, nodes=None):
        a = {}
        for (s, e) in self.edges:
            if nodes is None or (s[0] in nodes and e[0] in nodes):
                a.setdefault(s[0], []).append(e[0])
        return a


def reach(adj, s):
    seen = {s}; dq = deque([s])
    while dq:
        u = dq.popleft()
        for v in adj.get(u, []):
            if v not in seen:
                seen.add(v); dq.append(v)
    return seen


def bfs_dist(edges, s):
    adj = {}
    for (a, b) in edges:
        adj.setdefault(a[0], []).append(b[0])
    d = {s: 0}; dq = deque([s])
    while dq:
        u = dq.popleft()
        for v in adj.get(u, []):
            if v not in d:
                d[v] = d[u] + 1; dq.append(v)
    return d


def pretty(script):
    w = World(script)
    s = "next ModuleId=%d; modules=%d gates=%s; chains: " % (id_pos(script), w.nm, w.counts)
    s += " | ".join("-".join("m%d.g%d" % g for g in c) for c in w.chains) or "none"
    if w.dropped:
        s += " (+%d chain(s) not wired)" % w.dropped
    names = {1: "global", 4: "connected", 5: "bidirectional"}
    parts = []
    for q in w.queries:
        if q[0] in names: parts.append(names[q[0]])
        elif q[0] == 2: parts.append("spanned(m%d)" % q[1])
        elif q[0] == 3: parts.append("dijkstra(m%d)" % q[1])
        elif q[0] == 6: parts.append("filter_nodes(%s)" % bin(q[1]))
        elif q[0] == 7: parts.append("filter_edges(%s)" % bin(q[1]))
        elif q[0] == 8: parts.append("edges_for(m%d)" % q[1])
        elif q[0] == 9: parts.append("from_modules(%s)" % q[2:])
        elif q[0] == 10: parts.append("CONNECT " + "-".join("m%d.g%d" % g for g in chain_of(q)))
        elif q[0] == 11: parts.append("NEW GATE on m%d%s" % (q[1], " (spawner)" if q[2] % 2 else ""))
        elif q[0] == 12: parts.append("RUN TIME (in m%d):" % (q[1] % w.nm if w.nm else 0))
        elif q[0] == 13: parts.append("[m%d is %s during the run-time part]" % (q[1], ["shut down", "waiting for a restart", "down after a caught panic"][min(q[2], 255) % 3]))
    return s + "; history: " + ", ".join(parts)


# ----------------------------------------------------------------------------- output records
def records(script, out):
    """Align the output with the queries; yields (query, record) or raises ValueError."""
    w = World(script)
    if out[:1] == [10]:
        out = out[4:]          # the premise record, see monitor()
    i = 0; res = []
    for q in w.queries:
        if i >= len(out):
            raise ValueError("output too short")
        t = out[i]
        if t == 1:
            nn = out[i + 1]; ne = out[i + 2 + nn]; ln = 3 + nn + 6 * ne
        elif t == 3:
            nn = out[i + 1]; j = i + 2
            for _ in range(nn):
                j += 7 if out[j] == 1 else 1
            ln = j - i
        elif t in (4, 5, 11, 12, 13, 14):
            ln = 2
        elif t == 6:
            ln = 2 + 6 * out[i + 1]
        elif t in (7, 8):
            ln = 1
        elif t == 9:
            ln = 2
        else:
            raise ValueError("bad record tag %d" % t)
        if i + ln > len(out):
            raise ValueError("truncated record")
        res.append((q, out[i:i + ln])); i += ln
    if i != len(out):
        raise ValueError("trailing output")
    return res


def _edges6(rec):
    return [tuple(rec[j:j + 6]) for j in range(0, len(rec), 6)]


def bit(mask, i):
    return i < 64 and (mask >> i) & 1 == 1


class Tracker:
    """Replays the queries on the declared graph: the node set and edge multiset the current topology must have."""
    def __init__(self, w):
        self.w = w
        self.nodes = set(); self.edges = []      # edges as (start gate, end gate)
        self.order = []                          # node order of the implementation's last view
        self.edge_filtered = False

    def expect(self, q):
        """new (nodes, edges) for a view-producing query, None if the query does not change the topology"""
        w = self.w
        if q[0] == 1:
            return set(range(w.nm)), list(w.edges)
        if q[0] == 2:
            if q[1] >= w.nm:
                return None
            r = reach(w.adj(), q[1])
            return r, [e for e in w.edges if e[0][0] in r]
        if q[0] == 9:
            sel = []
            for m in q[2:]:
                m = min(m, 255)
                if m < w.nm and m not in sel:
                    sel.append(m)
            s = set(sel)
            return s, [e for e in w.edges if e[0][0] in s and e[1][0] in s]
        if q[0] == 6:
            s = {m for m in self.nodes if bit(q[1], m)}
            return s, [e for e in self.edges if e[0][0] in s and e[1][0] in s]
        if q[0] == 7:
            pos = {m: i for i, m in enumerate(self.order)}
            return set(self.nodes), [e for e in self.edges if bit(q[1], (pos[e[0][0]] * 8 + e[0][1]) % 62)]
        return None


def check_edges(printed, order, expected, what):
    for (src, sm, sg, em, eg, dst) in printed:
        if src >= len(order) or dst >= len(order):
            return "%s: edge m%d.g%d -> m%d.g%d refers to a node that does not exist" % (what, sm, sg, em, eg)
        if order[src] != sm:
            return "%s: edge with start gate m%d.g%d leaves node m%d, not the owner of the gate" % (what, sm, sg, order[src])
        if order[dst] != em:
            return "%s: edge m%d.g%d -> m%d.g%d leads to node m%d, not to the owner m%d of the far gate" % (what, sm, sg, em, eg, order[dst], em)
    got = Counter(((sm, sg), (em, eg)) for (_, sm, sg, em, eg, _) in printed)
    exp = Counter(expected)
    if got != exp:
        miss = list((exp - got).elements()); extra = list((got - exp).elements())
        return "%s: edge set differs from the gate wiring: missing %s, unexpected %s" % (what, miss[:4], extra[:4])
    return None


def id_pos(script):
    return script[0] % 65536 if script else 0xff


def monitor(script, out):
    """C19 evaluated on the implementation's output and the graph the script declares.  The theorems identify a module
    with its id (from_modules/spanned look the owner of a chain end up by ModuleId); that the ids of one simulation are
    pairwise distinct is therefore checked first, as an explicit premise, on what the implementation reports."""
    if not script:
        return None if out == [] else "output for an empty script: %s" % out
    w = World(script)
    if len(out) < 4 or out[0] != 10 or out[1] != w.nm:
        return "malformed output: no premise record `10 %d d z` in front: %s" % (w.nm, out[:6])
    prem = None
    if out[2] != 1:
        prem = ("premise of C19 broken: two of the %d modules of one simulation share a ModuleId (id counter at %d when the"
                " simulation was built)" % (w.nm, id_pos(script)))
    msg = monitor_views(script, out, w)
    if msg and prem:
        return msg + " [" + prem + "]"
    return msg or prem


def monitor_views(script, out, w):
    """w: the gate graph of the header; the wiring operations of the history are applied to it as they come, so that
    every view query is judged against the graph as it is at that moment."""
    if World(script).final().max_hops > MAXHOPS:
        return None            # outside the quantifier (chains beyond the supported 16 hops)
    try:
        recs = records(script, out)
    except (ValueError, IndexError) as e:
        return "malformed output: %s" % e
    tr = Tracker(w)
    nwire = 0; rt = False
    for q, r in recs:
        t = q[0]
        if t in (10, 11):
            exp = w.apply(q)
            if r != exp:
                return "malformed output: wiring operation %s reported %s, by the script's rules it is %s" % (q[:8], r, exp)
            nwire += 1 if exp[1] else 0
            continue
        if t == 12:
            exp = [13, int(not rt and w.nm > 0)]
            if r != exp:
                return "malformed output: phase switch reported %s, expected %s" % (r, exp)
            rt = rt or bool(exp[1])
            continue
        if t == 13:
            if r != [14, 0]:
                return "malformed output: activity declaration reported %s" % r
            continue
        msg = monitor_query(tr, q, r)
        if msg:
            return msg + (" (graph as of %d wiring operation(s) after the header%s)" % (nwire, ", queried at run time" if rt else "")
                          if nwire or rt else "")
    return None


def monitor_query(tr, q, r):
    w = tr.w
    for _ in (0,):
        t = q[0]
        if t in (1, 2, 6, 7, 9):
            exp = tr.expect(q)
            if exp is None:
                if r != [7]:
                    return "spanned from an unknown module answered %s" % r
                continue
            if r[0] != 1:
                return "query %s did not produce a view: %s" % (q, r)
            nn = r[1]; order = r[2:2 + nn]; ne = r[2 + nn]
            printed = _edges6(r[3 + nn:])
            en, ee = exp
            if sorted(order) != sorted(en):
                return "view %s: nodes %s, expected exactly one node for each of %s" % (q, order, sorted(en))
            msg = check_edges(printed, order, ee, "view %s" % q)
            if msg:
                return msg
            tr.nodes, tr.edges, tr.order = en, ee, order
            if t == 7:
                tr.edge_filtered = True
            elif t != 6:
                tr.edge_filtered = False
        elif t == 3:
            s = min(q[1], 255)
            if s not in tr.nodes:
                if r != [9, 1]:
                    return "dijkstra from a module that is not a node must panic, got %s" % r
                continue
            if r[0] != 3 or r[1] != len(tr.order):
                return "dijkstra(m%d) answered %s" % (s, r[:8])
            dist = bfs_dist(tr.edges, s)
            j = 2
            for v in tr.order:
                if r[j] == 0:
                    ent = None; j += 1
                else:
                    ent = tuple(r[j + 1:j + 7]); j += 7
                if v == s or v not in dist:
                    if ent is not None:
                        return "dijkstra(m%d): %s m%d has an entry" % (s, "source" if v == s else "unreachable", v)
                    continue
                if ent is None:
                    return "dijkstra(m%d): reachable m%d (distance %d) has no entry" % (s, v, dist[v])
                (src, sm, sg, em, eg, dst) = ent
                if ((sm, sg), (em, eg)) not in tr.edges or sm != s:
                    return "dijkstra(m%d): entry for m%d, m%d.g%d -> m%d.g%d, is not an edge leaving the source" % (s, v, sm, sg, em, eg)
                if src >= len(tr.order) or dst >= len(tr.order) or tr.order[src] != s or tr.order[dst] != em:
                    return "dijkstra(m%d): entry for m%d has inconsistent end nodes" % (s, v)
                rest = bfs_dist(tr.edges, em).get(v)
                if rest is None or rest + 1 != dist[v]:
                    return ("dijkstra(m%d): first hop for m%d goes to m%d, which is %s hops from m%d; a minimum-hop path has %d hops"
                            % (s, v, em, rest, v, dist[v]))
        elif t == 4:
            adj = {}
            for (a, b) in tr.edges:
                adj.setdefault(a[0], []).append(b[0])
            exp = all(reach(adj, u) >= tr.nodes for u in tr.nodes)
            if r != [4, int(exp)]:
                return "connected() = %s, but %s" % (r[1:], "every node reaches every node" if exp else "some node cannot reach another")
        elif t == 5:
            # node level (what the code tests) and gate level (what its documentation says); they coincide on every
            # view and node-filtered view; after filter_edges on multi-edges they can differ: then either is accepted
            pairs = Counter((a[0], b[0]) for (a, b) in tr.edges)
            node_level = all((b, a) in pairs for (a, b) in pairs)
            es = set(tr.edges)
            gate_level = all((b, a) in es for (a, b) in es)
            if node_level == gate_level and r != [5, int(node_level)]:
                return "bidirectional() = %s, expected %d" % (r[1:], node_level)
            if r[0] != 5 or r[1] not in (0, 1):
                return "bidirectional() answered %s" % r
        elif t == 8:
            m = min(q[1], 255)
            if r[0] != 6:
                return "edges_for answered %s" % r
            exp = [e for e in tr.edges if e[0][0] == m] if m in tr.nodes else []
            msg = check_edges(_edges6(r[2:]), tr.order, exp, "edges_for(m%d)" % m)
            if msg:
                return msg
    return None


# ----------------------------------------------------------------------------- mechanisms
def mechanisms(script, out):
    """Targeted mechanisms a script hits; robust against output that does not mirror the declared graph."""
    m = set()
    try:
        _mechanisms(script, out, m)
    except (KeyError, IndexError, ValueError):
        pass
    return m


def _mechanisms(script, out, m):
    if not script:
        return
    w = World(script)
    wf = World(script).final()      # static features: of the graph the whole history builds
    p = id_pos(script)
    if p + w.nm > 65536 and w.nm >= 2: m.add("ids_straddle_u16_wrap")
    elif p == 0xff: m.add("id_counter_fresh_process")
    elif 0x100 <= p and p + w.nm <= 65536 - 64: m.add("id_counter_mid_range")
    elif p < 0xff: m.add("id_counter_below_0xff")
    if len(out) >= 4 and out[0] == 10 and out[3]: m.add("module_with_null_id")
    if wf.max_hops > MAXHOPS:
        m.add("over_16_hops_outside_quantifier")
    if wf.dropped: m.add("malformed_chain_not_wired")
    if any(len(c) > 2 for c in wf.chains): m.add("transit_chain")
    if wf.max_hops == MAXHOPS: m.add("chain_of_exactly_16_hops")
    pairs = Counter(frozenset((a[0], b[0])) for (a, b) in wf.edges)
    if any(v > 2 for k, v in pairs.items() if len(k) == 2): m.add("multi_edge")
    if any(len(k) == 1 for k in pairs): m.add("self_loop")
    adj = wf.adj()
    if w.nm and len(reach({a: adj.get(a, []) + [b for b in adj if a in adj[b]] for a in range(w.nm)}, 0)) < w.nm:
        m.add("disconnected_parts")
    tr = Tracker(w)
    len_hdr = list(w.counts)
    try:
        recs = records(script, out)
    except (ValueError, IndexError):
        return m
    rt = False
    down = {}
    viewed = False          # some view of the gate graph was taken already
    changed = False         # ... and the gate graph has changed since
    changed_rt = False      # a connect at run time since the last run-time look at the global view
    for q, r in recs:
        t = q[0]
        if t in (10, 11):
            rec = w.apply(q)
            if rec[1]:
                m.add("late_connect" if t == 10 else "late_gate_created")
                if t == 11 and q[2] % 2: m.add("late_gate_via_spawner")
                if t == 10 and viewed:
                    changed = True
                    if not rt: m.add("query_between_build_steps")
                    if any(g[1] >= len_hdr[g[0]] for g in chain_of(q)): m.add("late_connect_of_late_gate")
                if t == 10 and rt: changed_rt = True
            elif t == 10:
                m.add("late_connect_not_wired")
            continue
        if t == 12:
            if r == [13, 1]:
                rt = True; m.add("runtime_phase")
                down = {d: k for d, k in down.items() if d != q[1] % w.nm}      # the executing module stays up
            continue
        if t == 13:
            d = min(q[1], 255)
            if not rt and d < w.nm and d not in down:
                down[d] = min(q[2], 255) % 3
            continue
        if rt and down and t in (1, 2, 9):
            for k in set(down.values()):
                m.add(["query_with_module_shut_down", "query_with_module_waiting_for_restart", "query_after_caught_panic"][k])
            if t == 2 and q[1] in down: m.add("spanned_from_down_root")
            if t == 9 and any(min(x, 255) in down for x in q[2:]): m.add("from_modules_with_down_module")
        if rt and down and t == 3 and tr.nodes & set(down): m.add("dijkstra_with_down_module_in_view")
        if t in (1, 2, 6, 7, 9):
            exp = tr.expect(q)
            if exp is None or r[0] != 1:
                continue
            nn = r[1]; order = r[2:2 + nn]
            adj = w.adj()
            if t in (1, 2, 9):
                if changed:
                    m.add("query_after_late_connect")
                    if t == 1: m.add("global_view_again_after_late_connect")
                if rt and changed_rt and t == 1:
                    m.add("runtime_query_after_runtime_connect"); changed_rt = False
                if rt: m.add("runtime_query")
                viewed = True
            if t == 1: m.add("global_view")
            if t == 9:
                m.add("from_modules_list")
                s = exp[0]
                if any(a[0] in s and b[0] not in s for (a, b) in w.edges): m.add("external_link_ignored")
                if order != sorted(order): m.add("from_modules_permuted")
            if t == 2:
                m.add("spanned")
                if len(set(adj.get(q[1], [])) - {q[1]}) >= 2: m.add("spanned_two_frontier_nodes")
                if len(exp[0]) >= 4: m.add("spanned_depth")
                # an edge towards a module that is pending (not yet a node) when it is scanned a second time
                pos = {x: i for i, x in enumerate(order)}
                for (a, b) in exp[1]:
                    if a[0] in pos and b[0] in pos and pos[b[0]] > pos[a[0]] + 1:
                        m.add("spanned_predicted_index")
                    if a[0] in pos and b[0] in pos and pos[b[0]] <= pos[a[0]]:
                        m.add("spanned_edge_to_existing_node")
                if len(exp[0]) < w.nm: m.add("spanned_excludes_unreachable")
            if t == 6:
                m.add("filter_nodes")
                removed = [i for i, x in enumerate(tr.order) if x not in exp[0]]
                if removed and any(i > removed[0] and tr.order[i] in exp[0] for i in range(len(tr.order))) and exp[1]:
                    m.add("filter_nodes_reindexes_edges")
                if len(exp[1]) < len(tr.edges): m.add("filter_nodes_drops_edges")
            if t == 7:
                m.add("filter_edges")
            tr.nodes, tr.edges, tr.order = exp[0], exp[1], order
        elif t == 3:
            s = min(q[1], 255)
            if s not in tr.nodes:
                m.add("dijkstra_unknown_node"); continue
            m.add("dijkstra")
            d = bfs_dist(tr.edges, s)
            if len(d) < len(tr.nodes): m.add("dijkstra_unreachable_node")
            if any(x >= 2 for x in d.values()): m.add("dijkstra_two_or_more_hops")
            # some node whose minimum-hop paths start with different edges, or which is also reachable by a detour
            firsts = {}
            for (a, b) in tr.edges:
                if a[0] == s:
                    db = bfs_dist(tr.edges, b[0])
                    for v, dv in d.items():
                        if v != s and v in db:
                            firsts.setdefault(v, set()).add((b[0], db[v] + 1 == dv))
            if any(len({f for f, ok in fs if ok}) >= 2 for fs in firsts.values()): m.add("dijkstra_tie_between_first_hops")
            if any(any(not ok for f, ok in fs) for fs in firsts.values()): m.add("dijkstra_longer_detour_exists")
        elif t == 4 and len(r) == 2:
            m.add("connected_true" if r[1] else "connected_false")
        elif t == 5 and len(r) == 2:
            m.add("bidirectional_true" if r[1] else "bidirectional_false")
        elif t == 8:
            m.add("edges_for")
    return m


def nontrivial(script, out):
    try:
        recs = records(script, out)
    except (ValueError, IndexError):
        return False
    big = any(r[0] == 1 and r[1] >= 2 and r[2 + r[1]] >= 1 for q, r in recs)
    ms = {m for m in mechanisms(script, out) if not m.startswith("id_counter_")}
    return big and len(ms - {"over_16_hops_outside_quantifier"}) >= 3


# ----------------------------------------------------------------------------- generation
def encode(counts, chains, queries, p=0xff):
    s = [p, len(counts)] + list(counts) + [len(chains)]
    for mode, c in chains:
        body = [mode] + [x for g in c for x in g]
        s += [len(body)] + body
    for q in queries:
        s += q
    return s


def links_for(rng, nm, kind):
    """logical links (a, b) between modules"""
    L = []
    ms = list(range(nm)); rng.shuffle(ms)
    if kind == "tree":
        for i in range(1, nm):
            L.append((ms[rng.randrange(i)], ms[i]))
    elif kind == "star":
        for i in range(1, nm):
            L.append((ms[0], ms[i]))
    elif kind == "ring":
        if nm >= 2:
            for i in range(nm):
                L.append((ms[i], ms[(i + 1) % nm]))
            if nm == 2:
                L.pop()
    elif kind == "line":
        for i in range(nm - 1):
            L.append((ms[i], ms[i + 1]))
    elif kind == "two_parts":
        k = max(1, nm // 2)
        for part in (ms[:k], ms[k:]):
            for i in range(1, len(part)):
                L.append((part[rng.randrange(i)], part[i]))
            if len(part) >= 3 and rng.random() < 0.5:
                L.append((part[0], part[-1]))
    elif kind == "grid":
        # ring with chords: many ties between first hops
        for i in range(nm):
            L.append((ms[i], ms[(i + 1) % nm]))
        for _ in range(rng.randint(1, max(1, nm // 2))):
            L.append((rng.choice(ms), rng.choice(ms)))
    else:  # random
        for _ in range(rng.randint(0, 2 * nm)):
            L.append((rng.randrange(nm), rng.randrange(nm)))
    # decorations: multi-edges and self-loops
    if L and rng.random() < 0.35:
        for _ in range(rng.randint(1, 2)):
            L.append(rng.choice(L))
    if rng.random() < 0.2:
        a = rng.randrange(nm); L.append((a, a))
    return L


def gen_world(rng, long_chain=False, malformed=False):
    nm = rng.choice([1, 2, 3, 3, 4, 4, 5, 5, 6, 7, 8, 10, 14])
    kind = rng.choice(["tree", "star", "ring", "line", "two_parts", "grid", "random", "random"])
    links = links_for(rng, nm, kind)
    rng.shuffle(links)
    links = links[:18]
    # hop counts: mostly direct, some through transit gates, a few at the 16-hop limit
    slots = [[] for _ in range(nm)]      # per module: list of (link index, place in chain)
    hops = []
    for li, (a, b) in enumerate(links):
        r = rng.random()
        h = 1 if r < 0.6 else rng.randint(2, 5) if r < 0.85 else rng.choice([15, 16, 16, rng.randint(6, 16)])
        hops.append(h)
    if long_chain and links:
        hops[rng.randrange(len(links))] = rng.randint(17, 22)
    if long_chain and not links:
        links.append((0, 0)); hops.append(rng.randint(17, 22))
    route = []
    for li, (a, b) in enumerate(links):
        mids = [rng.randrange(nm) if rng.random() < 0.7 else rng.choice([a, b]) for _ in range(hops[li] - 1)]
        route.append([a] + mids + [b])
        for k, m in enumerate(route[-1]):
            slots[m].append((li, k))
    counts = []
    where = {}
    for m in range(nm):
        extra = [None] * rng.choice([0, 0, 0, 1, 2])
        sl = slots[m] + extra
        rng.shuffle(sl)                     # gate creation order is independent of the wiring
        sl = sl[:MAXG]
        counts.append(len(sl))
        for g, x in enumerate(sl):
            if x is not None:
                where[x] = (m, g)
    chains = []
    for li in range(len(links)):
        c = [where.get((li, k)) for k in range(len(route[li]))]
        if any(g is None for g in c):
            continue
        chains.append((rng.randrange(4), c))
    rng.shuffle(chains)
    if malformed and nm:
        for _ in range(rng.randint(1, 3)):
            r = rng.random()
            allg = [(m, g) for m in range(nm) for g in range(counts[m])]
            if r < 0.3 and allg:
                c = [rng.choice(allg), rng.choice(allg)]                     # re-used or doubled gate
            elif r < 0.5:
                c = [(rng.randrange(nm), 50), (nm + 3, 0)]                   # unknown gates
            elif r < 0.7 and allg:
                c = [rng.choice(allg)]                                       # no hop
            elif allg:
                g = rng.choice(allg); c = [g, rng.choice(allg), g]           # same gate twice in one chain
            else:
                c = []
            chains.insert(rng.randrange(len(chains) + 1), (rng.randrange(4), c))
    return nm, counts, chains[:MAXCH]


def gen_queries(rng, nm, counts):
    qs = []
    full = (1 << 62) - 1

    def probes():
        out = []
        srcs = list(range(nm)); rng.shuffle(srcs)
        for s in srcs[:rng.choice([1, 2, nm])]:
            out.append([3, s])
        if rng.random() < 0.7: out.append([4])
        if rng.random() < 0.5: out.append([5])
        if rng.random() < 0.3: out.append([8, rng.randrange(nm + 1)])
        if rng.random() < 0.08: out.append([3, nm + rng.randrange(3)])
        rng.shuffle(out)
        return out

    for _ in range(rng.randint(1, 3)):
        r = rng.random()
        if r < 0.35:
            qs.append([1])
        elif r < 0.80:
            qs.append([2, rng.randrange(nm) if rng.random() < 0.97 else nm + 1])
        else:
            k = rng.randint(0, nm + 1)
            ms = [rng.randrange(nm + 1) if rng.random() < 0.9 else rng.randrange(nm) for _ in range(k)]
            if rng.random() < 0.3:
                ms = list(range(nm)); rng.shuffle(ms)
            qs.append([9, len(ms)] + ms)
        qs += probes()
        if rng.random() < 0.55:
            mask = full
            for _ in range(rng.choice([1, 1, 2, 3])):
                mask &= ~(1 << rng.randrange(max(1, nm)))
            if rng.random() < 0.1:
                mask = rng.getrandbits(nm + 1)
            qs.append([6, mask])
            qs += probes()
        if rng.random() < 0.25:
            mask = full
            for _ in range(rng.randint(1, 4)):
                mask &= ~(1 << rng.randrange(62))
            if rng.random() < 0.3:
                mask = rng.getrandbits(62)
            qs.append([7, mask])
            qs += [[5], [4]] + probes()[:2]
    return qs


def connect_op(mode, c):
    body = [mode] + [x for g in c for x in g]
    return [10, len(body)] + body


def gen_history(rng, nm, counts, chains):
    """Splits a generated world into a header and a history: some chains are connected late, some gates (the last ones of
    their module) are created late, views are taken before, between and after these steps, and from some point on the
    history may continue at run time inside a module.  -> (header counts, header chains, operations)"""
    hdr_counts = list(counts)
    for m in range(nm):
        if counts[m] and rng.random() < 0.3:
            hdr_counts[m] = counts[m] - rng.randint(1, min(3, counts[m]))
    hdr, late = [], []
    for mode, c in chains:
        is_late = any(m < nm and g >= hdr_counts[m] for m, g in c) or rng.random() < 0.4
        (late if is_late else hdr).append((mode, c))
    rng.shuffle(late)

    def look():
        r = rng.random()
        if r < 0.7: q = [[1]]
        elif r < 0.9: q = [[2, rng.randrange(nm)]]
        else:
            ms = [rng.randrange(nm) for _ in range(rng.randint(1, nm + 1))]
            q = [[9, len(ms)] + ms]
        for _ in range(rng.choice([0, 1, 1, 2, 3])):
            q.append(rng.choice([[3, rng.randrange(nm)], [4], [5], [8, rng.randrange(nm)], [3, rng.randrange(nm)]]))
        if rng.random() < 0.15:
            q.append([6, ((1 << 62) - 1) & ~(1 << rng.randrange(nm))]); q.append([4])
        return q

    def downs():
        """some modules are down during the run-time part (shut down, waiting for a restart, caught panic)"""
        if rng.random() < 0.2:
            return []
        ds = rng.sample(range(nm), rng.randint(1, max(1, min(3, nm - 1))))
        return [[13, d if rng.random() < 0.95 else nm + 1, rng.randrange(3)] for d in ds]

    ops = []
    created = list(hdr_counts)
    switch_at = rng.randint(0, len(late)) if rng.random() < 0.6 else None
    for k, (mode, c) in enumerate(late):
        if rng.random() < 0.85:
            ops += look()
        if switch_at == k:
            ops += downs()
            ops.append([12, rng.randrange(nm + 2)])
            if rng.random() < 0.6: ops += look()
        for (m, g) in sorted(c, key=lambda x: x[1]):
            while m < nm and created[m] <= g and created[m] < counts[m]:
                ops.append([11, m, rng.randrange(2)]); created[m] += 1
        r = rng.random()
        if r < 0.06:
            ops.append([11, rng.randrange(nm + 1), rng.randrange(2)])           # an extra gate that stays unconnected
        elif r < 0.12 and hdr:
            ops.append(connect_op(0, hdr[0][1]))                                # gates in use already: not wired
        ops.append(connect_op(mode, c))
    if switch_at == len(late):
        ops += downs()
        ops.append([12, rng.randrange(nm + 2)])
        ops += look()
        if nm and rng.random() < 0.5:
            ops += [[2, rng.randrange(nm)], [3, rng.randrange(nm)], [4]]
    ops += look()
    if rng.random() < 0.3:
        ops += gen_queries(rng, nm, counts)[:6]
    if rng.random() < 0.05:
        ops.append([12, 0]); ops += look()
    return hdr_counts, hdr, ops


def gen_script(rng):
    r = rng.random()
    nm, counts, chains = gen_world(rng, long_chain=(r < 0.04), malformed=(0.04 <= r < 0.12))
    p = gen_id_pos(rng, nm)
    if rng.random() < 0.5:
        counts, chains, ops = gen_history(rng, nm, counts, chains)
        return encode(counts, chains, ops, p)
    return encode(counts, chains, gen_queries(rng, nm, counts), p)


def gen_id_pos(rng, nm):
    """Where the process-global ModuleId counter stands: a fresh process (0xff), somewhere in the middle, or so close to
    the 2^16 wrap that the simulation's modules straddle it (ids .., 0xfffe, 0xffff, 0 = ModuleId::NULL, 1, ..)."""
    r = rng.random()
    if r < 0.35:
        return 0xff
    if r < 0.55:
        return rng.randint(0x100, 65000)
    if r < 0.85:
        return 65536 - rng.randint(1, max(1, nm - 1)) if nm >= 2 else 65535     # first module(s) before, rest after the wrap
    if r < 0.92:
        return rng.choice([0, 1, 65535, 65536 - nm, 0xfe, 0x100])
    if r < 0.96:
        return rng.randint(0, 0xfe)
    return 65536 * rng.randint(1, 3) + rng.choice([0xff, 65534, 65535])         # taken modulo 2^16


def gen(rng, n):
    for _ in range(n):
        yield gen_script(rng)


def exhaustive():
    """All gate graphs on at most 3 modules with at most 2 gates each whose chains are direct connections (every partial
    matching of the gates), each queried through the global view and the view spanned from every root, with dijkstra from
    every source, connected and bidirectional; plus every single two-hop chain through a transit gate."""
    k = 0
    for nm in (1, 2, 3):
        for counts in itertools.product(range(3), repeat=nm):
            gates = [(m, g) for m in range(nm) for g in range(counts[m])]

            def matchings(rest):
                if not rest:
                    yield []
                    return
                a, tail = rest[0], rest[1:]
                yield from matchings(tail)
                for i, b in enumerate(tail):
                    for mt in matchings(tail[:i] + tail[i + 1:]):
                        yield [[a, b]] + mt

            worlds = [m for m in matchings(gates)]
            for a, t, b in itertools.permutations(gates, 3):
                if a < b:
                    worlds.append([[a, t, b]])
            for chains in worlds:
                qs = [[1], [4], [5]] + [[3, s] for s in range(nm)]
                for r in range(nm):
                    qs += [[2, r], [4], [5]] + [[3, s] for s in range(nm)]
                k += 1
                yield encode(list(counts), [(0, c) for c in chains], qs, [0xff, 65535, 65534, 40000, 65533][k % 5])
                if chains:
                    # the same graph reached by a history: the last chain is connected after a first look
                    # (alternately while building and at run time), every query repeated on the grown graph
                    look = [[1], [4], [5]] + [[3, s] for s in range(nm)]
                    hist = look + ([[12, k % nm]] if k % 2 else []) + [connect_op(0, chains[-1])] + look
                    for r in range(nm):
                        hist += [[2, r], [4]] + [[3, s] for s in range(nm)]
                    yield encode(list(counts), [(0, c) for c in chains[:-1]], hist, 0xff)
