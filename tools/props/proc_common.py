"""Shared by C14: script format of the processing-stack model (coq/Proc/Model.v `run`,
harness/src/bin/proc.rs), encoder/decoder, log parser.

A script is described by a dict
  {"budget": B, "global": [elem..], "mods": [mod, mod], "inj": [(kind, dst, time, id)..]}
  elem = {"act": 0|1|2, "k": K, "start": [emit..], "in": [emit..], "end": [emit..]}
  emit = (peer, delay, id)
  mod  = {"mode": 0..3, "own": [elem..], "h": handler}
  handler = {"stages": 0..3, "xkind": 0|1|2|3, "xa": .., "xb": .., "xc": .., "start": [...], "msg": [...], "end": [...], "task": [...]}
"""

PASS, MODIFY, CONSUME = 0, 1, 2
H_START, H_IN, H_END, H_HANDLE, H_SIMSTART, H_SIMEND, H_TASK, H_RESET, H_SCHED, H_SEND, H_SHUT, H_PANIC = range(1, 13)
CALL_HOOKS = {H_START, H_IN, H_END, H_HANDLE, H_SIMSTART, H_SIMEND, H_TASK}


def lp(xs):
    return [len(xs)] + list(xs)


def enc_emits(es):
    out = []
    for (p, d, i) in es:
        out += [p, d, i]
    return lp(out)


def enc_elem(e):
    return lp([e["act"], e.get("k", 0)] + enc_emits(e.get("start", [])) + enc_emits(e.get("in", [])) + enc_emits(e.get("end", [])))


def enc_handler(h):
    return lp([h.get("stages", 1), h.get("xkind", 0), h.get("xa", 0), h.get("xb", 0), h.get("xc", 0)]
              + enc_emits(h.get("start", [])) + enc_emits(h.get("msg", [])) + enc_emits(h.get("end", [])) + enc_emits(h.get("task", []))
              + ([h.get("pf", 0), h.get("pst", 0), h.get("psince", 0)] if h.get("pf", 0) or h.get("pst", 0) or h.get("psince", 0) else []))


def enc_mod(m):
    out = [m.get("mode", 0), len(m.get("own", []))]
    for e in m.get("own", []):
        out += enc_elem(e)
    return out + enc_handler(m.get("h", {}))


def encode(d):
    out = [d["budget"], len(d["global"])]
    for e in d["global"]:
        out += enc_elem(e)
    for m in d["mods"]:
        out += enc_mod(m)
    for q in d["inj"]:
        out += list(q)
    return out


class Cur:
    """same totalising conventions as coq/Common/Codec.v and harness/src/lib.rs"""
    def __init__(self, v):
        self.v = v; self.i = 0

    def done(self):
        return self.i >= len(self.v)

    def next(self):
        x = self.v[self.i] if self.i < len(self.v) else 0
        self.i += 1
        return x

    def take_lp(self):
        if self.done():
            return []
        k = self.next()
        out = self.v[self.i:self.i + k]
        self.i = min(len(self.v), self.i + k)
        return out

    def blobs(self):
        n = self.next()
        out = []
        for _ in range(min(n, len(self.v))):
            if self.done():
                break
            out.append(self.take_lp())
        return out


def triples(v):
    return [(v[i] % 2, v[i + 1], v[i + 2]) for i in range(0, len(v) - len(v) % 3, 3)]


def dec_elem(b):
    c = Cur(b)
    act = c.next() % 3; k = c.next()
    return {"act": act, "k": k, "start": triples(c.take_lp()), "in": triples(c.take_lp()), "end": triples(c.take_lp())}


def dec_handler(b):
    c = Cur(b)
    h = {"stages": c.next() % 4, "xkind": c.next() % 4, "xa": c.next(), "xb": c.next(), "xc": c.next()}
    for f in ("start", "msg", "end", "task"):
        h[f] = triples(c.take_lp())
    h["pf"] = c.next(); h["pst"] = c.next(); h["psince"] = c.next()
    return h


def dec_mod(c):
    mode = c.next() % 4
    own = [dec_elem(b) for b in c.blobs()]
    return {"mode": mode, "own": own, "h": dec_handler(c.take_lp())}


def decode(script):
    c = Cur(list(script))
    d = {"budget": c.next()}
    d["global"] = [dec_elem(b) for b in c.blobs()]
    d["mods"] = [dec_mod(c), dec_mod(c)]
    inj = []
    while len(c.v) - c.i >= 4:
        k, dst, t, x = c.next(), c.next(), c.next(), c.next()
        inj.append((k % 2, dst % 2, t, x))
    d["inj"] = inj
    return d


def stack_of(d, m):
    """the stack Module::stack is expected to install on module m"""
    mod = d["mods"][m]; g = d["global"]; own = mod["own"]
    return {0: g, 1: g + own, 2: own, 3: own + g}[mod["mode"]]


def split(script):
    """header = everything up to the injections; ops = the injections (4 numbers each)"""
    c = Cur(list(script))
    c.next(); c.blobs()
    dec_mod(c); dec_mod(c)
    i = min(c.i, len(script))
    hdr, rest = list(script[:i]), list(script[i:])
    ops = [rest[j:j + 4] for j in range(0, len(rest) - len(rest) % 4, 4)]
    return hdr, ops


def join(hdr, ops):
    out = list(hdr)
    for o in ops:
        out += o
    return out


def entries(out):
    """implementation output -> list of (m, who, hook, a, b); raises on a malformed log"""
    if len(out) % 5 != 0:
        raise ValueError("log length %d is not a multiple of 5 (marker %s)" % (len(out), out[-1:] if out else ""))
    return [tuple(out[i:i + 5]) for i in range(0, len(out), 5)]


ACT = {0: "pass", 1: "mod", 2: "consume"}
HOOK = {1: "start", 2: "in", 3: "end", 4: "handle", 5: "sim_start", 6: "sim_end", 7: "task", 8: "reset", 9: "schedule_in",
        10: "send_in", 11: "shutdown", 12: "panic"}


def pretty_elem(e):
    s = ACT[e["act"]] + ("+%d" % e["k"] if e["act"] == 1 else "")
    for f in ("start", "in", "end"):
        if e[f]:
            s += " %s!%s" % (f, ",".join("%s(%d,id%d)" % ("peer" if p else "self", dl, i) for p, dl, i in e[f]))
    return s


def pretty(script):
    d = decode(script)
    s = "budget=%d global=[%s]" % (d["budget"], "; ".join(pretty_elem(e) for e in d["global"]))
    for m, mod in enumerate(d["mods"]):
        h = mod["h"]
        x = {0: "", 1: " timer(%d)" % (h["xa"] + 1), 2: " shutdown(on %d%s)%s" % (h["xa"], ", restart in %d" % h["xc"] if h["xb"] % 2 else "",
                                          " caught-panic(at_sim_start(%d) from t=%d)" % (h["pst"], h["psince"]) if h.get("pf", 0) % 2 else ""),
             3: " caught-panic(%s%s)" % ({0: "handle_message of %d" % h["xa"], 1: "at_sim_start(%d)" % h["xa"], 2: "at_sim_end"}[h["xb"] % 3],
                                          " from t=%d" % h["xc"] if h["xc"] else "")}[h["xkind"]]
        em = " ".join("%s!%d" % (f, len(h[f])) for f in ("start", "msg", "end", "task") if h[f])
        s += " | mod%d mode=%d own=[%s] stages=%d%s %s" % (m, mod["mode"], "; ".join(pretty_elem(e) for e in mod["own"]), h["stages"], x, em)
    s += " | inject " + " ".join("%s->%d@%d(id%d)" % ("direct" if k else "port", dst, t, x) for k, dst, t, x in d["inj"])
    return s


def pretty_log(out):
    try:
        es = entries(out)
    except ValueError as e:
        return str(e)
    return " ".join("m%d.%s.%s(%d,%d)" % (m, "H" if w == 0 else "T" if w == 1 else "e%d" % (w - 2), HOOK.get(h, "?%d" % h), a, b)
                    for m, w, h, a, b in es)
