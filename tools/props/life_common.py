"""Shared by C09 and C13: script format of the module life-cycle model (coq/Life/Model.v `run`,
harness/src/bin/life.rs), encoder/decoder, log parser, generator building blocks.

A script is described by a dict
  {"mods": [mod, ..] (2..4), "inj": [(kind, m, time, payload)..]}
  mod  = {"catch": 0|1, "join": mask (bit id: task id is join()ed, else try_join()ed), "flags": 0..15 (the other four Stereotyp
          flags: on_panic_drop, on_panic_restart, on_panic_drop_submodules, on_panic_inform_parent),
          "rsend": 0 | 1 | 2 (Module::reset calls nothing / schedule_in / send_in: the library panics), "stages": 1..3, "bud": B, "start": [prog..], "msg": [prog..], "tasks": [prog..], "end": prog}
  prog = [act..];  act = ("log", x) | ("send", far, d, x) | ("sched", d, x) | ("sleep", d) | ("shutdown",)
                         | ("restart", d) | ("panic",) | ("quiet",) | ("setcatch", 0|1)
                         | ("sched_past", d, x) | ("send_past", far, d, x) | ("restart_past", d)   calls of schedule_at / send_at /
                           current().shutdow_and_restart_at with the time stamp now - (1 + d):
                         | ("setcatch", 0|1, f)   set_stereotyp with the other four flags f as well
                         | ("prop_read", j)   log the property "p" of module j % k (always 100 + its index)
                         | ("prop_panic", 0|1)   panic inside a Prop::update (0) / Prop::map (1) closure on the own property
                         | ("prop_reenter",)   second access to the own property inside a Prop::update closure (library panic)
                         | ("probe_send", x)   zero-delay send through the channel whose ChannelProbe panics
                           the library panics inside the call (PANICS: the actions that end a callback / task with a panic)
  inj kind: 0 handle_message_on(m) | 1 add_message_onto(m.out) | 2 add_message_onto(m.far)
Topology: ring; m.out -> (m+1).in ; m.far -> (m+1).via -> (m+2).fin.
"""

R_START, R_MSG, R_TASK, R_TIMER, R_END, R_RESET, R_LOG, R_SEND, R_SCHED, R_SHUT, R_PANIC, R_QUIET, R_CANCEL, R_SAMPLE, \
    R_ERR, R_FUEL, R_SEP = range(1, 18)
CALLS = {R_START, R_MSG, R_TASK, R_TIMER, R_END}
OPS = {"log": 0, "send": 1, "sched": 2, "sleep": 3, "shutdown": 4, "restart": 5, "panic": 6, "quiet": 7}


PANICS = ("panic", "sched_past", "send_past", "restart_past", "prop_panic", "prop_reenter", "probe_send")


def lp(xs):
    return [len(xs)] + list(xs)


def enc_act(a):
    k = a[0]
    if k == "log":
        return [0, 0, 0, a[1]]
    if k == "send":
        return [1, a[1], a[2], a[3]]
    if k == "sched":
        return [2, 0, a[1], a[2]]
    if k == "sleep":
        return [3, 0, a[1], 0]
    if k == "shutdown":
        return [4, 0, 0, 0]
    if k == "restart":
        return [5, 0, a[1], 0]
    if k == "panic":
        return [6, 0, 0, 0]
    if k == "setcatch":
        return [8 if a[1] else 9, a[2] if len(a) > 2 else 0, 0, 0]
    if k == "prop_read":
        return [13, a[1], 0, 0]
    if k == "prop_panic":
        return [14, a[1], 0, 0]
    if k == "prop_reenter":
        return [15, 0, 0, 0]
    if k == "probe_send":
        return [16, 0, 0, a[1]]
    if k == "sched_past":
        return [10, 0, a[1], a[2]]
    if k == "send_past":
        return [11, a[1], a[2], a[3]]
    if k == "restart_past":
        return [12, 0, a[1], 0]
    return [7, 0, 0, 0]


def enc_prog(p):
    out = []
    for a in p:
        out += enc_act(a)
    return lp(out)


def enc_progs(ps):
    out = [len(ps)]
    for p in ps:
        out += enc_prog(p)
    return out


def enc_mod(m):
    rs = m.get("rsend", 0)
    return ([m.get("catch", 0) + 2 * m.get("join", 0) + 16 * m.get("flags", 0) + (256 if rs else 0) + (512 if rs == 2 else 0), m.get("stages", 1) - 1, m.get("bud", 0)] + enc_progs(m.get("start", []))
            + enc_progs(m.get("msg", [])) + enc_progs(m.get("tasks", [])) + enc_prog(m.get("end", [])))


def encode(d):
    """d may carry "variant": m -- also run the variant in which module m falls silent instead of panicking"""
    k = len(d["mods"]) - 2
    if d.get("variant") is not None:
        k += 3 * (d["variant"] + 1)
    out = [k]
    for m in d["mods"]:
        out += enc_mod(m)
    for q in d["inj"]:
        out += list(q)
    return out


class Cur:
    """same totalising conventions as coq/Common/Codec.v and harness/src/lib.rs"""
    def __init__(self, v):
        self.v = v; self.i = 0

    def done(self):
        return self.i >= len(self.v)

    def next(self):
        x = self.v[self.i] if self.i < len(self.v) else 0
        self.i += 1
        return x

    def take_lp(self):
        if self.done():
            return []
        k = self.next()
        out = self.v[self.i:self.i + k]
        self.i = min(len(self.v), self.i + k)
        return out

    def blobs(self):
        n = self.next()
        out = []
        for _ in range(min(n, len(self.v))):
            if self.done():
                break
            out.append(self.take_lp())
        return out


def dec_prog(v):
    out = []
    for i in range(0, len(v) - len(v) % 4, 4):
        o, a, b, c = v[i] % 20, v[i + 1], v[i + 2], v[i + 3]
        sc = (lambda bit: ("setcatch", bit, a % 16) if a % 16 else ("setcatch", bit))
        out.append([("log", c), ("send", a % 2, b, c), ("sched", b, c), ("sleep", b), ("shutdown",), ("restart", b),
                    ("panic",), ("quiet",), sc(1), sc(0), ("sched_past", b, c), ("send_past", a % 2, b, c), ("restart_past", b),
                    ("prop_read", a), ("prop_panic", a % 2), ("prop_reenter",), ("probe_send", c), ("probe_send", c), ("probe_send", c),
                    ("probe_send", c)][o])
    return out


def dec_mod(c):
    hdr = c.next()
    m = {"catch": hdr % 2, "join": (hdr // 2) % 8, "flags": (hdr // 16) % 16,
         "rsend": (1 + (hdr >> 9) % 2) if (hdr >> 8) % 2 else 0, "stages": 1 + c.next() % 3, "bud": c.next()}
    m["start"] = [dec_prog(b) for b in c.blobs()]
    m["msg"] = [dec_prog(b) for b in c.blobs()]
    m["tasks"] = [dec_prog(b) for b in c.blobs()]
    m["end"] = dec_prog(c.take_lp())
    return m


def decode(script):
    c = Cur(list(script))
    k0 = c.next()
    k = 2 + k0 % 3
    v = (k0 // 3) % 5
    d = {"mods": [dec_mod(c) for _ in range(k)], "variant": (v - 1) if 1 <= v <= k else None}
    inj = []
    while len(c.v) - c.i >= 4:
        kd, m, t, x = c.next(), c.next(), c.next(), c.next()
        inj.append((kd % 3, m % k, t, x))
    d["inj"] = inj
    return d


def split(script):
    """header = everything up to the injections; ops = the injections (4 numbers each)"""
    c = Cur(list(script))
    k = 2 + c.next() % 3
    for _ in range(k):
        dec_mod(c)
    i = min(c.i, len(script))
    hdr, rest = list(script[:i]), list(script[i:])
    return hdr, [rest[j:j + 4] for j in range(0, len(rest) - len(rest) % 4, 4)]


def join(hdr, ops):
    out = list(hdr)
    for o in ops:
        out += o
    return out


R_VAR = 18
R_SETCATCH = 19
R_TEND = 20       # (20, m, id, inc, how): task ended; how 0 completed | 1 panics now | 2 future dropped unfinished
R_SPAWN = 21      # (21, m, id, inc, must): task spawned, handle given to join (must = 1) / try_join (0)
R_RPANIC = 22     # (22, m, 0, 0, 0): Module::reset of m is about to call schedule_in / send_in (the library panics)


def records3(out):
    """implementation output -> (first run, second run, variant run or None); raises on a malformed log"""
    if len(out) % 5 != 0:
        raise ValueError("output length %d is not a multiple of 5" % len(out))
    rs = [tuple(out[i:i + 5]) for i in range(0, len(out), 5)]
    seps = [i for i, r in enumerate(rs) if r[0] == R_SEP]
    if len(seps) != 1:
        raise ValueError("expected exactly one separator record, found %d" % len(seps))
    rest = rs[seps[0] + 1:]
    vs = [i for i, r in enumerate(rest) if r[0] == R_VAR]
    if len(vs) > 1:
        raise ValueError("more than one variant separator")
    if vs:
        return rs[:seps[0]], rest[:vs[0]], rest[vs[0] + 1:]
    return rs[:seps[0]], rest, None


def records(out):
    a, b, _ = records3(out)
    return a, b


NAMES = {22: "resetpanic", 20: "taskend", 21: "spawn", 19: "setcatch", 18: "|variant|", 1: "start", 2: "msg", 3: "task", 4: "timer", 5: "end", 6: "reset", 7: "log", 8: "send", 9: "sched", 10: "shut",
         11: "panic", 12: "quiet", 13: "cancel", 14: "ev", 15: "err", 16: "FUEL", 17: "||"}


def pretty_prog(p):
    return ",".join(a[0] + ("(%s)" % ",".join(str(x) for x in a[1:]) if len(a) > 1 else "") for a in p)


def pretty(script):
    d = decode(script)
    s = ""
    for i, m in enumerate(d["mods"]):
        s += "m%d{%sstages=%d bud=%d start=[%s] msg=[%s] tasks=[%s] end=[%s]} " % (
            i, ("catch " if m["catch"] else "") + ("join=%d " % m["join"] if m.get("join") else "") + ("flags=%d " % m["flags"] if m.get("flags") else "") + ("reset-sends " if m.get("rsend") else ""), m["stages"], m["bud"], " | ".join(pretty_prog(p) for p in m["start"]),
            " | ".join(pretty_prog(p) for p in m["msg"]), " | ".join(pretty_prog(p) for p in m["tasks"]), pretty_prog(m["end"]))
    s += "inject " + " ".join("%s%d@%d(%d)" % (["direct->m", "m.out:", "m.far:"][k], m, t, x) for k, m, t, x in d["inj"])
    return s


def pretty_log(out):
    try:
        a, b = records(out)
    except ValueError as e:
        return str(e)
    return " ".join("%s(%s)" % (NAMES.get(r[0], "?"), ",".join(str(x) for x in r[1:])) for r in a)


# ----------------------------------------------------------------------------- trace structure
def nxt(k, m):
    return (m + 1) % k


def phases(rs):
    """first run's records -> (start-phase records, boot sample, [loop events], end-phase records, errors).
    A loop event is the list of its records, the last one being its sample record."""
    errs = [r for r in rs if r[0] == R_ERR]
    body = [r for r in rs if r[0] not in (R_ERR, R_FUEL)]
    segs, cur = [], []
    for r in body:
        cur.append(r)
        if r[0] == R_SAMPLE:
            segs.append(cur); cur = []
    if not segs:
        raise ValueError("no sample record in the log")
    return segs[0][:-1], segs[0][-1], segs[1:], cur, errs


# ----------------------------------------------------------------------------- generator building blocks
DELAYS = [0, 0, 1, 2, 3, 5, 5, 10]
TIMES = [0, 1, 2, 3, 5, 5, 7, 10, 10, 12, 15, 20]


def gen_panic(rng):
    """an action that ends the callback / task with a panic: an explicit panic!(), or a call of the public API with a time
    stamp in the past, which makes the library panic on behalf of the module"""
    r = rng.random()
    if r < 0.45:
        return ("panic",)
    if r < 0.62:
        return ("sched_past", rng.choice([0, 0, 1, 3, 100]), rng.randint(0, 3))
    if r < 0.65 + 0.1:
        return ("send_past", rng.randint(0, 1), rng.choice([0, 1, 5]), rng.randint(0, 3))
    if r < 0.83:
        return ("restart_past", rng.choice([0, 0, 2, 50]))
    if r < 0.90:
        return ("prop_panic", rng.randint(0, 1))
    if r < 0.95:
        return ("prop_reenter",)
    return ("probe_send", rng.randint(0, 3))


def gen_act(rng, k_msgs, in_task, p_ctl):
    r = rng.random()
    if r < 0.18:
        return ("log", rng.randint(1, 9))
    if r < 0.45:
        return ("send", rng.randint(0, 1), rng.choice(DELAYS), rng.randint(0, max(0, k_msgs * 3)))
    if r < 0.58:
        return ("sched", rng.choice(DELAYS), rng.randint(0, max(0, k_msgs * 3)))
    if r < 0.80 and in_task:
        return ("sleep", rng.choice([0, 1, 2, 3, 5, 5, 10]))
    if r < 0.80:
        return ("log", rng.randint(1, 9))
    if rng.random() < p_ctl:
        return rng.choice([("shutdown",), ("restart", rng.choice(DELAYS)), ("restart", rng.choice(DELAYS)), ("panic",), ("quiet",),
                           ("setcatch", rng.randint(0, 1), rng.choice([0, 0, 1, 8, 9, 15])), gen_panic(rng), ("prop_read", rng.randint(0, 3))])
    return ("log", rng.randint(10, 19))


def gen_prog(rng, k_msgs, in_task, p_ctl, maxlen=4):
    return [gen_act(rng, k_msgs, in_task, p_ctl) for _ in range(rng.randint(0, maxlen))]


def gen_mod(rng, p_ctl, joins=False):
    nm = rng.choice([1, 2, 3, 4])
    return {"catch": rng.randint(0, 1), "join": rng.choice([0, 1, 2, 3, 5, 7]) if joins else 0,
            "flags": rng.choice([0, 6, 8, 9, 15, rng.randrange(16)]) if joins else 0,
            "rsend": rng.choice([0, 0, 0, 1, 2]) if joins else 0, "stages": rng.choice([1, 1, 2, 3]), "bud": rng.choice([0, 2, 4, 6, 10]),
            "start": [gen_prog(rng, nm, False, p_ctl / 2) for _ in range(rng.randint(0, 3))],
            "msg": [gen_prog(rng, nm, False, p_ctl) for _ in range(nm)],
            "tasks": [gen_prog(rng, nm, True, p_ctl, 5) for _ in range(rng.choice([0, 1, 1, 2, 3]))],
            "end": gen_prog(rng, nm, False, p_ctl / 2, 2)}


def gen_random(rng, joins=False):
    k = rng.choice([2, 2, 3, 4])
    p_ctl = rng.choice([0.2, 0.5, 0.8])
    mods = [gen_mod(rng, p_ctl, joins) for _ in range(k)]
    inj = [(rng.choice([0, 0, 1, 2]), rng.randrange(k), rng.choice(TIMES), rng.randint(0, 11)) for _ in range(rng.choice([0, 1, 2, 4, 6, 9]))]
    return encode({"mods": mods, "inj": inj})


# ----------------------------------------------------------------------------- reading a run
class Bad(Exception):
    pass


def rec_mod(r):
    return None if r[0] in (R_SAMPLE, R_ERR, R_FUEL, R_SEP, R_VAR) else r[1]


def rec_time(r):
    """SimTime::now() a callback record was written at"""
    return r[3] if r[0] in CALLS else None


class Run:
    """One simulation's log split into start-up phase, dispatched events and tear-down phase, with the
    life-cycle bookkeeping a reader of the log can do: resets (incarnations), pending restarts, callback panics."""

    def __init__(self, d, rs):
        self.d = d
        self.k = len(d["mods"])
        self.start, self.boot, self.events, self.end, self.errs = phases(rs)
        self.fuel = any(r[0] == R_FUEL for r in rs)

    def units(self):
        """yield (phase, time, mask-after or None, records without the sample) in log order; the start-up phase is cut
        into one unit per at_sim_start call, the tear-down phase into one unit per at_sim_end call"""
        cur = []
        for r in self.start:
            if r[0] == R_START and cur:
                yield ("start", 0, None, cur); cur = []
            cur.append(r)
        if cur:
            yield ("start", 0, None, cur)
        for ev in self.events:
            yield ("loop", ev[-1][1], ev[-1][2], ev[:-1])
        cur = []
        for r in self.end:
            if r[0] == R_END and cur:
                yield ("end", None, None, cur); cur = []
            cur.append(r)
        if cur:
            yield ("end", None, None, cur)


def request_of(now, recs, m):
    """the shutdown request standing at the end of an event (ModuleContext::shutdown_task): the last
    shutdown()/restart_in() wins, quiet keeps an earlier one.  None | ("stop",) | ("restart", T)"""
    req = None
    for r in recs:
        if r[1] != m:
            continue
        if r[0] == R_SHUT:
            req = ("restart", now + r[4]) if r[3] else ("stop",)
        elif r[0] == R_QUIET and req is None:
            req = ("stop",)
    return req
