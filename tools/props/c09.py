"""C09 — A shut-down module is inert until restart and restarts cleanly on time."""
import itertools
from props.life_common import *  # noqa

ID = "C09"; MODEL = "life"; IMPL = "life"
COQ_PROP = "Properties/C09.v"; COQ_DIRS = ["Common", "Life"]
COQ_MODULE = "Life.Model"; RUN_FN = "run"
THEOREMS = ["C09_handler_runs_only_if_active", "C09_calls_carry_active", "C09_inert_while_down", "C09_reset_once_per_shutdown",
            "C09_restart_stages_once_at_time", "C09_old_incarnation_silent", "C09_fresh_after_restart_partial", "C09_shutdown_frame",
            "C09_delivery_independent_of_m", "C09_run_terminates", "C09_run_is_generated", "C09_first_state_is_fresh",
            "C09_shutdown_leaves_fresh", "C09_restart_runs_first_start_callback", "C09_module_local", "C09_loop_is_mlog",
            "C09_restarted_as_fresh", "C09_fresh_is_first_state", "C09_reset_panic_frame",
            "C09_run_script_over_cqueue", "C09_run_over_cqueue_eq_run_over_spec", "C09_run_over_cqueue_spec",
            "C09_inert_while_down_cq", "C09_restart_stages_once_at_time_cq"]
QUICK_N = 2500; THOROUGH_N = 120000
RULE = ("scripts = 2..4 scripted modules on a ring (gate out -> next module, gate far -> transit gate of the next module -> the one after), "
        "each with handler programs selected by payload, start programs selected by incarnation, up to 3 tokio tasks (sleep / log / send / "
        "shutdown / restart_in), stage count 1..3, budget; plus injected messages (direct, onto out, onto far).  Structured families: "
        "shutdown and shutdow_and_restart_in from handlers and from tasks, restart at the same instant as arrivals and timer deadlines, "
        "messages in transit at shutdown and through a gate of a down module, repeated cycles, two modules cycling out of phase, a "
        "1-step ticker shut down mid-period with a restart delay shorter than the rest of the period and no other event of the module "
        "in between (the old incarnation's wake-up is still queued when the new incarnation sleeps), plus a random family; exhaustive tier: every injection order of {arrival, shutdown request, restart trigger} around one instant x "
        "{timer deadline at that instant} x {restart delay} x {gate}.  non-trivial = distinct script whose run resets a module and hits >= 3 "
        "targeted mechanisms")
TRUSTED = ["user code is a script language: log / send_in(out|far) / schedule_in / sleep (tasks) / shutdown / shutdow_and_restart_in / panic / "
           "quiet / set_stereotyp / schedule_at, send_at and shutdow_and_restart_at with a past time stamp (library-raised panics) / reads of a module's property and panics under its lock; tasks are spawned by at_sim_start(0) only (tokio::spawn, handle given to join or try_join as the script "
           "says; spawn and task end are logged by the scripted code), one timer per task at a time",
           "the extracted runner threads the two-list event-set specification; C09_run_over_cqueue_eq_run_over_spec proves (through C01's refinement "
           "relation: R_add / R_fetch / R_len / R_new_at, with the model's own 'nothing is scheduled into the past' invariant discharging R_add's "
           "side condition) that the same event loop over the concrete calendar queue, for every n, t >= 1, returns exactly the same result; the "
           "queue carries an index into an event store because the Coq queue is monomorphic in its payload",
           "tokio is modelled as: woken and freshly spawned tasks are polled once each, FIFO, by the yield inside Harness::exec; dropping "
           "the runtime cancels every task and removes its timer entry (observed through task logs and drop guards, not proved)",
           "the monitor reads the implementation's log only; sends are justified against the log's own send records"]
ASSUMPTIONS = ["times and delays stay far below 2^62 ns", "at most 61 task polls per event (C06)"]
CLAIM = dict(
    text="Machine-checked (Coq 8.16, axiom-free) for the model of ctx.rs/events.rs/refs.rs/driver.rs, for every script of 2..4 modules "
         "(any handler/task programs over log, send, schedule, sleep, shutdown, shutdow_and_restart_in, panic; any stage count, any "
         "injections): (1) between the record in which a module's shutdown request is consumed (Module::reset) and its restart event no "
         "message handler, task step or timer completion of the module occurs, and no start-up stage or dispatched event in between holds any record of it "
         "(messages to it are dropped, its wake-ups do nothing); (2) every call record of the start-up sweep and of every dispatched event carries is_active = true "
         "(except after a panic of the module's own callback in that record); (3) a record holds exactly one reset iff it holds a shutdown "
         "request, tear-down never resets; (4) a restart event happens only at exactly the requested time (last request of the event wins), "
         "once per request, every run completes and no requested restart is left over, and its start-up stages run once each, in order, at "
         "that time; (5) every task step is logged with the incarnation that spawned it and that equals the number of resets so far: "
         "nothing created before a shutdown acts after it; (6) consuming a shutdown request changes no other module's state, no global "
         "slot and no queued event other than inserting the restart event; (7) whether a message is delivered depends only on the active "
         "flags of the receiver and of the owners of the gates of its own chain, and an event of one module never changes another "
         "module's state.  Composition with C01: the same event loop over the concrete calendar queue (cq_new_at n t 0 / add / fetch_next while qlen > 0, any n, t >= 1) returns the same result and prints the same log as the run over the event-set specification (C09_run_over_cqueue_eq_run_over_spec), so (1) and (4) are restated for the run over the calendar queue itself (C09_inert_while_down_cq, C09_restart_stages_once_at_time_cq) and every other clause transfers by the same rewrite.  The model is tied to des on every invocation by differential runs of scripted modules/tasks on the real "
         "runtime (shutdown(), shutdow_and_restart_in(), tokio::spawn + des::time::sleep, transit gates, stepping with is_active samples, "
         "drop guards on task futures) against the extracted model, plus a monitor that states (1)-(5), the dropping of messages "
         "through gates of a down module and timer exactness (a task that sleeps d from time x takes its next step at exactly x+d -- in "
         "particular a task of a new incarnation is not resumed early or late by a wake-up left over from the old one -- unless the "
         "module is reset, quietened or its callback panics at or before x+d) on the implementation's own log.",
    note="Trusted: Coq kernel; extraction cross-checked in-Coq on a sample each run; harness/generator quality bounds the tie to the code. "
         "Not modelled: that dropping the tokio runtime really cancels tasks (observed via drop guards and task logs). The tear-down sweep calls "
         "at_sim_end on every module irrespective of is_active; that lifecycle call is not a 'message handler, task or timer' and is "
         "outside (1)-(2) (the start-up sweep skips inactive modules since 1526470 and is covered). 'Behaves like a freshly started module' is proved "
         "in this form (C09_fresh_after_restart_partial, C09_shutdown_leaves_fresh, C09_restart_runs_first_start_callback): the pieces a module "
         "keeps across shutdown/restart are explicit (user struct = incarnation counter and budget, next_wakeup, JoinHandles, stereotype); "
         "consuming a shutdown request leaves exactly the state of a newly created module around those pieces, a restart event finds the module "
         "in such a state, and module_restart is 'set active, then the first start's at_sim_start(stage) callbacks in order with the restart "
         "time' (for one stage: literally the first start's callback). Remaining differences, by design of the code: the kept pieces, and a "
         "multi-stage restart runs all stages in one event (buffered events and shutdown requests are handled once at its end, not after "
         "each stage as in the start-up sweep). Whole-trace form for single-stage modules (C09_module_local, C09_loop_is_mlog, "
         "C09_restarted_as_fresh), a simulation between two worlds restricted to module m: a module's records depend on its own state "
         "only (two worlds of two scripts that agree on m produce the same records of m under the same sequence of events); the event "
         "loop of a run is such a sequence; the restart event on a module that is 'fresh v, inactive' writes the same records as the "
         "first start's step taken at the restart time on the newly created 'fresh v', and from then on -- every later event of m and "
         "its at_sim_end -- the two cannot be told apart, in any environment delivering the same events. next_wakeup and surviving "
         "JoinHandles do not influence m's records (only the event set and the final join errors); with trivial kept pieces 'fresh v' "
         "is the module as first created (C09_fresh_is_first_state). Multi-stage modules are not covered by the whole-trace form. Every run of the "
         "model terminates (proved: C09_run_terminates), so 'no restart left over' holds unconditionally. Timer exactness is a monitor "
         "clause (computed from the log alone), not a Coq theorem; in the model it holds by construction of the differential check.",
    technique="Coq: invariants over a step relation generating every world of the run (reset => down, down => inert), an interpreter invariant "
              "tying logged samples to state, event-set bookkeeping of restart events, termination by a potential; differential correspondence "
              "check; log monitor",
    design="6/C09")


# ----------------------------------------------------------------------------- the property on the implementation's log
def check_lifecycle(d, rs):
    """C09 read off one run's log; raises Bad"""
    run = Run(d, rs)
    k = run.k
    inc = [0] * k
    down = [False] * k
    pending = [None] * k
    reset_at = [None] * k
    samples = []          # (time, mask) of every dispatched event, in order
    for phase, t, mask, recs in run.units():
        ms = {rec_mod(r) for r in recs}
        if len(ms) > 1:
            raise Bad("one %s unit holds records of modules %s" % (phase, sorted(ms)))
        m = next(iter(ms)) if ms else None
        if m is not None and not 0 <= m < k:
            raise Bad("record of unknown module %d" % m)
        is_restart = False
        panicked = False
        if m is not None:
            now = t if phase == "loop" else (0 if phase == "start" else recs[0][3])
            is_restart = phase == "loop" and recs[0][0] == R_START
            if phase != "end" and down[m] and not is_restart:
                raise Bad("module %d was shut down at %s and not restarted, but the %s at %s holds its records %s"
                          % (m, reset_at[m], "event" if phase == "loop" else "start-up sweep", now, recs[:3]))
            if is_restart:
                if not down[m]:
                    raise Bad("restart event of module %d at %d although it is not shut down" % (m, t))
                if pending[m] is None:
                    raise Bad("module %d was shut down without restart at %s but is restarted at %d" % (m, reset_at[m], t))
                if pending[m] != t:
                    raise Bad("module %d asked to restart at %d but its restart event runs at %d" % (m, pending[m], t))
                stages = [r[2] for r in recs if r[0] == R_START]
                n = d["mods"][m]["stages"]
                has_panic = any(r[0] == R_PANIC and r[2] == 0 for r in recs)
                if stages != list(range(n)) and not (has_panic and stages == list(range(len(stages))) and stages):
                    raise Bad("restart of module %d at %d ran the start-up stages %s, expected each of 0..%d once in order" % (m, t, stages, n - 1))
                down[m] = False; pending[m] = None
            seen_panic = False
            for r in recs:
                if r[0] in CALLS:
                    if phase != "end" and r[3] != now:
                        raise Bad("callback record %s of an event at %d carries time %d" % (r, now, r[3]))
                    if phase != "end" and r[4] % 2 == 0 and not seen_panic:
                        raise Bad("callback %s ran at %d while is_active was false" % (r, now))
                if r[0] in (R_MSG, R_TASK, R_TIMER) and down[m]:
                    raise Bad("module %d is shut down (since %s) but %s ran" % (m, reset_at[m], r))
                if r[0] in (R_TASK, R_TIMER) and r[4] // 2 != inc[m]:
                    raise Bad("task record %s belongs to incarnation %d of module %d, which is in incarnation %d: a task survived a shutdown"
                              % (r, r[4] // 2, m, inc[m]))
                if r[0] == R_PANIC and r[2] == 0:
                    seen_panic = True
            panicked = seen_panic
            resets = [i for i, r in enumerate(recs) if r[0] == R_RESET]
            req = request_of(now, recs, m)
            want = 0 if phase == "end" else (1 if req else 0)
            if len(resets) != want:
                raise Bad("%s unit of module %d at %s: %d reset(s) for %s" % (phase, m, now, len(resets), "a shutdown request" if req else "no shutdown request"))
            if resets:
                i = resets[0]
                r = recs[i]
                if r[2] != now or r[3] != inc[m] + 1:
                    raise Bad("reset record %s: expected time %d and incarnation %d" % (r, now, inc[m] + 1))
                tail = [tuple(x) for x in recs[i + 1:]]
                want_tail = [(R_RPANIC, m, 0, 0, 0)] if d["mods"][m].get("rsend") else []
                if tail != want_tail:
                    raise Bad("records %s follow the reset of module %d in the same event (expected %s: its reset %s)"
                              % (tail, m, want_tail, "calls send / schedule" if want_tail else "does nothing"))
                j = i
                ids, ended = [], []
                while j > 0 and recs[j - 1][0] == R_TEND and recs[j - 1][4] == 2:
                    j -= 1; ended.append(recs[j][2])
                    if recs[j][3] != inc[m]:
                        raise Bad("task %d of module %d is dropped as one of incarnation %d, the module is in incarnation %d"
                                  % (recs[j][2], m, recs[j][3], inc[m]))
                while j > 0 and recs[j - 1][0] == R_CANCEL:
                    j -= 1; ids.append(recs[j][2])
                if any(x[0] == R_CANCEL or (x[0] == R_TEND and x[4] == 2) for x in recs[:j]):
                    raise Bad("a task of module %d was dropped before the end of the event" % m)
                if sorted(ids) != sorted(ended):
                    raise Bad("module %d: futures dropped %s, tasks reported as dropped %s" % (m, sorted(ids), sorted(ended)))
                if len(set(ids)) != len(ids) or any(x >= len(d["mods"][m]["tasks"]) for x in ids):
                    raise Bad("cancelled task ids %s of module %d" % (ids, m))
                inc[m] += 1; down[m] = True; reset_at[m] = now
                pending[m] = req[1] if req[0] == "restart" else None
            elif any(r[0] == R_CANCEL for r in recs):
                raise Bad("a task of module %d was dropped without a shutdown" % m)
        if phase == "loop":
            samples.append((t, mask))
            for i in range(k):
                if down[i] and (mask >> i) & 1:
                    raise Bad("is_active(module %d) is true after the event at %d although it was shut down at %s" % (i, t, reset_at[i]))
            if is_restart and not panicked and not down[m] and not (mask >> m) & 1:
                raise Bad("is_active(module %d) is false after its restart at %d" % (m, t))
    if not run.fuel:
        for i in range(k):
            if pending[i] is not None:
                raise Bad("module %d asked to restart at %d but the run ended without restarting it" % (i, pending[i]))
    check_drops(run, samples)
    check_timers(run)
    return run, inc


def task_sleeps(prog):
    """the sleeps a task really takes, in order: sleep(0) returns at once, nothing runs after a panic"""
    out = []
    for a in prog:
        if a[0] in PANICS:
            break
        if a[0] == "sleep" and a[1] > 0:
            out.append(a[1])
    return out


def timer_expectations(run):
    """(module, task id, incarnation, poll time x, sleep d, log position of the poll, resumed at or None) for every sleep a
    task is seen to enter during start-up or event dispatch: the poll that precedes it is in the log, the sleep is the
    next one of the task's program"""
    d = run.d
    out = []
    open_ = {}
    pos = 0
    for phase, t, mask, recs in run.units():
        for r in recs:
            pos += 1
            if phase == "end" or r[0] not in (R_TASK, R_TIMER):
                continue
            m, tid, inc, x = r[1], r[2], r[4] // 2, r[3]
            key = (m, tid, inc)
            sl = task_sleeps(d["mods"][m]["tasks"][tid]) if tid < len(d["mods"][m]["tasks"]) else []
            if r[0] == R_TASK:
                j = 0
            else:
                if key not in open_:
                    raise Bad("task %d of module %d (incarnation %d) resumes at %d without having been polled before" % (tid, m, inc, x))
                j, e = open_.pop(key)
                e[6] = x
                j += 1
            if j < len(sl):
                e = [m, tid, inc, x, sl[j], pos, None]
                out.append(e)
                open_[key] = (j, e)
    return out


def check_timers(run):
    """a task that sleeps d from time x resumes at exactly x + d ("its timers fire exactly at their deadline", also for the
    incarnation a restart builds) -- unless its module is shut down, or a callback of the module panics, at or before x + d"""
    stops = {}           # module -> [(log position, time)] of resets and callback panics
    pos = 0
    for phase, t, mask, recs in run.units():
        now = t if phase == "loop" else (0 if phase == "start" else recs[0][3] if recs else 0)
        for r in recs:
            pos += 1
            if r[0] == R_RESET or (r[0] == R_PANIC and r[2] == 0) or r[0] == R_QUIET:
                stops.setdefault(r[1], []).append((pos, now))
    for m, tid, inc, x, dl, p, resumed in timer_expectations(run):
        due = x + dl
        if resumed is not None:
            if resumed != due:
                raise Bad("task %d of module %d (incarnation %d) went to sleep for %d at %d but resumed at %d, not at %d"
                          % (tid, m, inc, dl, x, resumed, due))
        elif not run.fuel and not any(q > p and tt <= due for q, tt in stops.get(m, [])):
            raise Bad("task %d of module %d (incarnation %d) went to sleep for %d at %d and its module stayed up, but it never resumed at %d"
                      % (tid, m, inc, dl, x, due))


def sources(run):
    """every message the log says was sent: (dest, arrival, payload, [owners of the gates it passes that are checked])"""
    d, k = run.d, run.k
    out = []
    for kind, m, t, x in d["inj"]:
        if kind == 0:
            out.append((m, t, x, []))
        elif kind == 1:
            out.append((nxt(k, m), t, x, [m]))
        else:
            out.append((nxt(k, nxt(k, m)), t, x, [m, nxt(k, m)]))
    for phase, t, mask, recs in run.units():
        now = t if phase == "loop" else 0
        if phase == "end":
            continue
        for r in recs:
            if r[0] == R_SEND:
                m, far, dl, x = r[1], r[2] % 2, r[3], r[4]
                chain = [m, nxt(k, m)] if far else [m]
                out.append((nxt(k, nxt(k, m)) if far else nxt(k, m), now + dl, x, chain if dl > 0 else chain[1:]))
            elif r[0] == R_SCHED:
                out.append((r[1], now + r[3], r[4], []))
    return out


def check_drops(run, samples):
    """a message whose every possible origin passes a gate of a module that is shut down at its arrival instant is not delivered"""
    src = {}
    for dest, t, x, chain in sources(run):
        src.setdefault((dest, t, x), []).append(chain)
    # a module is down throughout instant t if is_active is false in the last sample before t and in every sample at t
    def down_throughout(i, t):
        before = [mk for (tt, mk) in samples if tt < t]
        at = [mk for (tt, mk) in samples if tt == t]
        # (the start-up phase runs at time 0 and begins with every module active)
        prev = before[-1] if before else ((1 << run.k) - 1 if t == 0 else run.boot[2])
        return not (prev >> i) & 1 and all(not (mk >> i) & 1 for mk in at)
    for phase, t, mask, recs in run.units():
        if phase != "loop":
            continue
        for r in recs:
            if r[0] == R_MSG:
                cands = src.get((r[1], t, r[2]))
                if not cands:
                    raise Bad("module %d handled payload %d at %d but no send or injection accounts for it" % (r[1], r[2], t))
                if all(any(down_throughout(i, t) for i in chain) for chain in cands):
                    raise Bad("payload %d was delivered to module %d at %d although it had to pass a gate of a shut-down module" % (r[2], r[1], t))


def monitor(script, out):
    """C09 evaluated on the implementation's log alone (first and second simulation of the process)"""
    try:
        a, b, v = records3(out)
        d = decode(script)
        check_lifecycle(d, a)
        check_lifecycle(d, b)
    except (ValueError, Bad) as e:
        return str(e)
    except (IndexError, KeyError, TypeError) as e:
        return "malformed log (%s: %s)" % (type(e).__name__, e)
    return None


def mechanisms(script, out):
    ms = set()
    try:
        a, b, v = records3(out)
        d = decode(script)
        run, inc = check_lifecycle(d, a)
    except (ValueError, Bad, IndexError, KeyError, TypeError):
        return ms
    k = run.k
    if sum(1 for x in inc if x) >= 1:
        ms.add("module_reset")
    if max(inc) >= 2:
        ms.add("repeated_cycles")
    if sum(1 for x in inc if x) >= 2:
        ms.add("two_modules_cycling")
    down = set(); restart_times = []; reset_times = {}
    deliver_times = set(); srcs = sources(run)
    for phase, t, mask, recs in run.units():
        for r in recs:
            if r[0] == R_SHUT:
                ms.add("shutdown_from_task" if r[2] > 0 else "shutdown_from_handler")
                ms.add("restart_requested" if r[3] else "shutdown_without_restart")
                if r[3] and r[4] == 0:
                    ms.add("restart_in_zero")
            if r[0] == R_CANCEL:
                ms.add("task_cancelled")
            if r[0] == R_RESET:
                down.add(r[1]); reset_times.setdefault(r[1], []).append(r[2])
            if r[0] == R_MSG:
                deliver_times.add(t)
            if r[0] == R_TIMER:
                ms.add("timer_completed")
        if phase == "loop" and recs and recs[0][0] == R_START:
            ms.add("restart_event"); restart_times.append(t); down.discard(recs[0][1])
            if len([r for r in recs if r[0] == R_START]) >= 2:
                ms.add("restart_multi_stage")
            if any(r[0] == R_RESET for r in recs):
                ms.add("shutdown_again_in_restart")
        if phase == "loop" and not recs and down:
            ms.add("event_ignored_while_some_module_down")
        if phase == "start" and any(r[0] == R_RESET for r in recs):
            ms.add("shutdown_in_at_sim_start")
    delivered = {(r[1], t, r[2]) for phase, t, mask, recs in run.units() if phase == "loop" for r in recs if r[0] == R_MSG}
    for dest, t, x, chain in srcs:
        if (dest, t, x) not in delivered:
            ms.add("message_dropped")
            if len(chain) == 2:
                ms.add("far_message_dropped")
            for mm, ts in reset_times.items():
                if mm in chain and any(tr <= t for tr in ts):
                    ms.add("dropped_at_gate_of_down_module")
                if mm == dest and any(tr <= t for tr in ts):
                    ms.add("dropped_at_down_receiver")
        if t in restart_times:
            ms.add("arrival_at_restart_instant")
    for mm, ts in reset_times.items():
        for dest, t, x, chain in srcs:
            if chain and chain[0] == mm and any(tr < t for tr in ts):
                ms.add("in_transit_at_shutdown")
    if len(d["mods"]) >= 3:
        ms.add("three_or_more_modules")
    # S < R < T < T2: shut down at S with a timer pending for T, restarted at R before T, first timer of the new incarnation T2 > T
    exps = timer_expectations(run)
    for mm, ts in reset_times.items():
        for S in ts:
            old = [x + dl for (m_, tid, inc_, x, dl, p, res) in exps if m_ == mm and res is None and x <= S < x + dl]
            for R in [r for r in restart_times if r > S]:
                new = [x + dl for (m_, tid, inc_, x, dl, p, res) in exps if m_ == mm and x == R]
                if any(S < R < T for T in old) and new and any(min(new) > T for T in old if R < T):
                    ms.add("restart_before_old_deadline")
    return ms


def nontrivial(script, out):
    ms = mechanisms(script, out)
    return "module_reset" in ms and len(ms) >= 3


# ----------------------------------------------------------------------------- generators
def idle_mod(bud=6, stages=1):
    return {"catch": 0, "stages": stages, "bud": bud, "start": [[]], "msg": [[("log", 1)]], "tasks": [], "end": []}


def fam_handler_restart(rng):
    """shutdown / restart from a handler, messages while down, arrivals at the restart instant"""
    k = rng.choice([2, 2, 3])
    r = rng.choice([0, 1, 5, 5, 10])
    t0 = rng.choice([1, 5, 10])
    mods = [idle_mod(stages=rng.choice([1, 2, 3])) for _ in range(k)]
    mods[0]["msg"] = [[("log", 1)], [("log", 2), ("restart", r)] if rng.random() < 0.8 else [("shutdown",)],
                      [("send", rng.randint(0, 1), rng.choice([0, 3, r]), 0), ("log", 3)]]
    mods[0]["tasks"] = [[("sleep", rng.choice([t0, t0 + r, 3, 7])), ("log", 7), ("sleep", 5), ("sched", 0, 0)] for _ in range(rng.randint(0, 2))]
    inj = [(0, 0, t0, 1)]
    for _ in range(rng.randint(1, 5)):
        inj.append((rng.choice([0, 0, 1, 2]), rng.randrange(k), rng.choice([t0, t0 + r, t0 + r, t0 + 1, t0 + r + 1, t0 + r + 5]), rng.choice([0, 0, 2, 1])))
    rng.shuffle(inj)
    return encode({"mods": mods, "inj": inj})


def fam_task_shutdown(rng):
    """a task shuts its module down (with / without restart) at its deadline; other timers of the module are pending"""
    k = rng.choice([2, 3])
    d0 = rng.choice([2, 5, 5, 10])
    r = rng.choice([0, 3, 5])
    mods = [idle_mod() for _ in range(k)]
    req = ("restart", r) if rng.random() < 0.75 else ("shutdown",)
    mods[0]["tasks"] = [[("sleep", d0), ("log", 5), req, ("send", 0, rng.choice([0, 2]), 0), ("sleep", 3), ("log", 6)],
                        [("sleep", rng.choice([d0, d0 + 1, d0 + r, d0 + r + 2])), ("log", 8), ("sleep", 4), ("log", 9)]][:rng.randint(1, 2)]
    mods[0]["start"] = [[("sched", d0, 0)], []] if rng.random() < 0.5 else [[]]
    inj = [(rng.choice([0, 1, 2]), rng.randrange(k), rng.choice([d0, d0 + r, d0 + 1, d0 - 1, d0 + r + 3]), 0) for _ in range(rng.randint(0, 4))]
    return encode({"mods": mods, "inj": inj})


def fam_transit(rng):
    """messages in transit at shutdown and through a gate of a down module"""
    k = rng.choice([2, 3, 3, 4])
    mods = [idle_mod(bud=8) for _ in range(k)]
    s = rng.randrange(k)             # the module that goes down
    ts = rng.choice([5, 10])
    r = rng.choice([None, 3, 10])
    mods[s]["msg"] = [[("log", 1)], [("send", 0, rng.choice([1, 5, 8]), 0), ("send", 1, rng.choice([2, 6]), 0), (("restart", r) if r is not None else ("shutdown",))]]
    prev = (s - 1) % k
    mods[prev]["msg"] = [[("log", 1)], [("send", 1, rng.choice([0, 1, 4]), 0), ("send", 0, rng.choice([0, 2]), 0)]]
    inj = [(0, s, ts, 1), (0, prev, rng.choice([ts - 1, ts, ts + 1, ts + 2]), 1)]
    for _ in range(rng.randint(0, 3)):
        inj.append((rng.choice([1, 2]), rng.choice([s, prev]), rng.choice([ts, ts + 1, ts + 3, ts + (r or 0), ts + (r or 0) + 1]), 0))
    rng.shuffle(inj)
    return encode({"mods": mods, "inj": inj})


def fam_cycles(rng):
    """repeated shutdown / restart cycles driven by the start programs; two modules out of phase"""
    k = rng.choice([2, 2, 3])
    mods = [idle_mod(bud=rng.choice([3, 6, 9]), stages=rng.choice([1, 2])) for _ in range(k)]
    for m in range(rng.choice([1, 2, 2])):
        n = rng.randint(1, 3)
        per = rng.choice([2, 3, 5])
        mods[m]["start"] = [[("log", 10 + i), ("sched", rng.choice([1, per]), 0), ("restart", per + m)] for i in range(n)] + [[("log", 19)]]
        mods[m]["tasks"] = [[("sleep", rng.choice([1, per, per + m, 2 * per])), ("log", 7), ("send", 0, 0, 0)]][:rng.randint(0, 1)]
        if rng.random() < 0.3:
            mods[m]["start"] = [[("restart", per)]]           # cycles until the budget runs out
    inj = [(rng.choice([0, 1]), rng.randrange(k), rng.choice(TIMES), 0) for _ in range(rng.randint(0, 4))]
    return encode({"mods": mods, "inj": inj})


def fam_stale_wakeup(rng):
    """a ticker is shut down mid-period (S), restarted shortly after (R) and before the old deadline (T); the first deadline of
    the new incarnation (T2) is later than T and nothing else happens to the module in between: S < R < T < T2"""
    k = rng.choice([2, 2, 3])
    P = rng.choice([6, 10, 10, 20])
    nticks = rng.randint(1, 3)
    S = P * rng.randint(0, 2) + rng.randint(1, P - 3)
    r = rng.randint(1, max(1, (P * (S // P + 1) - S) - 1))        # R = S + r < T = next multiple of P
    mods = [idle_mod(bud=8, stages=rng.choice([1, 1, 2])) for _ in range(k)]
    tick = []
    for i in range(nticks + 2):
        tick += [("sleep", P), ("log", 7)]
    if rng.random() < 0.5:
        tick.append(("send", 0, 0, 0))
    mods[0]["tasks"] = [tick] + ([[("sleep", P + rng.randint(1, 4)), ("log", 8)]] if rng.random() < 0.3 else [])
    from_task = rng.random() < 0.3
    if from_task:
        mods[0]["tasks"].append([("sleep", S), ("restart", r)])
        mods[0]["start"] = [[], []]
        inj = []
    else:
        mods[0]["msg"] = [[("log", 1)], [("restart", r)]]
        inj = [(0, 0, S, 1)]
    if from_task:
        # only the first incarnation shuts itself down: later ones run the ticker only
        mods[0]["tasks"][-1] = [("sleep", S), ("restart", r), ("sleep", 10 ** 6)]
        mods[0]["bud"] = 1 + (1 if tick[-1][0] == "send" else 0)
    for _ in range(rng.randint(0, 2)):                 # traffic for the other modules only
        inj.append((0, rng.randrange(1, k), rng.choice([S, S + r, S + 1, P, 2 * P]), 0))
    return encode({"mods": mods, "inj": inj})


def no_panic(script):
    d = decode(script)
    for m in d["mods"]:
        for ps in (m["start"], m["msg"], m["tasks"], [m["end"]]):
            for p in ps:
                p[:] = [a if a[0] not in PANICS + ("quiet",) else ("log", 99) for a in p]
    return encode(d)


def gen(rng, n):
    fams = [fam_handler_restart, fam_task_shutdown, fam_transit, fam_cycles]
    for i in range(n):
        j = i % 6
        if i % 12 == 11:
            yield fam_stale_wakeup(rng)
        elif j < 4:
            yield fams[j](rng)
        elif j == 4:
            yield no_panic(gen_random(rng))
        else:
            yield gen_random(rng)        # panics included: C09 holds of those runs as well


def exhaustive():
    """around one instant T = 10 of module 0: every order of {arrival A, shutdown request S, trigger of a restart that is due at T}
    x {present or not} x {a task deadline at T or not} x {restart delay of S} x {gate used by A} x {A and S injected up front (they then
    precede the restart event at T) or sent by module 1 at t = 7 (they then follow it)}"""
    T = 10
    for order in itertools.permutations(["A", "S", "R"]):
        for present in itertools.product([0, 1], repeat=3):
            if not any(present):
                continue
            for deadline in (0, 1):
                for rs in (None, 0, 5):
                    for gate in (0, 1, 2):
                        for late in (0, 1):
                            mods = [idle_mod(bud=6, stages=2), idle_mod(bud=6)]
                            mods[0]["msg"] = [[("log", 1), ("sched", 0, 0)], [("restart", rs)] if rs is not None else [("shutdown",)],
                                              [("restart", T - 5)]]
                            mods[1]["msg"] = [[("log", 1)], [("send", 0, T - 7, 0)], [("send", 0, T - 7, 1)]]
                            if deadline:
                                mods[0]["tasks"] = [[("sleep", T), ("log", 7), ("send", 0, 0, 0)]]
                            inj = []
                            for o, p in zip(order, present):
                                if not p:
                                    continue
                                if o == "A":
                                    inj.append((0, 1, 7, 1) if late else (gate, {0: 0, 1: 1, 2: 0}[gate], T, 0))
                                elif o == "S":
                                    inj.append((0, 1, 7, 2) if late else (0, 0, T, 1))
                                else:
                                    inj.append((0, 0, 5, 2))                          # module 0 is down from 5, restart due at T
                            yield encode({"mods": mods, "inj": inj})
