#!/usr/bin/env python3
"""prints the runner binaries that props modules with HARNESS = <dir name> use: tools/harness_bins.py harness_heap"""
import sys, os, glob, re
name = sys.argv[1].rstrip("/")
bins = set()
for f in glob.glob(os.path.join(os.path.dirname(os.path.abspath(__file__)), "props", "c*.py")):
    t = open(f).read()
    if re.search(r'HARNESS\s*=\s*"%s"' % re.escape(name), t):
        m = re.search(r'IMPL\s*=\s*"(\w+)"', t)
        if m:
            bins.add(m.group(1))
print(" ".join(sorted(bins)))
