#!/bin/bash
# usage: tools/harmless.sh <rawdir> <i> <name>
# Applies a BEHAVIOUR-PRESERVING refactoring (<rawdir>/r<i>.diff) in a scratch worktree and runs every property's quick
# check (+ parts) against it: none of them should report a violation.  Result: seeded/_harmless/<name>.json
set -u
OUT=$1; I=$2; NAME=$3
export CARGO_NET_OFFLINE=true
WT=/tmp/hl-$NAME
H=/tmp/hlh-$NAME
DST=/verif/seeded/_harmless
mkdir -p $DST
git -C /repo worktree remove --force $WT 2>/dev/null; rm -rf $WT $H ${H}_*
git -C /repo worktree add -q $WT HEAD || exit 2
cd $WT
cp $OUT/r$I.diff $DST/$NAME.diff
git apply $DST/$NAME.diff || { echo "patch does not apply"; exit 2; }
unset RUSTFLAGS
TESTS=$(cargo nextest run --workspace --no-fail-fast --tool-config-file pb:/w/lib/nextest.toml --profile pb --test-threads 8 --offline 2>&1 | grep -E "Summary" | tail -1)
mkdir -p $H && cp -r /verif/harness/Cargo.toml /verif/harness/.cargo $H/ && ln -s /verif/harness/src $H/src && cp /verif/harness/Cargo.lock $H/ 2>/dev/null
sed -i "s#/repo/#$WT/#g" $H/Cargo.toml
XENV=""
for hx in /verif/harness_*; do
  [ -f $hx/Cargo.toml ] || continue
  sfx=${hx#/verif/harness_}
  mkdir -p ${H}_$sfx && cp -r $hx/Cargo.toml $hx/.cargo ${H}_$sfx/ && ln -s $(readlink -f $hx/src) ${H}_$sfx/src && cp $hx/Cargo.lock ${H}_$sfx/ 2>/dev/null
  sed -i "s#/repo/#$WT/#g" ${H}_$sfx/Cargo.toml
  XENV="$XENV VERIF_HARNESS_DIR_$(echo $sfx | tr a-z A-Z)=${H}_$sfx"
done
cd /verif
: > $DST/$NAME.log
RES=""
for ID in C01 C02 C03 C04 C05 C06 C07 C08 C09 C10 C11 C12 C13 C14 C15 C16 C17 C18 C19 C20; do
  env $XENV VERIF_REPO_DIR=$WT VERIF_HARNESS_DIR=$H timeout 1800 python3 tools/check.py $ID --tier quick >> $DST/$NAME.log 2>&1; RC=$?
  idl=$(echo $ID | tr A-Z a-z)
  for pf in tools/props/${idl}_*.py; do
    [ -f "$pf" ] || continue
    pt=$(basename $pf .py); pt=${pt#${idl}_}
    env $XENV VERIF_REPO_DIR=$WT VERIF_HARNESS_DIR=$H timeout 1800 python3 tools/check.py $ID --part $pt --tier quick >> $DST/$NAME.log 2>&1; R2=$?
    [ $R2 -ne 0 ] && RC=$R2
  done
  RES="$RES $ID:$RC"
done
python3 - <<PY
import json, re
j = json.load(open("$OUT/r$I.json"))
res = dict(x.split(":") for x in "$RES".split())
viol = [l.strip() for l in open("$DST/$NAME.log") if l.startswith("VIOLATION")]
json.dump({"name": "$NAME", "area": j.get("area"), "summary": j.get("summary"), "why_equivalent": j.get("why_equivalent"),
           "files": j.get("files"), "suite_with_change": """$TESTS""".strip(), "check_exit_per_property": res,
           "violation_lines": viol}, open("$DST/$NAME.json", "w"), indent=1)
print("$NAME: %s | alarms: %s" % ("""$TESTS""".strip(), [k for k, v in res.items() if v != "0"]))
PY
rm -rf $WT/target $H ${H}_*
git -C /repo worktree remove --force $WT
