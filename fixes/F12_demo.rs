//! Demonstration for F12: `Topology::dijkstra` must report, for every reachable
//! node, the first edge of a *minimum-hop* path.
//!
//! Place as `des/tests/verif_demo_f12.rs` and run
//! `cargo test -p des --features full --test verif_demo_f12 --offline`.
use des::net::topology::Topology;
use des::prelude::*;
use serial_test::serial;

struct Fallback;
impl Module for Fallback {}

/// Triangle s-a, s-b, a-b. The gates of `s` are created in the order to-b, to-a.
/// `b` is a direct neighbour of `s`, so the first hop towards `b` must be `b` itself.
#[test]
#[serial]
fn dijkstra_first_hop_is_on_a_minimum_hop_path() {
    let mut sim = Sim::new(());
    sim.node("s", Fallback);
    sim.node("a", Fallback);
    sim.node("b", Fallback);

    sim.gate("s", "to-b").connect(sim.gate("b", "to-s"), None);
    sim.gate("s", "to-a").connect(sim.gate("a", "to-s"), None);
    sim.gate("a", "to-b").connect(sim.gate("b", "to-a"), None);

    let modules = ["s", "a", "b"].map(|p| sim.get(&p.into()).unwrap());
    let topo = Topology::from_modules(&modules);
    assert!(topo.bidirectional() && topo.connected());

    let dj = topo.dijkstra("s");
    assert_eq!(dj.len(), 2);
    for dst in ["a", "b"] {
        let hop = dj.get(&dst.into()).expect("reachable");
        assert_eq!(hop.from.module().path().as_str(), "s");
        assert_eq!(
            hop.to.module().path().as_str(),
            dst,
            "'{dst}' is a direct neighbour of 's', but the first hop leads elsewhere"
        );
    }
}

/// A longer detour must never win over a shorter path, whatever the gate order.
/// Ring s-a-b-c-d-s: `d` is 1 hop away (via d), `c` is 2 hops away (via d).
#[test]
#[serial]
fn dijkstra_ring_prefers_short_side() {
    let mut sim = Sim::new(());
    for n in ["s", "a", "b", "c", "d"] {
        sim.node(n, Fallback);
    }
    let ring = ["s", "a", "b", "c", "d"];
    // create the "wrong way round" gate of s last, so a stack would explore it first
    sim.gate("d", "next").connect(sim.gate("s", "prev"), None);
    for i in 0..4 {
        sim.gate(ring[i], "next")
            .connect(sim.gate(ring[i + 1], "prev"), None);
    }

    let modules = ring.map(|p| sim.get(&p.into()).unwrap());
    let topo = Topology::from_modules(&modules);
    let dj = topo.dijkstra("s");

    let via = |dst: &str| dj.get(&dst.into()).unwrap().to.module().path().to_string();
    assert_eq!(via("a"), "a");
    assert_eq!(via("d"), "d");
    assert_eq!(via("c"), "d");
    // b is 2 hops via a, 3 hops via d
    assert_eq!(via("b"), "a");
}
