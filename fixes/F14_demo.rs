#![cfg(feature = "net")]
//! Demonstration for F14: a simulation that is stopped by a limit while a channel still has
//! a backlog must release the channel and all queued messages when it is dropped.

use std::sync::{
    atomic::{AtomicIsize, Ordering},
    Arc,
};

use des::{net::message::MessageBody, prelude::*};
use serial_test::serial;

/// A payload that counts how many instances are currently alive.
#[derive(Debug)]
struct Tracked {
    alive: Arc<AtomicIsize>,
}

impl Tracked {
    fn new(alive: &Arc<AtomicIsize>) -> Self {
        alive.fetch_add(1, Ordering::SeqCst);
        Self {
            alive: alive.clone(),
        }
    }
}

impl Clone for Tracked {
    fn clone(&self) -> Self {
        Self::new(&self.alive)
    }
}

impl Drop for Tracked {
    fn drop(&mut self) {
        self.alive.fetch_sub(1, Ordering::SeqCst);
    }
}

impl MessageBody for Tracked {
    fn byte_len(&self) -> usize {
        1000
    }
}

struct Sender {
    alive: Arc<AtomicIsize>,
    received: usize,
}

impl Module for Sender {
    fn at_sim_start(&mut self, _stage: usize) {
        // 1064 byte at 8000 bit/s: each message keeps the channel busy for 1.064s
        for i in 0..10 {
            send(
                Message::default().id(i).with_content(Tracked::new(&self.alive)),
                "out",
            );
        }
    }

    fn handle_message(&mut self, _msg: Message) {
        self.received += 1;
    }
}

fn run_with_backlog(limit: impl FnOnce(Builder) -> Builder) {
    let alive = Arc::new(AtomicIsize::new(0));

    let mut sim = Sim::new(());
    sim.node(
        "root",
        Sender {
            alive: alive.clone(),
            received: 0,
        },
    );

    let g_in = sim.gate("root", "in");
    let g_out = sim.gate("root", "out");
    g_out.clone().connect(
        g_in,
        Some(Channel::new(ChannelMetrics {
            bitrate: 8000,
            latency: Duration::from_millis(100),
            jitter: Duration::ZERO,
            drop_behaviour: ChannelDropBehaviour::Queue(None),
        })),
    );

    // the channel that transports the messages (out -> in)
    let channel = Arc::downgrade(&g_out.channel().unwrap());
    drop(g_out);

    let rt = limit(Builder::seeded(123)).build(sim.freeze());
    let (sim, time, profiler) = rt.run().unwrap();

    // The simulation was stopped while the channel had a backlog.
    assert!(time < SimTime::from(5.0));
    assert!(channel.upgrade().unwrap().is_busy());
    assert_eq!(alive.load(Ordering::SeqCst), 10 - 2); // two messages were delivered

    drop(sim);
    drop(profiler);

    assert_eq!(
        alive.load(Ordering::SeqCst),
        0,
        "messages queued at the channel were never dropped"
    );
    assert!(
        channel.upgrade().is_none(),
        "channel is still alive after the simulation was dropped"
    );
}

#[test]
#[serial]
fn f14_time_limited_sim_drops_channel_backlog() {
    // t = 0: (0) transmitting, (1..=9) queued
    // t = 1.064: (1) transmitting, t = 2.128: (2) transmitting, t = 2.228 (1) arrives
    run_with_backlog(|b| b.max_time(SimTime::from(2.5)));
}

#[test]
#[serial]
fn f14_event_limited_sim_drops_channel_backlog() {
    // events: unbusy, exit(0), handle(0), unbusy, exit(1), handle(1)
    run_with_backlog(|b| b.max_itr(6));
}
