//! Demonstration for F13: in the view spanned from a root module there is exactly
//! one node per reachable module, and each edge leads to the module that owns the
//! other end of the gate chain.
//!
//! Place as `des/tests/verif_demo_f13.rs` and run
//! `cargo test -p des --features full --test verif_demo_f13 --offline`.
use des::net::topology::Topology;
use des::prelude::*;
use serial_test::serial;

struct Fallback;
impl Module for Fallback {}

fn assert_consistent(topology: &Topology<(), ()>, expected_nodes: &[&str]) {
    let mut names = topology
        .nodes()
        .iter()
        .map(|n| n.module().path().to_string())
        .collect::<Vec<_>>();
    names.sort();
    let mut expected = expected_nodes
        .iter()
        .map(|s| s.to_string())
        .collect::<Vec<_>>();
    expected.sort();
    assert_eq!(names, expected, "exactly one node per reachable module");

    for edge in topology.edges() {
        assert_eq!(
            edge.from.module().path(),
            edge.from.gate().owner().path(),
            "edge starts at the module owning its start gate"
        );
        assert_eq!(
            edge.to.module().path(),
            edge.to.gate().owner().path(),
            "edge {} -> {} must lead to the owner of the far gate",
            edge.from.gate().path(),
            edge.to.gate().path(),
        );
    }
}

/// Root `s` with two neighbours `a` and `b` (not connected to each other).
#[test]
#[serial]
fn spanned_star_edges_lead_to_gate_owner() {
    let mut sim = Sim::new(());
    sim.node("s", Fallback);
    sim.node("a", Fallback);
    sim.node("b", Fallback);

    sim.gate("s", "to-a").connect(sim.gate("a", "to-s"), None);
    sim.gate("s", "to-b").connect(sim.gate("b", "to-s"), None);

    let topology = Topology::spanned(sim.get(&"s".into()).unwrap());
    assert_eq!(topology.edges().count(), 4);
    assert_consistent(&topology, &["s", "a", "b"]);
    assert!(topology.bidirectional());
}

/// The topology of the existing `spanned_topology` test, but checking the edges, not only counts.
#[test]
#[serial]
fn spanned_tree_edges_lead_to_gate_owner() {
    let mut sim = Sim::new(());
    sim.node("alice", Fallback);
    sim.node("alice.eve", Fallback);
    sim.node("alice.eve.travis", Fallback);
    sim.node("alice.sophie", Fallback);
    sim.node("bob", Fallback);

    sim.gate("alice", "to-eve")
        .connect(sim.gate("alice.eve", "to-alice"), None);
    sim.gate("alice", "to-sophie")
        .connect(sim.gate("alice.sophie", "to-alice"), None);
    sim.gate("alice.eve", "to-travis")
        .connect(sim.gate("alice.eve.travis", "to-eve"), None);
    sim.gate("alice.eve", "to-sophie")
        .connect(sim.gate("alice.sophie", "to-eve"), None);

    let topology = Topology::spanned(sim.get(&"alice".into()).unwrap());
    assert_eq!(topology.edges().count(), 8);
    assert_consistent(
        &topology,
        &["alice", "alice.eve", "alice.eve.travis", "alice.sophie"],
    );
}
