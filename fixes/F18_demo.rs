#![cfg(feature = "net")]
//! Demonstration for F18: a `ChannelRef` handed to `Gate::connect` is a configuration template.
//! "Both direction will have unique instances of the channel, with identical configuration" --
//! so two links built from (clones of) one handle, and a link built from the handle of a live
//! link, must not share any transmission state.

use std::sync::{Arc, Mutex};

use des::prelude::*;
use serial_test::serial;

const BITRATE: usize = 8_000; // 64 byte header-only message => 64ms on the wire
const LATENCY: Duration = Duration::from_millis(100);

type Log = Arc<Mutex<Vec<(u16, SimTime)>>>;

fn metrics(drop_behaviour: ChannelDropBehaviour) -> ChannelMetrics {
    ChannelMetrics {
        bitrate: BITRATE,
        latency: LATENCY,
        jitter: Duration::ZERO,
        drop_behaviour,
    }
}

fn due(secs_ms: u64) -> SimTime {
    let tx = Duration::from_secs_f64(64.0 * 8.0 / BITRATE as f64);
    SimTime::from_duration(Duration::from_millis(secs_ms) + tx + LATENCY)
}

/// One module, two links a<->b and c<->d built from ONE template handle. A message is sent
/// into `b` (travels b -> a) and, 10ms later, one into `d` (travels d -> c). The links are
/// different links: the second message finds its own link idle.
struct TwoLinks {
    log: Log,
}

impl Module for TwoLinks {
    fn at_sim_start(&mut self, _stage: usize) {
        send(Message::default().id(1), "b");
        schedule_in(Message::default().id(100), Duration::from_millis(10));
    }

    fn handle_message(&mut self, msg: Message) {
        match msg.header().id {
            100 => {
                send(Message::default().id(2), "d");
            }
            id => self.log.lock().unwrap().push((id, SimTime::now())),
        }
    }
}

fn run_two_links(drop_behaviour: ChannelDropBehaviour) -> Vec<(u16, SimTime)> {
    let log = Log::default();
    let mut sim = Sim::new(());
    sim.node("node", TwoLinks { log: log.clone() });
    let a = sim.gate("node", "a");
    let b = sim.gate("node", "b");
    let c = sim.gate("node", "c");
    let d = sim.gate("node", "d");

    let template = Channel::new(metrics(drop_behaviour));
    a.connect(b, Some(template.clone()));
    c.connect(d, Some(template.clone()));

    let _ = Builder::seeded(1).max_time(100.0.into()).build(sim.freeze()).run();
    let v = log.lock().unwrap().clone();
    v
}

#[test]
#[serial]
fn f18_two_links_from_one_template_drop() {
    // on HEAD: (2) is dropped "because the channel was busy" -- with (1), on another link
    assert_eq!(
        run_two_links(ChannelDropBehaviour::Drop),
        vec![(1, due(0)), (2, due(10))]
    );
}

#[test]
#[serial]
fn f18_two_links_from_one_template_queue() {
    // on HEAD: (2) waits in the queue for (1) of the other link and leaves at 64ms
    assert_eq!(
        run_two_links(ChannelDropBehaviour::Queue(None)),
        vec![(1, due(0)), (2, due(10))]
    );
}

/// The caller keeps its handle: it must stay a template and never become the live channel
/// of a link (its state must not change when the link transmits).
struct KeepsHandle {
    template: ChannelRef,
}

impl Module for KeepsHandle {
    fn at_sim_start(&mut self, _stage: usize) {
        send(Message::default().id(1), "b");
        assert!(current().gate("b", 0).unwrap().channel().unwrap().is_busy());
        assert!(
            !self.template.is_busy(),
            "the template handle passed to connect() is the live channel of direction b -> a"
        );
    }
}

#[test]
#[serial]
fn f18_template_handle_is_not_a_live_channel() {
    let template = Channel::new(metrics(ChannelDropBehaviour::Drop));
    let mut sim = Sim::new(());
    sim.node(
        "node",
        KeepsHandle {
            template: template.clone(),
        },
    );
    let a = sim.gate("node", "a");
    let b = sim.gate("node", "b");
    a.connect(b, Some(template));
    let r = Builder::seeded(1).max_time(100.0.into()).build(sim.freeze()).run();
    assert!(r.is_ok(), "a module panicked: {:?}", r.err().map(|e| e.to_string()));
}
