#![cfg(feature = "net")]
//! Demonstration for F6: the jitter added to a transmission is drawn from [0, jitter),
//! so it must never be equal to `jitter` itself.

use des::prelude::*;
use rand::{rngs::StdRng, RngCore, SeedableRng};

fn metrics(jitter: Duration) -> ChannelMetrics {
    ChannelMetrics {
        bitrate: 0, // no transmission time
        latency: Duration::ZERO,
        jitter,
        drop_behaviour: ChannelDropBehaviour::Drop,
    }
}

#[test]
fn f6_jitter_sample_is_below_jitter() {
    let msg = Message::default();
    let mut rng = StdRng::seed_from_u64(123);

    // jitter = 2ns: the only valid samples are 0ns and 1ns
    let m = metrics(Duration::from_nanos(2));
    let mut hist = [0usize; 3];
    for _ in 0..100_000 {
        let d = m.calculate_duration(&msg, &mut rng);
        hist[(d.as_nanos() as usize).min(2)] += 1;
    }
    println!("jitter = 2ns, histogram of samples (0ns, 1ns, >= 2ns): {hist:?}");
    assert_eq!(hist[2], 0, "sampled a jitter that is not below the bound");
    assert!(hist[0] > 45_000 && hist[1] > 45_000, "not uniform: {hist:?}");

    // some other bounds
    for bound in [1, 3, 10, 1_000, 999_999_999, 100_000_000_000u64] {
        let bound = Duration::from_nanos(bound);
        let m = metrics(bound);
        let mut max = Duration::ZERO;
        for _ in 0..100_000 {
            let d = m.calculate_duration(&msg, &mut rng);
            assert!(d < bound, "sampled {d:?} with jitter {bound:?}");
            max = max.max(d);
        }
        // the upper part of the range is reached
        assert!(max.as_nanos() * 10 >= bound.as_nanos().saturating_sub(1) * 9);
    }
}

/// Each jittered transmission consumes exactly one 64 bit draw of the seeded rng, so
/// everything else that is derived from the rng stays in sync.
#[test]
fn f6_jitter_consumes_one_draw_per_transmission() {
    let msg = Message::default();
    let m = metrics(Duration::from_millis(100));

    let mut a = StdRng::seed_from_u64(42);
    let mut b = StdRng::seed_from_u64(42);
    for n in 0..10_000 {
        let _ = m.calculate_duration(&msg, &mut a);
        let _ = b.next_u64();
        if n % 1000 == 0 {
            assert_eq!(a.clone().next_u64(), b.clone().next_u64());
        }
    }
    assert_eq!(a.next_u64(), b.next_u64());
}
