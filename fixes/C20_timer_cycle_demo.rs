//! Is the TimerSlot <-> TimerQueue cycle a real leak?  Live heap bytes after N simulations whose
//! only module has a task sleeping on a timer that is still pending when the simulation is dropped,
//! versus N simulations where the timer fired before the end.
use des::prelude::*;
use std::alloc::{GlobalAlloc, Layout, System};
use std::sync::atomic::{AtomicIsize, Ordering::SeqCst};

struct Counting;
static LIVE: AtomicIsize = AtomicIsize::new(0);
static BLOCKS: AtomicIsize = AtomicIsize::new(0);
unsafe impl GlobalAlloc for Counting {
    unsafe fn alloc(&self, l: Layout) -> *mut u8 {
        LIVE.fetch_add(l.size() as isize, SeqCst);
        BLOCKS.fetch_add(1, SeqCst);
        System.alloc(l)
    }
    unsafe fn dealloc(&self, p: *mut u8, l: Layout) {
        LIVE.fetch_sub(l.size() as isize, SeqCst);
        BLOCKS.fetch_sub(1, SeqCst);
        System.dealloc(p, l)
    }
}
#[global_allocator]
static A: Counting = Counting;

struct Sleeper {
    dur: u64,
}
impl Module for Sleeper {
    fn at_sim_start(&mut self, _: usize) {
        let d = self.dur;
        tokio::spawn(async move {
            des::time::sleep(Duration::from_nanos(d)).await;
        });
        schedule_in(Message::default(), Duration::from_nanos(10));
    }
}

fn one(dur: u64, max_time: u64) {
    let mut sim = Sim::new(());
    sim.node("a", Sleeper { dur });
    let rt = Builder::seeded(1)
        .quiet()
        .max_time(SimTime::from_duration(Duration::from_nanos(max_time)))
        .build(sim.freeze());
    let r = rt.run();
    drop(r);
}

fn main() {
    for (name, dur, mt) in [("timer fired before the end", 5u64, 100u64), ("timer pending at drop", 1000, 100)] {
        for _ in 0..50 {
            one(dur, mt); // warm up lazily initialised statics
        }
        let (b0, n0) = (LIVE.load(SeqCst), BLOCKS.load(SeqCst));
        for _ in 0..1000 {
            one(dur, mt);
        }
        let (b1, n1) = (LIVE.load(SeqCst), BLOCKS.load(SeqCst));
        println!("{name}: after 1000 more simulations: live bytes +{}, live blocks +{}", b1 - b0, n1 - n0);
    }
}
