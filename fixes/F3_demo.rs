#![cfg(feature = "async")]
//! Demonstration for F3: a timer slot that was emptied in the same event that created it
//! must not hide later timers of the same module.
//!
//! In every test a timer with an EARLY deadline is registered and cancelled again within
//! one event (so its slot stays in the timer queue without entries), and afterwards a
//! timer with a LATER deadline is awaited. The later timer must fire exactly at its deadline.

use des::{
    net::blocks::AsyncFn,
    prelude::*,
    time::{self, sleep, timeout},
};
use serial_test::serial;
use tokio::sync::mpsc;

/// `timeout(5s, rx.recv())` is satisfied in the very instant it was first polled,
/// afterwards `sleep(10s)` must return at t = 10s.
#[test]
#[serial]
fn f3_timeout_satisfied_at_once_then_sleep() {
    let mut sim = Sim::new(());
    sim.node(
        "alice",
        AsyncFn::new(|_| async move {
            let (tx, mut rx) = mpsc::channel::<i32>(1);
            // runs after the main task was polled once, but still at t = 0
            tokio::spawn(async move {
                tx.send(42).await.unwrap();
            });

            let result = timeout(Duration::from_secs(5), rx.recv()).await;
            assert_eq!(result, Ok(Some(42)));
            assert_eq!(SimTime::now(), SimTime::ZERO);

            sleep(Duration::from_secs(10)).await;
            assert_eq!(SimTime::now(), SimTime::from(10.0));
        })
        .require_join(),
    );

    let result = Builder::seeded(123).build(sim.freeze()).run();
    let (_, time, _) = result.expect("sleep(10s) never returned, task did not finish");
    assert_eq!(time, 10.0);
}

/// `select!` drops a sleep(5s) that was allready polled, afterwards `sleep(10s)`
/// must return at t = 10s.
#[test]
#[serial]
fn f3_select_drops_sleep_then_sleep() {
    let mut sim = Sim::new(());
    sim.node(
        "alice",
        AsyncFn::new(|_| async move {
            tokio::select! {
                biased;
                _ = sleep(Duration::from_secs(5)) => unreachable!(),
                _ = std::future::ready(()) => {},
            }
            assert_eq!(SimTime::now(), SimTime::ZERO);

            sleep(Duration::from_secs(10)).await;
            assert_eq!(SimTime::now(), SimTime::from(10.0));
        })
        .require_join(),
    );

    let result = Builder::seeded(123).build(sim.freeze()).run();
    let (_, time, _) = result.expect("sleep(10s) never returned, task did not finish");
    assert_eq!(time, 10.0);
}

/// A sleep that was allready polled is reset to a later deadline. It must complete
/// at the new deadline.
#[test]
#[serial]
fn f3_reset_polled_sleep_to_later_deadline() {
    let mut sim = Sim::new(());
    sim.node(
        "alice",
        AsyncFn::new(|_| async move {
            let sleep = time::sleep(Duration::from_secs(5));
            tokio::pin!(sleep);

            tokio::select! {
                biased;
                _ = &mut sleep => unreachable!(),
                _ = std::future::ready(()) => {},
            }

            sleep.as_mut().reset(SimTime::from(10.0));
            sleep.await;
            assert_eq!(SimTime::now(), SimTime::from(10.0));
        })
        .require_join(),
    );

    let result = Builder::seeded(123).build(sim.freeze()).run();
    let (_, time, _) = result.expect("reset sleep never returned, task did not finish");
    assert_eq!(time, 10.0);
}

/// The repaired queue must neither wake early nor schedule wakeups for cancelled timers:
/// a dropped later timer does not produce an event, a live one in between fires on time.
#[test]
#[serial]
fn f3_no_early_or_superfluous_wakeups() {
    let mut sim = Sim::new(());
    sim.node(
        "alice",
        AsyncFn::new(|_| async move {
            // slots: 2s (emptied), 4s (live), 6s (emptied)
            let live = sleep(Duration::from_secs(4));
            tokio::pin!(live);
            tokio::select! {
                biased;
                _ = sleep(Duration::from_secs(2)) => unreachable!(),
                _ = &mut live => unreachable!(),
                _ = sleep(Duration::from_secs(6)) => unreachable!(),
                _ = std::future::ready(()) => {},
            }
            live.await;
            assert_eq!(SimTime::now(), SimTime::from(4.0));
        })
        .require_join(),
    );

    let result = Builder::seeded(123).build(sim.freeze()).run();
    let (_, time, profiler) = result.expect("sleep(4s) never returned, task did not finish");
    assert_eq!(time, 4.0);
    assert_eq!(profiler.event_count, 1); // only the wakeup at 4s
}
