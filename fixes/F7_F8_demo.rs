//! Demonstration for defects F7 and F8 (limit handling in `Runtime::dispatch_event`).
//!
//! F7: a stepped run (`dispatch_n_events` / `dispatch_events_until`, then `dispatch_all`)
//!     must execute exactly the same events, in the same order, at the same times as one
//!     uninterrupted run -- for every way of cutting the run, including cuts inside a
//!     group of events with equal timestamps.
//! F8: while the runtime is paused it must accept new events at any time not earlier than
//!     the reported simulation time, and dispatch them in time order.
//!
//! Fails on the unpatched crate, passes with `F7_F8.diff`.

use des::prelude::*;
use serial_test::serial;

struct App {
    /// (event id, `SimTime::now()` inside the handler)
    log: Vec<(u32, SimTime)>,
}

impl Application for App {
    type EventSet = Ev;
    type Lifecycle = ();
}

/// `Ev(id, children)`: logs itself, then schedules `children` as `(id, delay in ms)`.
struct Ev(u32, Vec<(u32, u64)>);

impl Event<App> for Ev {
    fn handle(self, rt: &mut Runtime<App>) {
        rt.app.log.push((self.0, SimTime::now()));
        for (id, delay) in self.1 {
            rt.add_event_in(Ev(id, Vec::new()), Duration::from_millis(delay));
        }
    }
}

fn ms(v: u64) -> SimTime {
    SimTime::from_duration(Duration::from_millis(v))
}

type Trace = Vec<(u32, SimTime)>;

/// A scenario: initial events as (id, time in ms, children (id, delay in ms)).
type Scenario = Vec<(u32, u64, Vec<(u32, u64)>)>;

fn started(scenario: &Scenario) -> Runtime<App> {
    let mut rt = Builder::seeded(1).quiet().build(App { log: Vec::new() });
    for (id, t, children) in scenario {
        rt.add_event(Ev(*id, children.clone()), ms(*t));
    }
    rt.start();
    rt
}

fn finished(rt: Runtime<App>) -> Trace {
    rt.finish().unwrap().0.log
}

fn uninterrupted(scenario: &Scenario) -> Trace {
    let mut rt = started(scenario);
    rt.dispatch_all();
    finished(rt)
}

fn scenarios() -> Vec<Scenario> {
    vec![
        // three events at t = 0 (live in the zero-delay bucket)
        vec![(1, 0, vec![]), (2, 0, vec![]), (3, 0, vec![])],
        // three events with an equal, non-zero timestamp (live in a calendar bucket)
        vec![(1, 1000, vec![]), (2, 1000, vec![]), (3, 1000, vec![])],
        // groups of equal timestamps, far apart, with zero-delay and delayed children
        vec![
            (1, 0, vec![(11, 0), (12, 0), (13, 7000)]),
            (2, 0, vec![(21, 0)]),
            (3, 0, vec![]),
            (4, 1000, vec![(41, 0), (42, 0)]),
            (5, 1000, vec![(51, 0), (52, 4000)]),
            (6, 1000, vec![]),
            (7, 5000, vec![(71, 0)]),
            (8, 5000, vec![]),
            (9, 9000, vec![]),
        ],
    ]
}

/// The reported reproducer: A, B, C at time 0; one step, then the rest.
#[test]
#[serial]
fn f7_three_events_at_zero_one_step_then_all() {
    let scenario = &scenarios()[0];
    let mut rt = started(scenario);
    rt.dispatch_n_events(1);
    assert_eq!(rt.num_events_dispatched(), 1);
    assert_eq!(rt.num_events_remaining(), 2);
    rt.dispatch_all();
    let ids: Vec<u32> = finished(rt).into_iter().map(|(id, _)| id).collect();
    assert_eq!(ids, vec![1, 2, 3], "stepped run reordered events with equal timestamps");
}

/// Every cut by event count: `dispatch_n_events(k)` then `dispatch_all()`.
#[test]
#[serial]
fn f7_every_cut_by_event_count() {
    for (s, scenario) in scenarios().iter().enumerate() {
        let reference = uninterrupted(scenario);
        for k in 0..=reference.len() + 1 {
            let mut rt = started(scenario);
            rt.dispatch_n_events(k);
            assert_eq!(rt.num_events_dispatched(), k.min(reference.len()));
            assert_eq!(rt.app.log[..], reference[..k.min(reference.len())]);
            rt.dispatch_all();
            assert_eq!(finished(rt), reference, "scenario {s}, cut after {k} events");
        }
    }
}

/// Single stepping all the way: `dispatch_n_events(1)` until nothing is left.
#[test]
#[serial]
fn f7_single_stepping() {
    for (s, scenario) in scenarios().iter().enumerate() {
        let reference = uninterrupted(scenario);
        let mut rt = started(scenario);
        for i in 0..reference.len() {
            rt.dispatch_n_events(1);
            assert_eq!(rt.num_events_dispatched(), i + 1);
            assert_eq!(rt.sim_time(), reference[i].1);
        }
        assert_eq!(rt.num_events_remaining(), 0);
        assert_eq!(finished(rt), reference, "scenario {s}, single stepping");
    }
}

/// Every cut by time: `dispatch_events_until(t)` then `dispatch_all()`,
/// and a run that is cut at every 500 ms.
#[test]
#[serial]
fn f7_every_cut_by_time() {
    for (s, scenario) in scenarios().iter().enumerate() {
        let reference = uninterrupted(scenario);
        for t in (0..=10_000).step_by(500) {
            let mut rt = started(scenario);
            rt.dispatch_events_until(ms(t));
            let n = reference.iter().filter(|(_, time)| *time <= ms(t)).count();
            assert_eq!(rt.app.log[..], reference[..n], "scenario {s}, until {t}ms");
            rt.dispatch_all();
            assert_eq!(finished(rt), reference, "scenario {s}, cut at {t}ms");
        }

        let mut rt = started(scenario);
        for t in (0..=10_000).step_by(500) {
            rt.dispatch_events_until(ms(t));
            rt.dispatch_n_events(1);
        }
        rt.dispatch_all();
        assert_eq!(finished(rt), reference, "scenario {s}, many cuts");
    }
}

/// The reported reproducer: events at 1 s and 10 s, pause at 2 s, then add an event at 5 s.
#[test]
#[serial]
fn f8_add_while_paused() {
    let scenario: Scenario = vec![(1, 1000, vec![]), (10, 10_000, vec![])];
    let mut rt = started(&scenario);
    rt.dispatch_events_until(ms(2000));
    assert_eq!(rt.sim_time(), ms(1000));
    assert_eq!(rt.num_events_dispatched(), 1);

    // later than the reported time (1 s): must be accepted ...
    rt.add_event(Ev(5, vec![]), ms(5000));
    // ... as must an event at exactly the reported time, and one after the pending one
    rt.add_event(Ev(2, vec![]), ms(1000));
    rt.add_event(Ev(12, vec![]), ms(12_000));
    assert_eq!(rt.num_events_remaining(), 4);

    rt.dispatch_all();
    assert_eq!(
        finished(rt),
        vec![
            (1, ms(1000)),
            (2, ms(1000)),
            (5, ms(5000)),
            (10, ms(10_000)),
            (12, ms(12_000))
        ],
        "events added while paused must be dispatched in time order"
    );
}

/// Same with an event-count pause.
#[test]
#[serial]
fn f8_add_while_paused_by_event_count() {
    let scenario: Scenario = vec![(1, 1000, vec![]), (10, 10_000, vec![])];
    let mut rt = started(&scenario);
    rt.dispatch_n_events(1);
    assert_eq!(rt.sim_time(), ms(1000));
    rt.add_event(Ev(5, vec![]), ms(5000));
    rt.dispatch_n_events(1);
    assert_eq!(rt.sim_time(), ms(5000));
    rt.add_event(Ev(7, vec![]), ms(7000));
    rt.dispatch_all();
    assert_eq!(
        finished(rt),
        vec![
            (1, ms(1000)),
            (5, ms(5000)),
            (7, ms(7000)),
            (10, ms(10_000))
        ]
    );
}

/// `finish` on a paused runtime still reports the pending events, in order.
#[test]
#[serial]
fn pause_then_finish_keeps_remaining_events() {
    let scenario = &scenarios()[0];
    let mut rt = started(scenario);
    rt.dispatch_n_events(1);
    assert_eq!(rt.num_events_remaining(), 2);
    let (app, time, _profiler) = rt.finish().unwrap();
    assert_eq!(app.log, vec![(1, ms(0))]);
    assert_eq!(time, ms(0));
}
