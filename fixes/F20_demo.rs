// Demo for fixes/F20.diff  (property C13: a panic in user code is contained and attributed; run() itself never panics)
//
// Where to put it:  des/tests/verif_msg_drop.rs   (integration test of the `des` crate)
// How to run it:    CARGO_NET_OFFLINE=true cargo test -p des --offline --test verif_msg_drop
//
// A message whose body's `Drop` panics is sent with a delay onto a gate chain that runs through a gate of a module that
// has shut down.  The simulator drops the message at that gate while it DISPATCHES the MessageExitingConnection event --
// outside every module callback, outside the panic harness.  Unchanged tree (60729ff): run() itself panics ("Bomb dropped"),
// the sink loses the rest of its messages.  With the fix: run() returns Err [PanicError { path: "s" }] (the owner of the gate the
// message left), every other message is delivered (sink got 4).
#![cfg(feature = "net")]
use des::net::PanicError;
use des::prelude::*;
use std::sync::atomic::{AtomicUsize, Ordering::SeqCst};
use std::sync::Arc;

#[derive(Debug, Clone)]
struct Bomb;
impl MessageBody for Bomb {
    fn byte_len(&self) -> usize {
        1
    }
}
impl Drop for Bomb {
    fn drop(&mut self) {
        if !std::thread::panicking() {
            panic!("Bomb dropped");
        }
    }
}

struct Sender {
    sent: Arc<AtomicUsize>,
}
impl Module for Sender {
    fn at_sim_start(&mut self, _: usize) {
        schedule_in(Message::default(), Duration::from_secs(2));
        schedule_in(Message::default(), Duration::from_secs(6));
    }
    fn handle_message(&mut self, _: Message) {
        let n = self.sent.fetch_add(1, SeqCst);
        send_in(Message::default().with_content(7u64), "out", Duration::from_secs(1));
        if n == 0 {
            // travels s.far -> t.via (owner shut down at t = 1 s) -> k.fin
            send_in(Message::default().with_content(Bomb), "far", Duration::from_secs(1));
        }
        send_in(Message::default().with_content(8u64), "out", Duration::from_secs(1));
    }
}
struct Transit;
impl Module for Transit {
    fn at_sim_start(&mut self, _: usize) {
        schedule_in(Message::default(), Duration::from_secs(1));
    }
    fn handle_message(&mut self, _: Message) {
        current().shutdown();
    }
}
struct Sink {
    got: Arc<AtomicUsize>,
}
impl Module for Sink {
    fn handle_message(&mut self, _: Message) {
        self.got.fetch_add(1, SeqCst);
    }
}

#[test]
fn message_drop_panic_is_contained() {
    let sent = Arc::new(AtomicUsize::new(0));
    let got = Arc::new(AtomicUsize::new(0));
    let mut sim = Sim::new(());
    sim.node("s", Sender { sent: sent.clone() });
    sim.node("t", Transit);
    sim.node("k", Sink { got: got.clone() });
    sim.gate("s", "out").connect(sim.gate("k", "in"), None);
    let via = sim.gate("t", "via");
    sim.gate("s", "far").connect(via.clone(), None);
    via.connect(sim.gate("k", "fin"), None);

    let rt = Builder::seeded(1).max_time(30.0.into()).build(sim.freeze());
    let outcome = std::panic::catch_unwind(std::panic::AssertUnwindSafe(move || rt.run()));
    let result = match outcome {
        Ok(r) => r,
        Err(_) => panic!("run() itself panicked (sink got {} of 4 messages)", got.load(SeqCst)),
    };
    let errors = result.expect_err("the panic must be reported");
    let paths = errors
        .iter()
        .filter_map(|e| e.as_any().downcast_ref::<PanicError>())
        .map(|e| e.path.as_str().to_string())
        .collect::<Vec<_>>();
    assert_eq!(paths, vec!["s".to_string()]);
    assert_eq!(sent.load(SeqCst), 2);
    assert_eq!(got.load(SeqCst), 4);
}
