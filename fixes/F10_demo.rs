//! Demonstration for F10: entries addressed (through `<any>`) to modules further
//! down the tree must not show up as properties of the modules above them.
//!
//! Place as `des-net-utils/tests/verif_demo_f10.rs` and run
//! `cargo test -p des-net-utils --test verif_demo_f10 --offline`.
use des_net_utils::props::Cfg;
use serde_yml::{from_str, Value};

fn sorted_keys(cfg: &Cfg, path: &[&str]) -> Vec<String> {
    let mut keys = cfg.capture_for_into(path).keys();
    keys.sort();
    keys
}

/// `a.<any>.b.<any>.c` addresses property `c` of the modules `a.*.b.*` only.
#[test]
fn two_wildcards_do_not_leak_into_shorter_paths() {
    let cfg = Cfg::new(from_str::<Value>("a.<any>.b.<any>.c: v\n").unwrap());

    assert!(sorted_keys(&cfg, &["a"]).is_empty());
    assert!(sorted_keys(&cfg, &["a", "x"]).is_empty()); // unpatched: ["b"]
    assert!(sorted_keys(&cfg, &["a", "x", "b"]).is_empty());
    assert_eq!(sorted_keys(&cfg, &["a", "x", "b", "y"]), ["c"]);
    assert!(sorted_keys(&cfg, &["a", "x", "q", "y"]).is_empty());
}

/// A single wildcard behind a multi-segment prefix leaks into every proper
/// ancestor of that prefix in the same way.
#[test]
fn wildcard_behind_long_prefix_does_not_leak_into_ancestors() {
    let cfg = Cfg::new(from_str::<Value>("lan.alice.<any>.log: trace\n").unwrap());

    assert!(sorted_keys(&cfg, &["lan"]).is_empty()); // unpatched: ["alice"]
    assert!(sorted_keys(&cfg, &["lan", "alice"]).is_empty());
    assert_eq!(sorted_keys(&cfg, &["lan", "alice", "tcp"]), ["log"]);
}

/// Properties that live next to a wildcard entry stay visible, and the value of
/// a mapping-valued property is not changed apart from the removed wildcard.
#[test]
fn real_properties_next_to_wildcards_are_kept() -> serde_yml::Result<()> {
    let cfg = Cfg::new(from_str::<Value>(
        "\
        a.x.b: { depth: 3 }\n\
        a.<any>.b.<any>.c: v\n\
        a.x.b.<any>.d: w\n\
        a.x.e: { k: 1 }\n\
        ",
    )?);

    assert_eq!(sorted_keys(&cfg, &["a", "x"]), ["b", "e"]);
    let mut props = cfg.capture_for_into(&["a", "x"]);
    assert_eq!(
        props.get_raw("b").as_value(),
        Some(from_str::<Value>("{ depth: 3 }")?)
    );
    assert_eq!(
        props.get_raw("e").as_value(),
        Some(from_str::<Value>("{ k: 1 }")?)
    );

    assert_eq!(sorted_keys(&cfg, &["a", "x", "b"]), ["depth"]);
    assert_eq!(sorted_keys(&cfg, &["a", "x", "b", "y"]), ["c", "d"]);
    Ok(())
}
