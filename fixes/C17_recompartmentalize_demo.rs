//! Demonstration for the re-compartmentalised wildcard: two entries that share the text in
//! front of their first `<any>`, the earlier one continuing with a second `<any>`.
//!
//! Place as `des-net-utils/tests/verif_demo_c17_recomp.rs` and run
//! `cargo test -p des-net-utils --test verif_demo_c17_recomp --offline`.
use des_net_utils::props::Cfg;
use serde_yml::{from_str, Value};

fn sorted_keys(cfg: &Cfg, path: &[&str]) -> Vec<String> {
    let mut keys = cfg.capture_for_into(path).keys();
    keys.sort();
    keys
}

/// `<any>.<any>.a` addresses property `a` of every module of depth 2, `<any>.a` property `a`
/// of every module of depth 1 - in whatever order the two entries are written.
#[test]
fn consecutive_wildcards_survive_a_later_sibling_entry() {
    let cfg = Cfg::new(from_str::<Value>("<any>.<any>.a: 1\n<any>.a: 2\n").unwrap());
    assert_eq!(sorted_keys(&cfg, &["x"]), ["a"]);
    assert_eq!(sorted_keys(&cfg, &["x", "y"]), ["a"]); // unpatched: [""]
    let mut props = cfg.capture_for_into(&["x", "y"]);
    assert_eq!(props.get_raw("a").as_value(), Some(from_str::<Value>("1").unwrap()));

    let rev = Cfg::new(from_str::<Value>("<any>.a: 2\n<any>.<any>.a: 1\n").unwrap());
    assert_eq!(sorted_keys(&rev, &["x"]), ["a"]);
    assert_eq!(sorted_keys(&rev, &["x", "y"]), ["a"]);
}

/// The same below a specific prefix, and with a third entry routed through the same node.
#[test]
fn wildcards_below_a_prefix() {
    let cfg = Cfg::new(
        from_str::<Value>(
            "\
            lx.<any>.<any>.log: trace\n\
            lx.<any>.addr: 2\n\
            lx.<any>.mtu: 1500\n\
            ",
        )
        .unwrap(),
    );
    assert_eq!(sorted_keys(&cfg, &["lx", "r"]), ["addr", "mtu"]);
    assert_eq!(sorted_keys(&cfg, &["lx", "r", "s"]), ["log"]); // unpatched: [""]
    assert!(sorted_keys(&cfg, &["lx"]).is_empty());
}

/// Entries without consecutive wildcards behave exactly as before.
#[test]
fn other_entries_unchanged() {
    let cfg = Cfg::new(
        from_str::<Value>(
            "\
            lx.alice.tcp.sack: true\n\
            lx.<any>.node.<any>.log: trace\n\
            lx.<any>.node.<any>.level: 3\n\
            <any>.router.type: OSPF\n\
            ",
        )
        .unwrap(),
    );
    assert_eq!(sorted_keys(&cfg, &["lx", "alice"]), ["tcp.sack"]);
    assert_eq!(sorted_keys(&cfg, &["lx", "r", "node", "n"]), ["level", "log"]);
    assert_eq!(sorted_keys(&cfg, &["q", "router"]), ["type"]);
}
