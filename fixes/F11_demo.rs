//! Demonstration for F11: parsing and elaborating a network description never
//! crashes; malformed type clauses and wrong / generic type arguments are
//! reported as errors.
//!
//! Place as `des-net-utils/tests/verif_demo_f11.rs` and run
//! `cargo test -p des-net-utils --test verif_demo_f11 --offline`.
use des_net_utils::ndl::{
    def::{Def, ModuleGenericsDef, TypClause},
    error::ErrorKind,
    transform,
};

type Result<T> = std::result::Result<T, Box<dyn std::error::Error>>;

/// (a) an unterminated argument list is a parse error, not an `assert!` failure.
#[test]
fn typ_clause_missing_closing_parenthesis() {
    let err = "A(T <- I"
        .parse::<TypClause<ModuleGenericsDef>>()
        .unwrap_err();
    assert!(err.contains("A(T <- I"), "undescriptive error: {err}");
    assert!("B(C2".parse::<TypClause<String>>().is_err());

    // ... also when it comes in through serde
    let err = serde_yml::from_str::<Def>(
        r#"
        entry: A
        modules:
            A(T <- I:
            I:
        "#,
    )
    .unwrap_err();
    assert!(err.to_string().contains("A(T <- I"), "{err}");

    // well-formed clauses are unaffected
    assert_eq!(
        "A(T <- I, U <- J)".parse::<TypClause<ModuleGenericsDef>>(),
        Ok(TypClause {
            ident: "A".to_string(),
            args: vec![
                ModuleGenericsDef {
                    binding: "T".to_string(),
                    bound: "I".to_string()
                },
                ModuleGenericsDef {
                    binding: "U".to_string(),
                    bound: "J".to_string()
                }
            ]
        })
    );
}

/// (b) a generic parameter of the enclosing module is passed on as a type argument.
#[test]
fn typ_arguments_generic_passed_on() -> Result<()> {
    let def: Def = serde_yml::from_str(
        r#"
        entry: Main
        modules:
            Main:
                submodules:
                    a: A(C)
            A(U <- I):
                submodules:
                    y: B(U)
            B(T <- I):
                submodules:
                    x: T
            I:
                gates:
                    - port
            C:
                inherit: I
        "#,
    )?;

    // (the error is matched by its text, so that this file also compiles without the patch)
    let err = transform(&def).unwrap_err();
    assert_eq!(
        err.kind.to_string(),
        "Invalid type assigment 'B(U)', generic 'U' cannot be passed on as an argument"
    );
    assert_eq!(err.span.module.as_deref(), Some("A"));
    assert_eq!(err.span.submodule.as_deref(), Some("y"));
    println!("{err}");
    Ok(())
}

/// (b') the same, but a global module with the name of the generic exists as well.
/// The generic shadows the global module (see `typ_definition_can_override_external_module`),
/// so the outcome must not depend on whether the global `U` happens to be known already.
#[test]
fn typ_arguments_generic_passed_on_shadowing_global() -> Result<()> {
    let def: Def = serde_yml::from_str(
        r#"
        entry: A
        modules:
            A(U <- I):
                submodules:
                    y: B(U)
            B(T <- I):
                submodules:
                    x: T
            I:
            U:
        "#,
    )?;

    let err = transform(&def).unwrap_err();
    assert_eq!(
        err.kind.to_string(),
        "Invalid type assigment 'B(U)', generic 'U' cannot be passed on as an argument"
    );
    Ok(())
}

/// (c) the type argument is a type that still has unbound generics itself.
#[test]
fn typ_arguments_generic_typ_as_argument() -> Result<()> {
    let def: Def = serde_yml::from_str(
        r#"
        entry: A
        modules:
            A:
                submodules:
                    y: B(G)
            B(T <- I):
                submodules:
                    x: T
            G(T <- I):
                inherit: I
            I:
                gates:
                    - port
        "#,
    )?;

    let err = transform(&def).unwrap_err();
    assert_eq!(
        err,
        ErrorKind::InvalidTypStatement(
            TypClause {
                ident: "G".to_string(),
                args: Vec::new()
            },
            vec![ModuleGenericsDef {
                binding: "T".to_string(),
                bound: "I".to_string()
            }]
        )
    );
    assert_eq!(err.span.module.as_deref(), Some("A"));
    assert_eq!(err.span.submodule.as_deref(), Some("y"));
    println!("{err}");
    Ok(())
}

/// (d) type arguments are applied to a generic parameter of the enclosing module.
#[test]
fn typ_arguments_applied_to_generic() -> Result<()> {
    let def: Def = serde_yml::from_str(
        r#"
        entry: A
        modules:
            A(U <- I):
                submodules:
                    y: U(X)
            I:
            X:
        "#,
    )?;

    let err = transform(&def).unwrap_err();
    assert_eq!(
        err,
        ErrorKind::InvalidTypStatement(
            TypClause {
                ident: "U".to_string(),
                args: vec!["X".to_string()]
            },
            Vec::new()
        )
    );
    println!("{err}");
    Ok(())
}

/// Correct uses of generics keep elaborating.
#[test]
fn typ_arguments_correct_use_still_works() -> Result<()> {
    let def: Def = serde_yml::from_str(
        r#"
        entry: A
        modules:
            A:
                submodules:
                    b: B(C2)
            B(Inner <- C):
                submodules:
                    c: Inner
            C:
                gates:
                    - port
            C2:
                inherit: C
        "#,
    )?;
    let net = transform(&def)?;
    assert_eq!(&*net.submodules[0].typ.submodules[0].typ.typ, "C2");
    Ok(())
}
