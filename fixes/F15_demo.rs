#![cfg(feature = "net")]
//! Demonstration for F15: with zero jitter a channel delivers messages in the order they were
//! offered -- also when latency is zero and a queued message has a transmission time of 0 ns,
//! so that its delivery is stamped with the very instant the previous transmission ends.

use std::sync::{Arc, Mutex};

use des::prelude::*;
use serial_test::serial;

const BITRATE: usize = 2_000_000_000_000; // 2 Tbit/s: header-only message 0.256ns -> 0ns, 1 kB -> 4ns

/// (id, arrival time) of every received message
type Log = Arc<Mutex<Vec<(u16, SimTime)>>>;

fn big(id: u16) -> Message {
    Message::default().id(id).with_content([0u8; 1024])
}

fn small(id: u16) -> Message {
    Message::default().id(id)
}

struct Burst {
    log: Log,
    msgs: Vec<bool>, // true = big
}

impl Module for Burst {
    fn at_sim_start(&mut self, _stage: usize) {
        for (i, b) in self.msgs.iter().enumerate() {
            send(if *b { big(i as u16) } else { small(i as u16) }, "out");
        }
    }

    fn handle_message(&mut self, msg: Message) {
        self.log
            .lock()
            .unwrap()
            .push((msg.header().id, SimTime::now()));
    }
}

fn run(msgs: Vec<bool>, latency: Duration) -> Vec<(u16, SimTime)> {
    let log = Log::default();

    let mut sim = Sim::new(());
    sim.node(
        "root",
        Burst {
            log: log.clone(),
            msgs,
        },
    );

    let g_in = sim.gate("root", "in");
    let g_out = sim.gate("root", "out");
    g_out.connect(
        g_in,
        Some(Channel::new(ChannelMetrics {
            bitrate: BITRATE,
            latency,
            jitter: Duration::ZERO,
            drop_behaviour: ChannelDropBehaviour::Queue(None),
        })),
    );

    let _ = Builder::seeded(123).build(sim.freeze()).run();
    let v = log.lock().unwrap().clone();
    v
}

#[test]
#[serial]
fn f15_zero_latency_zero_time_message_does_not_overtake() {
    let ns = |n| SimTime::ZERO + Duration::from_nanos(n);
    // big(0) occupies the channel 0ns..4ns and arrives at 4ns; small(1) is dequeued at 4ns,
    // takes 0ns and arrives at 4ns as well -- after (0).
    assert_eq!(
        run(vec![true, false], Duration::ZERO),
        vec![(0, ns(4)), (1, ns(4))],
        "zero jitter: deliveries must preserve the offer order"
    );
}

#[test]
#[serial]
fn f15_zero_latency_mixed_backlog_keeps_order() {
    let ns = |n| SimTime::ZERO + Duration::from_nanos(n);
    // big, small, small, big, small
    assert_eq!(
        run(vec![true, false, false, true, false], Duration::ZERO),
        vec![
            (0, ns(4)),
            (1, ns(4)),
            (2, ns(4)),
            (3, ns(8)),
            (4, ns(8)),
        ]
    );
}

#[test]
#[serial]
fn f15_with_latency_unchanged() {
    let ns = |n| SimTime::ZERO + Duration::from_nanos(n);
    assert_eq!(
        run(vec![true, false, true], Duration::from_nanos(10)),
        vec![(0, ns(14)), (1, ns(14)), (2, ns(18))]
    );
}
