#![cfg(feature = "net")]
//! Demonstration for F5: messages queued at a channel must all be transmitted, in FIFO
//! order, once the channel becomes idle -- even if the transmission time of a dequeued
//! message rounds to 0 ns (the channel is then idle again at once).

use std::sync::{Arc, Mutex};

use des::prelude::*;
use serial_test::serial;

const BITRATE: usize = 2_000_000_000_000; // 2 Tbit/s: a header-only message (64 byte) takes 0.256ns -> 0ns
const LATENCY: Duration = Duration::from_millis(1);

/// (id, arrival time) of every received message
type Log = Arc<Mutex<Vec<(u16, SimTime)>>>;

fn big(id: u16) -> Message {
    Message::default().id(id).with_content([0u8; 1024])
}

fn small(id: u16) -> Message {
    Message::default().id(id)
}

struct Burst {
    log: Log,
}

impl Module for Burst {
    fn at_sim_start(&mut self, _stage: usize) {
        // the metrics of the demo are as intended
        let ch = current().gate("out", 0).unwrap().channel().unwrap();
        assert_eq!(ch.calculate_busy(&big(0)), Duration::from_nanos(4));
        assert_eq!(ch.calculate_busy(&small(0)), Duration::ZERO);

        send(big(0), "out"); // channel busy for 4ns
        send(small(1), "out"); // queued
        send(small(2), "out"); // queued
        send(small(3), "out"); // queued
    }

    fn handle_message(&mut self, msg: Message) {
        self.log
            .lock()
            .unwrap()
            .push((msg.header().id, SimTime::now()));
    }
}

#[test]
#[serial]
fn f5_zero_time_transmissions_do_not_stall_queue() {
    let log = Log::default();

    let mut sim = Sim::new(());
    sim.node("root", Burst { log: log.clone() });

    let g_in = sim.gate("root", "in");
    let g_out = sim.gate("root", "out");
    g_out.connect(
        g_in,
        Some(Channel::new(ChannelMetrics {
            bitrate: BITRATE,
            latency: LATENCY,
            jitter: Duration::ZERO,
            drop_behaviour: ChannelDropBehaviour::Queue(None),
        })),
    );

    let _ = Builder::seeded(123).build(sim.freeze()).run();

    let t_big = SimTime::ZERO + LATENCY + Duration::from_nanos(4);
    // queued messages start when the channel becomes idle (4ns) and take 0ns + latency
    let t_small = SimTime::ZERO + Duration::from_nanos(4) + LATENCY;
    assert_eq!(
        *log.lock().unwrap(),
        vec![(0, t_big), (1, t_small), (2, t_small), (3, t_small)],
        "every queued message must be delivered, in FIFO order"
    );
}

struct BurstTwice {
    log: Log,
}

impl Module for BurstTwice {
    fn at_sim_start(&mut self, _stage: usize) {
        schedule_in(Message::default().kind(10), Duration::ZERO);
        schedule_in(Message::default().kind(10), Duration::from_secs(1));
    }

    fn handle_message(&mut self, msg: Message) {
        if msg.header().kind == 10 {
            let ch = current().gate("out", 0).unwrap().channel().unwrap();
            assert!(!ch.is_busy(), "channel must be idle between the bursts");

            let base = if SimTime::now() == SimTime::ZERO { 0 } else { 10 };
            send(big(base), "out"); // channel busy for 4ns
            send(small(base + 1), "out"); // queued, 64 / 192 byte
            send(small(base + 2), "out"); // queued, 128 / 192 byte
            send(small(base + 3), "out"); // queued, 192 / 192 byte
            send(small(base + 4), "out"); // dropped, queue full
        } else {
            self.log
                .lock()
                .unwrap()
                .push((msg.header().id, SimTime::now()));
        }
    }
}

/// Same as above, with a bounded queue that is filled exactly to its limit twice. The second
/// burst is only accepted completly if the byte accounting of the queue was kept consistent
/// while the first burst was drained.
#[test]
#[serial]
fn f5_bounded_queue_accounting_and_order() {
    let log = Log::default();

    let mut sim = Sim::new(());
    sim.node("root", BurstTwice { log: log.clone() });

    let g_in = sim.gate("root", "in");
    let g_out = sim.gate("root", "out");
    g_out.connect(
        g_in,
        Some(Channel::new(ChannelMetrics {
            bitrate: BITRATE,
            latency: LATENCY,
            jitter: Duration::ZERO,
            drop_behaviour: ChannelDropBehaviour::Queue(Some(3 * 64)),
        })),
    );

    let _ = Builder::seeded(123).build(sim.freeze()).run();

    let ids = log
        .lock()
        .unwrap()
        .iter()
        .map(|(id, _)| *id)
        .collect::<Vec<_>>();
    assert_eq!(ids, vec![0, 1, 2, 3, 10, 11, 12, 13]);

    let times = log.lock().unwrap().iter().map(|(_, t)| *t).collect::<Vec<_>>();
    let ns4 = Duration::from_nanos(4);
    let t0 = SimTime::ZERO;
    let t1 = SimTime::from(1.0);
    assert_eq!(
        times,
        vec![
            t0 + LATENCY + ns4,
            t0 + ns4 + LATENCY,
            t0 + ns4 + LATENCY,
            t0 + ns4 + LATENCY,
            t1 + LATENCY + ns4,
            t1 + ns4 + LATENCY,
            t1 + ns4 + LATENCY,
            t1 + ns4 + LATENCY,
        ]
    );
}

struct Mixed {
    log: Log,
}

impl Module for Mixed {
    fn at_sim_start(&mut self, _stage: usize) {
        send(big(0), "out"); // busy 0ns..4ns
        send(small(1), "out"); // queued, takes 0ns
        send(big(2), "out"); // queued, busy 4ns..8ns
        send(small(3), "out"); // queued, takes 0ns, must wait for (2)
        send(small(4), "out"); // queued, takes 0ns
    }

    fn handle_message(&mut self, msg: Message) {
        self.log
            .lock()
            .unwrap()
            .push((msg.header().id, SimTime::now()));
    }
}

/// Zero-time messages must not overtake a queued message with a non-zero transmission time.
#[test]
#[serial]
fn f5_zero_time_messages_do_not_overtake() {
    let log = Log::default();

    let mut sim = Sim::new(());
    sim.node("root", Mixed { log: log.clone() });

    let g_in = sim.gate("root", "in");
    let g_out = sim.gate("root", "out");
    g_out.connect(
        g_in,
        Some(Channel::new(ChannelMetrics {
            bitrate: BITRATE,
            latency: LATENCY,
            jitter: Duration::ZERO,
            drop_behaviour: ChannelDropBehaviour::Queue(None),
        })),
    );

    let _ = Builder::seeded(123).build(sim.freeze()).run();

    let ns = Duration::from_nanos;
    let t0 = SimTime::ZERO;
    assert_eq!(
        *log.lock().unwrap(),
        vec![
            (0, t0 + ns(4) + LATENCY),
            (1, t0 + ns(4) + LATENCY),
            (2, t0 + ns(8) + LATENCY),
            (3, t0 + ns(8) + LATENCY),
            (4, t0 + ns(8) + LATENCY),
        ]
    );
}
