#![cfg(feature = "async")]
//! A `Sleep` that was polled in one task and is then awaited in another task must still
//! complete at its deadline (the stored waker has to follow the task that awaits it).
use des::{net::blocks::AsyncFn, prelude::*, time::sleep};
use serial_test::serial;
use std::future::{poll_fn, Future};
use std::task::Poll;
use tokio::sync::oneshot;

#[test]
#[serial]
fn polled_sleep_handed_to_another_task() {
    let mut sim = Sim::new(());
    sim.node(
        "alice",
        AsyncFn::new(|_| async move {
            let (tx, rx) = oneshot::channel();
            // task B: receives the (already polled) sleep and awaits it
            let b = tokio::spawn(async move {
                let s: std::pin::Pin<Box<des::time::Sleep>> = rx.await.unwrap();
                s.await;
                assert_eq!(SimTime::now(), SimTime::from(10.0));
            });
            // task A (this one): polls the sleep once, hands it over, and ends
            let mut s = Box::pin(sleep(Duration::from_secs(10)));
            poll_fn(|cx| {
                let _ = s.as_mut().poll(cx);
                Poll::Ready(())
            })
            .await;
            tx.send(s).ok().unwrap();
            b.await.unwrap();
        })
        .require_join(),
    );
    let result = Builder::seeded(123).build(sim.freeze()).run();
    let (_, time, _) = result.expect("handed-over sleep never returned, task did not finish");
    assert_eq!(time, 10.0);
}
