//! Demonstration for F9: a module receives a configuration property iff the
//! configuration contains an entry addressed to *its* path; entries addressed to
//! a sibling whose name merely starts with this module's name must be ignored.
//!
//! Place as `des-net-utils/tests/verif_demo_f9.rs` and run
//! `cargo test -p des-net-utils --test verif_demo_f9 --offline`.
use des_net_utils::props::Cfg;
use serde_yml::{from_str, Value};

fn sorted_keys(cfg: &Cfg, path: &[&str]) -> Vec<String> {
    let mut keys = cfg.capture_for_into(path).keys();
    keys.sort();
    keys
}

/// `alicent.addr` belongs to `alicent`, not (as `t.addr`) to `alice`.
#[test]
fn sibling_with_common_textual_prefix_is_ignored() {
    let cfg = Cfg::new(
        from_str::<Value>(
            "\
            alice.addr: 1.1.1.1\n\
            alicent.addr: 3.3.3.3\n\
            alicent.tcp.mss: 1500\n\
            ",
        )
        .unwrap(),
    );

    assert_eq!(sorted_keys(&cfg, &["alice"]), ["addr"]);
    assert_eq!(sorted_keys(&cfg, &["alicent"]), ["addr", "tcp.mss"]);
    // 'alic' does not exist in the config at all
    assert!(sorted_keys(&cfg, &["alic"]).is_empty());
}

/// The same on a deeper level and below a wildcard.
#[test]
fn sibling_prefix_is_ignored_in_nested_paths() {
    let cfg = Cfg::new(
        from_str::<Value>(
            "\
            lan.alice.addr: 1.1.1.1\n\
            lan.alicent.addr: 3.3.3.3\n\
            <any>.tcp.mss: 1500\n\
            <any>.tcpdump.enabled: true\n\
            ",
        )
        .unwrap(),
    );

    assert_eq!(sorted_keys(&cfg, &["lan", "alice"]), ["addr"]);
    assert_eq!(sorted_keys(&cfg, &["lan", "alicent"]), ["addr"]);
    assert_eq!(sorted_keys(&cfg, &["x", "tcp"]), ["mss"]);
    assert_eq!(sorted_keys(&cfg, &["x", "tcpdump"]), ["enabled"]);
}

/// With a multi-byte sibling name the unpatched code slices into the middle of
/// a UTF-8 character and panics ("byte index 2 is not a char boundary").
#[test]
fn multibyte_sibling_does_not_panic() {
    let cfg = Cfg::new(from_str::<Value>("aé.x: 1\na.y: 2\n").unwrap());

    assert_eq!(sorted_keys(&cfg, &["a"]), ["y"]);
    assert_eq!(sorted_keys(&cfg, &["aé"]), ["x"]);
}

/// Correctly addressed entries keep working exactly as before.
#[test]
fn addressed_entries_are_still_delivered() {
    let cfg = Cfg::new(
        from_str::<Value>(
            "\
            alice.addr: 1.1.1.1\n\
            alice.tcp.sack: yes\n\
            alice.tcp.mss: 1500\n\
            bob.addr: 2.2.2.2\n\
            <any>.log: trace\n\
            ",
        )
        .unwrap(),
    );

    assert_eq!(
        sorted_keys(&cfg, &["alice"]),
        ["addr", "log", "tcp.mss", "tcp.sack"]
    );
    assert_eq!(sorted_keys(&cfg, &["alice", "tcp"]), ["mss", "sack"]);
    assert_eq!(sorted_keys(&cfg, &["bob"]), ["addr", "log"]);
}
