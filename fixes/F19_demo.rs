// Demo for fixes/C13_restart_at_past.diff  (property C13: a panicking module is contained and attributed)
//
// Where to put it:  des/tests/verif_restart_at_past.rs   (integration test of the `des` crate)
// How to run it:    CARGO_NET_OFFLINE=true cargo test -p des --offline --test verif_restart_at_past
//
// A module that asks for `current().shutdow_and_restart_at(t)` with t before the current simulation time.  Without the
// fix the call is accepted, the handler returns, and the restart event is rejected only when buf_process hands it to
// the runtime ("Cannot add past event to calender queue") -- after the handler, outside the panic harness: run() itself
// panics, no error names the faulty module, the other module loses its remaining events, no at_sim_end.  With the fix
// the call panics inside the handler, and the fault is contained and attributed like any other callback panic.
// Fails on the unchanged tree (a166d25 / 9e87d89), passes with the patch.

use std::panic::{catch_unwind, AssertUnwindSafe};
use std::sync::atomic::{AtomicUsize, Ordering};
use std::sync::Arc;

use des::net::{ObjectPath, PanicError};
use des::prelude::*;

/// Ticks once per second, ten times.
struct Good {
    ticks: Arc<AtomicUsize>,
}

impl Module for Good {
    fn at_sim_start(&mut self, _stage: usize) {
        schedule_in(Message::default().kind(1), Duration::from_secs(1));
    }

    fn handle_message(&mut self, msg: Message) {
        let n = self.ticks.fetch_add(1, Ordering::SeqCst) + 1;
        assert_eq!(SimTime::now(), SimTime::from_duration(Duration::from_secs(n as u64)));
        if n < 10 {
            schedule_in(msg, Duration::from_secs(1));
        }
    }
}

/// Works fine until t = 5s, then tries to schedule a wake-up for t = 1s.
struct Bad {
    handled: Arc<AtomicUsize>,
}

impl Module for Bad {
    fn at_sim_start(&mut self, _stage: usize) {
        schedule_in(Message::default().kind(2), Duration::from_secs(1));
    }

    fn handle_message(&mut self, msg: Message) {
        self.handled.fetch_add(1, Ordering::SeqCst);
        if SimTime::now() == SimTime::from_duration(Duration::from_secs(5)) {
            // a stale absolute deadline: 1s < now = 5s
            { let _ = msg; current().shutdow_and_restart_at(SimTime::from_duration(Duration::from_secs(1))); }
        } else {
            schedule_in(msg, Duration::from_secs(1));
        }
    }
}

#[test]
fn past_schedule_is_contained_and_attributed() {
    let good_ticks = Arc::new(AtomicUsize::new(0));
    let bad_handled = Arc::new(AtomicUsize::new(0));

    let mut sim = Sim::new(());
    sim.node(
        "good",
        Good {
            ticks: good_ticks.clone(),
        },
    );
    sim.node(
        "bad",
        Bad {
            handled: bad_handled.clone(),
        },
    );

    let rt = Builder::seeded(123).build(sim.freeze());
    let outcome = catch_unwind(AssertUnwindSafe(move || rt.run()));

    // (1) the simulator itself must survive the faulty module
    let result = match outcome {
        Ok(result) => result,
        Err(_) => panic!(
            "run() itself panicked: the fault of module 'bad' aborted the whole simulation \
             (good got {} of 10 ticks)",
            good_ticks.load(Ordering::SeqCst)
        ),
    };

    // (2) the fault is attributed to exactly the faulty module
    let errors = match result {
        Ok(_) => panic!("run() succeeded although module 'bad' asked for a restart in the past"),
        Err(errors) => errors,
    };
    assert_eq!(errors.len(), 1, "exactly one module failed: {errors:?}");
    assert_eq!(
        errors[0]
            .as_any()
            .downcast_ref::<PanicError>()
            .expect("a PanicError")
            .path,
        ObjectPath::from("bad")
    );

    // (3) 'bad' fell silent at t = 5s, 'good' is undisturbed
    assert_eq!(bad_handled.load(Ordering::SeqCst), 5);
    assert_eq!(good_ticks.load(Ordering::SeqCst), 10);
}
