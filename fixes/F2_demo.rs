//! Demonstration for defect F2: a runtime configured with a non-zero start time
//! must reject events that lie before the current simulated time (and must never
//! let `SimTime::now()` go backwards), while events at or after the current time
//! are always accepted.
//!
//! Fails on the unpatched crate, passes with `F2.diff`.

use std::panic::{catch_unwind, AssertUnwindSafe};

use des::prelude::*;
use serial_test::serial;

struct App {
    /// (event id, `SimTime::now()` inside the handler)
    log: Vec<(u32, SimTime)>,
}

impl Application for App {
    type EventSet = Ev;
    type Lifecycle = ();
}

/// `Ev(id, spawn)`: logs itself; if `spawn` is set it schedules a zero-delay child `Ev(id + 100)`.
struct Ev(u32, bool);

impl Event<App> for Ev {
    fn handle(self, rt: &mut Runtime<App>) {
        rt.app.log.push((self.0, SimTime::now()));
        if self.1 {
            rt.add_event_in(Ev(self.0 + 100, false), Duration::ZERO);
        }
    }
}

fn secs(s: u64) -> SimTime {
    SimTime::from_duration(Duration::from_secs(s))
}

fn build(start: u64) -> Runtime<App> {
    Builder::seeded(1)
        .quiet()
        .start_time(secs(start))
        .build(App { log: Vec::new() })
}

/// The defect itself: start at 10 s, schedule at 5 s.
#[test]
#[serial]
fn past_event_is_rejected_when_start_time_is_nonzero() {
    let mut rt = build(10);
    assert_eq!(rt.sim_time(), secs(10));

    let res = catch_unwind(AssertUnwindSafe(|| rt.add_event(Ev(0, false), secs(5))));
    assert!(
        res.is_err(),
        "add_event(5s) was accepted although the simulation time is 10s"
    );
}

/// Same thing just one nanosecond before the start time, and directly at the start time.
#[test]
#[serial]
fn boundary_of_the_start_time() {
    let mut rt = build(10);
    let just_before = SimTime::from_duration(Duration::from_secs(10) - Duration::from_nanos(1));
    let res = catch_unwind(AssertUnwindSafe(|| rt.add_event(Ev(0, false), just_before)));
    assert!(res.is_err(), "event 1ns before the start time was accepted");
    drop(rt);

    let mut rt = build(10);
    rt.add_event(Ev(1, false), secs(10)); // exactly `now`: must be accepted
    rt.add_event(Ev(2, false), secs(12));
    rt.add_event_in(Ev(3, false), Duration::from_secs(1));
    let (app, time, _) = rt.run().unwrap();
    assert_eq!(
        app.log,
        vec![(1, secs(10)), (3, secs(11)), (2, secs(12))],
        "events at/after the start time must be executed in time order"
    );
    assert_eq!(time, secs(12));
}

/// The clock never runs backwards in a run with a non-zero start time,
/// whatever the (accepted) events were.
#[test]
#[serial]
fn clock_never_goes_back_behind_the_start_time() {
    let mut rt = build(10);
    // On the unpatched crate this add is accepted and the run goes back to 5s.
    let _ = catch_unwind(AssertUnwindSafe(|| rt.add_event(Ev(0, false), secs(5))));
    rt.add_event(Ev(1, false), secs(11));
    let (app, time, _) = rt.run().unwrap();
    for (id, t) in &app.log {
        assert!(*t >= secs(10), "event {id} ran at {t}, before the start time 10s");
    }
    assert!(time >= secs(10), "simulation ended at {time}, before it started");
}

/// A run that starts at 10 s behaves like the same run started at 0 s, shifted by 10 s
/// (in particular for events scheduled exactly at the start time).
#[test]
#[serial]
fn start_time_is_a_pure_time_shift() {
    let run = |start: u64| {
        let mut rt = build(start);
        rt.add_event(Ev(1, true), secs(start)); // spawns 101 with zero delay
        rt.add_event(Ev(2, false), secs(start));
        rt.add_event(Ev(3, true), secs(start + 1)); // spawns 103 with zero delay
        rt.add_event(Ev(4, false), secs(start + 1));
        let (app, _, _) = rt.run().unwrap();
        app.log
            .into_iter()
            .map(|(id, t)| (id, t.duration_since(secs(start))))
            .collect::<Vec<_>>()
    };
    assert_eq!(run(0), run(10));
}
