(* The second way of adding nodes: an NDL described block attached with
   sim.node(path, Ndl{..}) (SimBuilderScoped::ndl / SimBuilder::raw_ndl).  In every
   state the builder reaches from well-formed insertions, attaching a block whose
   root is acceptable equals inserting the block's nodes one by one with
   sim.node, in depth-first order; a block whose root is a duplicate or an orphan
   panics and changes nothing.  All theorems about insertion sequences
   (pre-order, lookups, life cycle) therefore cover NDL blocks. *)
From Coq Require Import List NArith Arith Bool Lia Permutation FinFun.
From Coq Require Ascii String DecimalString DecimalNat.
From DesVerif Require Import Tree.Path Tree.PathLaws Tree.Model Tree.Forest Tree.Refine Tree.Indep Tree.Lookup.
Import ListNotations.
Local Open Scope nat_scope.

(* ---- instance names of a submodule entry ---- *)
Lemma uint_nodot d :
  ~ In DOT (map Ascii.N_of_ascii (String.list_ascii_of_string (DecimalString.NilEmpty.string_of_uint d))).
Proof.
  induction d as [|d IH|d IH|d IH|d IH|d IH|d IH|d IH|d IH|d IH|d IH];
    cbn [DecimalString.NilEmpty.string_of_uint String.list_ascii_of_string map];
    [intros []| | | | | | | | | |]; (intros [H|H]; [vm_compute in H; discriminate H|exact (IH H)]).
Qed.

Lemma decimal_nodot i : ~ In DOT (decimal i).
Proof. apply uint_nodot. Qed.

Lemma map_inj {A B} (f : A -> B) : (forall a b, f a = f b -> a = b) -> forall l l', map f l = map f l' -> l = l'.
Proof.
  intros Hf. induction l as [|a l IH]; intros [|b l'] H; try discriminate; [reflexivity|].
  cbn [map] in H. injection H as Ha Hl. rewrite (Hf _ _ Ha), (IH _ Hl). reflexivity.
Qed.

Lemma decimal_inj i j : decimal i = decimal j -> i = j.
Proof.
  unfold decimal. intros H. apply map_inj in H.
  2:{ intros a b Hab. rewrite <- (Ascii.ascii_N_embedding a), <- (Ascii.ascii_N_embedding b), Hab. reflexivity. }
  apply (f_equal String.string_of_list_ascii) in H. rewrite !String.string_of_list_ascii_of_string in H.
  apply (f_equal DecimalString.NilEmpty.uint_of_string) in H. rewrite !DecimalString.NilEmpty.usu in H.
  injection H as H. apply DecimalNat.Unsigned.to_uint_inj. exact H.
Qed.

Lemma sub_names_good k nm : good nm -> Forall good (sub_names k nm).
Proof.
  intros [Hne Hnd]. destruct k as [|k]; [repeat constructor; assumption|].
  unfold sub_names. apply Forall_forall. intros x Hx. apply in_map_iff in Hx. destruct Hx as [i [<- _]]. split.
  - destruct nm; discriminate.
  - rewrite in_app_iff. intros [H|[H|H]]; [contradiction|discriminate H|].
    rewrite in_app_iff in H. destruct H as [H|[H|[]]]; [exact (decimal_nodot i H)|discriminate H].
Qed.

Lemma sub_names_nodup k nm : NoDup (sub_names k nm).
Proof.
  destruct k as [|k]; [repeat constructor; intros []|]. unfold sub_names.
  apply Injective_map_NoDup; [|apply seq_NoDup].
  intros i j H. apply app_inv_head in H. injection H as H. apply app_inv_tail in H. apply decimal_inj. exact H.
Qed.

(* ---- the block's nodes in depth-first order, as lists of names ---- *)
Fixpoint block (q : list (list N)) (levels : list (nat * list N)) : list (list (list N)) :=
  q :: match levels with
       | [] => []
       | (k, nm) :: rest => flat_map (fun sub => block (q ++ [sub]) rest) (sub_names k nm)
       end.

Definition good_levels (levels : list (nat * list N)) : Prop := Forall (fun lv => good (snd lv)) levels.

Lemma flat_map_ext_in {A B} (f g : A -> list B) l : (forall a, In a l -> f a = g a) -> flat_map f l = flat_map g l.
Proof.
  induction l as [|a l IH]; intros H; [reflexivity|]. cbn [flat_map].
  rewrite (H a (or_introl eq_refl)), IH; [reflexivity|]. intros b Hb. apply H. right. exact Hb.
Qed.

Lemma map_flat_map {A B C} (h : B -> C) (g : A -> list B) l : map h (flat_map g l) = flat_map (fun a => map h (g a)) l.
Proof. induction l as [|a l IH]; [reflexivity|]. cbn [flat_map]. rewrite map_app, IH. reflexivity. Qed.

Lemma ndl_paths_mk levels : forall q, Forall good q -> good_levels levels ->
  ndl_paths (mk q) levels = map mk (block q levels).
Proof.
  induction levels as [|[k nm] rest IH]; intros q Hq Hl; [reflexivity|].
  inversion Hl as [|? ? Hnm Hrest]; subst. cbn [snd] in Hnm. cbn [ndl_paths block map]. f_equal.
  rewrite map_flat_map. apply flat_map_ext_in. intros sub Hsub.
  pose proof (sub_names_good k nm Hnm) as Hg. rewrite Forall_forall in Hg. specialize (Hg sub Hsub).
  rewrite appended_mk by assumption. apply IH; [|assumption].
  apply Forall_app. split; [assumption|]. constructor; [assumption|constructor].
Qed.

Lemma block_wf levels : forall q, wf_path q -> good_levels levels -> Forall wf_path (block q levels).
Proof.
  induction levels as [|[k nm] rest IH]; intros q Hq Hl; [cbn [block]; constructor; [assumption|constructor]|].
  inversion Hl as [|? ? Hnm Hrest]; subst. cbn [snd] in Hnm. cbn [block]. constructor; [assumption|].
  apply Forall_forall. intros p Hp. apply in_flat_map in Hp. destruct Hp as [sub [Hsub Hp]].
  pose proof (sub_names_good k nm Hnm) as Hg. rewrite Forall_forall in Hg. specialize (Hg sub Hsub).
  assert (Hw : wf_path (q ++ [sub])).
  { destruct Hq as [Hne Hgq]. split; [destruct q; discriminate|]. apply Forall_app. split; [assumption|].
    constructor; [assumption|constructor]. }
  specialize (IH (q ++ [sub]) Hw Hrest). rewrite Forall_forall in IH. apply IH. exact Hp.
Qed.

(* ---- the depth-first order is a valid insertion order ---- *)
Fixpoint valid_paths (seen ps : list (list (list N))) : Prop :=
  match ps with
  | [] => True
  | p :: r => ~ In p seen /\ (2 <= length p -> In (removelast p) seen) /\ valid_paths (seen ++ [p]) r
  end.

Lemma valid_from_paths l : forall seen, valid_from seen l <-> valid_paths seen (map snd l).
Proof.
  induction l as [|[st p] l IH]; intros seen; [tauto|]. cbn [valid_from valid_paths map snd].
  rewrite IH. tauto.
Qed.

Lemma valid_paths_app a : forall seen b, valid_paths seen (a ++ b) <-> valid_paths seen a /\ valid_paths (seen ++ a) b.
Proof.
  induction a as [|p a IH]; intros seen b; cbn [app valid_paths].
  - rewrite app_nil_r. tauto.
  - rewrite IH, <- app_assoc. cbn [app]. tauto.
Qed.

Definition ext (q p : list (list N)) : Prop := exists r, p = q ++ r.

Lemma block_ext levels : forall q p, In p (block q levels) -> ext q p.
Proof.
  induction levels as [|[k nm] rest IH]; intros q p Hp; cbn [block] in Hp.
  - destruct Hp as [<-|[]]. exists []. rewrite app_nil_r. reflexivity.
  - destruct Hp as [<-|Hp]; [exists []; rewrite app_nil_r; reflexivity|].
    apply in_flat_map in Hp. destruct Hp as [sub [_ Hp]]. destruct (IH _ _ Hp) as [r ->].
    exists (sub :: r). rewrite <- app_assoc. reflexivity.
Qed.

Lemma ext_snoc_same q x x' p : ext (q ++ [x]) p -> ext (q ++ [x']) p -> x = x'.
Proof.
  intros [r ->] [r' H]. rewrite <- !app_assoc in H. apply app_inv_head in H. injection H as H _. exact H.
Qed.

Lemma ext_snoc q x p : ext (q ++ [x]) p -> ext q p.
Proof. intros [r ->]. exists (x :: r). rewrite <- app_assoc. reflexivity. Qed.

Lemma block_valid levels : forall q seen,
  (forall p, In p seen -> ~ ext q p) -> (2 <= length q -> In (removelast q) seen) ->
  valid_paths seen (block q levels).
Proof.
  induction levels as [|[k nm] rest IH]; intros q seen Hext Hpar.
  - cbn [block valid_paths]. split; [|tauto]. intros Hin. apply (Hext q Hin). exists []. rewrite app_nil_r. reflexivity.
  - cbn [block valid_paths]. split; [|split; [exact Hpar|]].
    { intros Hin. apply (Hext q Hin). exists []. rewrite app_nil_r. reflexivity. }
    assert (Hinner : forall subs seen', NoDup subs -> In q seen' ->
              (forall p x, In p seen' -> In x subs -> ~ ext (q ++ [x]) p) ->
              valid_paths seen' (flat_map (fun sub => block (q ++ [sub]) rest) subs)).
    { induction subs as [|x subs IHs]; intros seen' Hnd Hq Hne; [exact I|].
      inversion Hnd as [|? ? Hx Hnd']; subst. cbn [flat_map]. apply valid_paths_app. split.
      - apply IH.
        + intros p Hp. apply (Hne p x Hp). left. reflexivity.
        + intros _. rewrite removelast_last. exact Hq.
      - apply IHs; [assumption|apply in_or_app; left; exact Hq|].
        intros p x' Hp Hx' He. apply in_app_or in Hp. destruct Hp as [Hp|Hp].
        + apply (Hne p x' Hp); [right; exact Hx'|exact He].
        + apply block_ext in Hp. rewrite (ext_snoc_same _ _ _ _ Hp He) in Hx. contradiction. }
    apply Hinner.
    + apply sub_names_nodup.
    + apply in_or_app. right. left. reflexivity.
    + intros p x Hp _ He. apply in_app_or in Hp. destruct Hp as [Hp|[<-|[]]].
      * apply (Hext p Hp). eapply ext_snoc. exact He.
      * destruct He as [r He]. apply (f_equal (@length _)) in He. rewrite !app_length in He. cbn [length] in He. lia.
Qed.

(* declared paths are closed under taking the parent *)
Lemma closed_no_ext (seen : list (list (list N))) q :
  (forall y, In y seen -> length y = 1 \/ In (removelast y) seen) ->
  q <> [] -> ~ In q seen -> forall p, In p seen -> ~ ext q p.
Proof.
  intros Hcl Hne Hq p Hp [r ->]. revert Hp. induction r as [|x r IH] using rev_ind; intros Hp.
  - rewrite app_nil_r in Hp. contradiction.
  - destruct (Hcl _ Hp) as [H1|Hpar].
    + rewrite !app_length in H1. cbn [length] in H1. destruct q; [congruence|]. cbn [length] in H1. lia.
    + rewrite app_assoc, removelast_last in Hpar. exact (IH Hpar).
Qed.

(* ---- raw_ndl versus raw ---- *)
Definition ndl_site (k : N) : N := if N.eqb k P_DUP then P_NDL_DUP else if N.eqb k P_ORPHAN then P_NDL_ORPHAN else k.

Lemma tree_add_site ms m k : tree_add ms m = Panic k -> k = P_TREE.
Proof.
  unfold tree_add. destruct (parent (mpath m)) as [par|]; [|discriminate].
  destruct (is_root par); [discriminate|]. destruct (rposition _ ms); [discriminate|]. congruence.
Qed.

Lemma raw_ndl_eq s p st : tree_get (modules s) (from []) = None ->
  raw_ndl s p st = match raw s p st with Ok s' => Ok s' | Panic k => Panic (ndl_site k) end.
Proof.
  intros Hroot. unfold raw_ndl, raw. rewrite Hroot. destruct (tree_get (modules s) p); [reflexivity|].
  destruct (nonzero_parent p) as [par|].
  - destruct (tree_get (modules s) par) as [pm|]; [|reflexivity].
    destruct (tree_add _ _) as [ms|k] eqn:E; [reflexivity|]. rewrite (tree_add_site _ _ _ E). reflexivity.
  - destruct (tree_add _ _) as [ms|k] eqn:E; [reflexivity|]. rewrite (tree_add_site _ _ _ E). reflexivity.
Qed.

Lemma no_root_module s d : Inv s d -> tree_get (modules s) (from []) = None.
Proof.
  intros HI. change (from []) with (mk []). rewrite (inv_get _ _ _ HI) by constructor.
  rewrite find_path_none; [reflexivity|exact (root_undeclared _ _ HI)].
Qed.

Lemma judge_accept d p : ~ In p (map fst d) -> (2 <= length p -> In (removelast p) (map fst d)) -> judge d p = Accept.
Proof.
  intros Hnew Hpar. unfold judge.
  destruct (declared d p) eqn:E1; [apply declared_iff in E1; contradiction|].
  destruct (Nat.leb_spec 2 (length p)) as [Hlen|Hlen]; [|reflexivity].
  specialize (Hpar Hlen). apply declared_iff in Hpar. rewrite Hpar. reflexivity.
Qed.

Lemma judge_accept_inv d p : judge d p = Accept ->
  ~ In p (map fst d) /\ (2 <= length p -> In (removelast p) (map fst d)).
Proof.
  unfold judge. destruct (declared d p) eqn:E1; [discriminate|]. intros H. split.
  - intros Hin. apply declared_iff in Hin. congruence.
  - intros Hlen. replace (2 <=? length p) with true in H by (symmetry; apply Nat.leb_le; exact Hlen).
    destruct (declared d (removelast p)) eqn:E2; [apply declared_iff; exact E2|discriminate].
Qed.

(* i-th node with the i-th stage count, 1 when the list is exhausted *)
Fixpoint zipd (ps : list (list (list N))) (sts : list nat) : list (nat * list (list N)) :=
  match ps with
  | [] => []
  | p :: r => (hd 1 sts, p) :: zipd r (tl sts)
  end.

Lemma zipd_paths ps : forall sts, map snd (zipd ps sts) = ps.
Proof. induction ps as [|p ps IH]; intros sts; [reflexivity|]. cbn [zipd map snd]. rewrite IH. reflexivity. Qed.

(* a valid list of sim.node insertions and the same nodes created through raw_ndl *)
Lemma ndl_all_adds ps : forall sts s d, Inv s d -> Forall wf_path ps -> valid_paths (map fst d) ps ->
  ndl_all s (map mk ps) sts = (fst (raw_all s (zipd ps sts)), None).
Proof.
  induction ps as [|p ps IH]; intros sts s d HI Hwf Hv; [reflexivity|].
  inversion Hwf as [|? ? Hp Hps]; subst. cbn [valid_paths] in Hv. destruct Hv as [Hnew [Hpar Hrest]].
  pose proof (raw_step s d (hd 1 sts) p HI Hp) as Hstep. rewrite (judge_accept d p Hnew Hpar) in Hstep.
  destruct Hstep as [s' [Hraw HI']].
  cbn [map ndl_all zipd raw_all]. rewrite Hraw.
  rewrite (raw_ndl_eq s (mk p) (hd 1 sts) (no_root_module _ _ HI)).
  rewrite from_join in Hraw by (destruct Hp; assumption). rewrite Hraw.
  assert (Hv' : valid_paths (map fst (d ++ [new_node d (hd 1 sts) p])) ps).
  { rewrite map_app. exact Hrest. }
  rewrite (IH (tl sts) s' _ HI' Hps Hv'). destruct (raw_all s' (zipd ps (tl sts))). reflexivity.
Qed.

Lemma raw_all_app l1 : forall s l2, fst (raw_all s (l1 ++ l2)) = fst (raw_all (fst (raw_all s l1)) l2).
Proof.
  induction l1 as [|[st p] l1 IH]; intros s l2; [reflexivity|]. cbn [app raw_all].
  destruct (raw s (from (join p)) st) as [s'|k].
  - specialize (IH s' l2). destruct (raw_all s' (l1 ++ l2)), (raw_all s' l1). exact IH.
  - specialize (IH s l2). destruct (raw_all s (l1 ++ l2)), (raw_all s l1). exact IH.
Qed.

Lemma accepted_closed l : wf_ins l ->
  forall y, In y (map fst (accepted l)) -> length y = 1 \/ In (removelast y) (map fst (accepted l)).
Proof.
  intros Hl y Hy. apply in_map_iff in Hy. destruct Hy as [z [<- Hz]].
  pose proof (l_closed _ _ (built_linv l Hl)) as Hc. rewrite Forall_forall in Hc. exact (Hc z Hz).
Qed.

(* ---- the block theorems ---- *)
Theorem ndl_block_is_adds_thm : forall l q levels sts, wf_ins l -> wf_path q -> good_levels levels ->
  judge (accepted l) q = Accept ->
  let adds := zipd (block q levels) sts in
  ndl_all (built l) (ndl_paths (from (join q)) levels) sts = (built (l ++ adds), None) /\
  wf_ins (l ++ adds) /\ valid_from (map fst (accepted l)) adds.
Proof.
  intros l q levels sts Hl Hq Hlv Hj adds. destruct (judge_accept_inv _ _ Hj) as [Hnew Hpar].
  assert (Hv : valid_paths (map fst (accepted l)) (block q levels)).
  { apply block_valid; [|exact Hpar].
    apply closed_no_ext; [exact (accepted_closed l Hl)|destruct Hq; assumption|exact Hnew]. }
  pose proof (block_wf levels q Hq Hlv) as Hbw.
  split; [|split].
  - rewrite from_join by (destruct Hq; assumption). rewrite ndl_paths_mk by (destruct Hq; assumption).
    rewrite (ndl_all_adds _ sts _ _ (built_inv l Hl) Hbw Hv). unfold built. rewrite raw_all_app. reflexivity.
  - apply Forall_app. split; [exact Hl|]. apply Forall_forall. intros x Hx.
    rewrite Forall_forall in Hbw. apply Hbw. rewrite <- (zipd_paths (block q levels) sts). apply in_map. exact Hx.
  - apply valid_from_paths. unfold adds. rewrite zipd_paths. exact Hv.
Qed.

Theorem ndl_block_rejected_thm : forall l q levels sts, wf_ins l -> wf_path q ->
  (judge (accepted l) q = RejDup ->
     ndl_all (built l) (ndl_paths (from (join q)) levels) sts = (built l, Some P_NDL_DUP)) /\
  (judge (accepted l) q = RejOrphan ->
     ndl_all (built l) (ndl_paths (from (join q)) levels) sts = (built l, Some P_NDL_ORPHAN)).
Proof.
  intros l q levels sts Hl Hq. pose proof (raw_step (built l) (accepted l) (hd 1 sts) q (built_inv l Hl) Hq) as Hstep.
  pose proof (raw_ndl_eq (built l) (from (join q)) (hd 1 sts) (no_root_module _ _ (built_inv l Hl))) as He.
  split; intros Hj; rewrite Hj in Hstep; rewrite Hstep in He;
    destruct levels as [|[k nm] rest]; cbn [ndl_paths ndl_all]; rewrite He; reflexivity.
Qed.
