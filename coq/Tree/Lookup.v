(* ModuleContext::parent / ModuleContext::child agree with the declared tree:
   a module's parent pointer is the module declared at its parent path, and
   child(name) finds exactly the module declared at path.name. *)
From Coq Require Import List NArith Arith Bool Lia Permutation FinFun.
From DesVerif Require Import Tree.Path Tree.PathLaws Tree.Model Tree.Forest Tree.Refine Tree.Indep.
Import ListNotations.
Local Open Scope nat_scope.

Definition edge (y : node) : list (N * list N * N) :=
  match p_parent (snd y) with
  | Some po => [(po, last (fst y) [], p_ord (snd y))]
  | None => []
  end.

Record LInv (s : sim) (d : list node) : Prop := {
  l_children : children s = rev (flat_map edge d);
  l_parent : Forall (fun y => p_parent (snd y) = ord_of d (removelast (fst y))) d;
  l_closed : Forall (fun y => length (fst y) = 1 \/ In (removelast (fst y)) (map fst d)) d }.

Lemma raw_ok_children s path st s' : raw s path st = Ok s' ->
  children s' = match nonzero_parent path with
                | Some par => match tree_get (modules s) par with
                              | Some pm => (mord pm, name path, next_ord s) :: children s
                              | None => children s
                              end
                | None => children s
                end.
Proof.
  unfold raw. destruct (tree_get (modules s) path); [discriminate|].
  destruct (nonzero_parent path) as [par|].
  - destruct (tree_get (modules s) par) as [pm|]; [|discriminate].
    destruct (tree_add _ _); [|discriminate]. intros H. injection H as <-. reflexivity.
  - destruct (tree_add _ _); [|discriminate]. intros H. injection H as <-. reflexivity.
Qed.

Lemma ord_of_app_some d x q o : ord_of d q = Some o -> ord_of (d ++ [x]) q = Some o.
Proof.
  unfold ord_of. destruct (find _ d) as [y|] eqn:E; [|discriminate].
  rewrite (find_app_some _ _ _ _ E). auto.
Qed.

Lemma ord_of_declared d q : In q (map fst d) -> exists o, ord_of d q = Some o.
Proof.
  intros Hin. apply declared_iff in Hin. destruct (find_declared_some _ _ Hin) as [y [E _]].
  exists (p_ord (snd y)). unfold ord_of. rewrite E. reflexivity.
Qed.

Lemma ord_of_undeclared d q : ~ In q (map fst d) -> ord_of d q = None.
Proof. intros H. unfold ord_of. rewrite find_path_none by assumption. reflexivity. Qed.

Lemma root_undeclared s d : Inv s d -> ~ In [] (map fst d).
Proof.
  intros HI Hin. apply in_map_iff in Hin. destruct Hin as [y [Hy Hin]].
  pose proof (inv_good _ _ HI) as Hg. rewrite Forall_forall in Hg. destruct (Hg y Hin) as [Hne _]. congruence.
Qed.

Lemma linv_step s d st p : Inv s d -> LInv s d -> wf_path p -> judge d p = Accept ->
  forall s', raw s (from (join p)) st = Ok s' -> LInv s' (d ++ [new_node d st p]).
Proof.
  intros HI HL [Hne Hg] Hj s' Hraw.
  destruct (exists_last Hne) as [q [n Hp]]. subst p.
  assert (Hgq : Forall good q) by (apply Forall_app in Hg; tauto).
  assert (Hq : q = [] \/ In q (map fst d)).
  { destruct q as [|k q]; [left; reflexivity|right]. unfold judge in Hj.
    destruct (declared d ((k :: q) ++ [n])); [discriminate|]. rewrite removelast_last, app_length in Hj. cbn [length] in Hj.
    destruct (declared d (k :: q)) eqn:E; [apply declared_iff; exact E|].
    replace (2 <=? S (length q) + 1) with true in Hj by (symmetry; apply Nat.leb_le; lia). discriminate. }
  assert (Hnew : ~ In (q ++ [n]) (map fst d)).
  { intros Hin. apply declared_iff in Hin. unfold judge in Hj. rewrite Hin in Hj. discriminate. }
  assert (Hpar : ord_of (d ++ [new_node d st (q ++ [n])]) q = ord_of d q).
  { destruct Hq as [->|Hin].
    - rewrite !ord_of_undeclared; [reflexivity|exact (root_undeclared _ _ HI)|].
      rewrite map_app. cbn [map new_node fst]. intros H. apply in_app_or in H. destruct H as [H|[H|[]]].
      + exact (root_undeclared _ _ HI H).
      + exact (app_cons_not_nil _ _ _ (eq_sym H)).
    - destruct (ord_of_declared _ _ Hin) as [o Ho]. rewrite Ho. apply ord_of_app_some. exact Ho. }
  constructor.
  - (* children *)
    rewrite (raw_ok_children _ _ _ _ Hraw). rewrite from_join by assumption.
    unfold nonzero_parent. rewrite parent_mk_snoc by assumption. rewrite is_root_mk.
    rewrite flat_map_app, rev_app_distr. cbn [flat_map]. rewrite app_nil_r.
    unfold edge at 1, new_node. cbn [fst snd p_parent p_ord]. rewrite removelast_last, last_last.
    rewrite <- (l_children _ _ HL).
    destruct q as [|k q].
    + rewrite (ord_of_undeclared d []) by exact (root_undeclared _ _ HI). reflexivity.
    + rewrite (inv_get _ _ _ HI Hgq). unfold ord_of.
      destruct (find (fun y => speqb (fst y) (k :: q)) d) as [y|]; cbn [option_map rev app].
      * cbn [to_mref mord]. change (k :: q ++ [n]) with ((k :: q) ++ [n]). rewrite name_mk_snoc, (inv_next _ _ HI). reflexivity.
      * reflexivity.
  - (* parent pointers *)
    apply Forall_app. split.
    + pose proof (l_parent _ _ HL) as HP. pose proof (l_closed _ _ HL) as HC.
      rewrite Forall_forall in *. intros y Hy. rewrite (HP y Hy).
      destruct (HC y Hy) as [H1|Hin].
      * assert (E : removelast (fst y) = []).
        { destruct (fst y) as [|a [|b r]]; cbn in H1 |- *; [reflexivity|reflexivity|discriminate]. }
        rewrite E. rewrite !ord_of_undeclared; [reflexivity| |exact (root_undeclared _ _ HI)].
        rewrite map_app. cbn [map new_node fst]. intros H. apply in_app_or in H. destruct H as [H|[H|[]]].
        -- exact (root_undeclared _ _ HI H).
        -- exact (app_cons_not_nil _ _ _ (eq_sym H)).
      * destruct (ord_of_declared _ _ Hin) as [o Ho]. rewrite Ho. symmetry. apply ord_of_app_some. exact Ho.
    + constructor; [|constructor]. cbn [new_node fst snd p_parent]. rewrite removelast_last. symmetry. exact Hpar.
  - (* parent-closed *)
    apply Forall_app. split.
    + eapply Forall_impl; [|exact (l_closed _ _ HL)]. intros y [H|H]; [left; exact H|right].
      rewrite map_app. apply in_or_app. left. exact H.
    + constructor; [|constructor]. cbn [new_node fst]. rewrite removelast_last, app_length. cbn [length].
      destruct Hq as [->|Hin]; [left; reflexivity|right]. rewrite map_app. apply in_or_app. left. exact Hin.
Qed.

Lemma linv_run : forall l s d, Inv s d -> LInv s d -> wf_ins l ->
  LInv (fst (raw_all s l)) (fst (spec_run d l)).
Proof.
  induction l as [|[st p] l IH]; intros s d HI HL Hwf; [exact HL|].
  inversion Hwf as [|? ? Hp Hl]; subst. cbn [snd] in Hp.
  pose proof (raw_step s d st p HI Hp) as Hstep. cbn [raw_all spec_run].
  destruct (judge d p) eqn:Hj.
  - destruct Hstep as [s' [Hraw HI']]. rewrite Hraw.
    specialize (IH s' _ HI' (linv_step s d st p HI HL Hp Hj s' Hraw) Hl).
    destruct (raw_all s' l), (spec_run (d ++ [new_node d st p]) l). exact IH.
  - rewrite Hstep. specialize (IH s d HI HL Hl). destruct (raw_all s l), (spec_run d l). exact IH.
  - rewrite Hstep. specialize (IH s d HI HL Hl). destruct (raw_all s l), (spec_run d l). exact IH.
Qed.

Lemma built_linv l : wf_ins l -> LInv (built l) (accepted l).
Proof.
  intros Hl. apply (linv_run l sim_new [] inv_init); [|exact Hl]. constructor; [reflexivity|constructor|constructor].
Qed.

(* ---- parent() ---- *)
Theorem parent_lookup_thm : forall l y, wf_ins l -> In y (accepted l) ->
  mparent (to_mref y) = ord_of (accepted l) (removelast (fst y)).
Proof.
  intros l y Hl Hy. pose proof (l_parent _ _ (built_linv l Hl)) as H. rewrite Forall_forall in H. exact (H y Hy).
Qed.

(* ---- child(name) ---- *)
Lemma ords_nodup s d : Inv s d -> NoDup (map (fun y : node => p_ord (snd y)) d).
Proof.
  intros HI. rewrite (inv_ords _ _ HI). apply Injective_map_NoDup; [|apply seq_NoDup].
  intros a b Hab. apply Nat2N.inj. exact Hab.
Qed.

Lemma ord_inj s d y y' : Inv s d -> In y d -> In y' d -> p_ord (snd y) = p_ord (snd y') -> y = y'.
Proof.
  intros HI Hy Hy' Heq. pose proof (ords_nodup _ _ HI) as Hnd. clear HI. revert Hnd Hy Hy' Heq.
  induction d as [|x d IH]; intros Hnd Hy Hy' Heq; [contradiction|].
  cbn [map] in Hnd. inversion Hnd as [|? ? Hnot Hnd']; subst.
  destruct Hy as [<-|Hy], Hy' as [<-|Hy']; [reflexivity| | |auto].
  - exfalso. apply Hnot. rewrite Heq. apply (in_map (fun y : node => p_ord (snd y))). assumption.
  - exfalso. apply Hnot. rewrite <- Heq. apply (in_map (fun y : node => p_ord (snd y))). assumption.
Qed.

Lemma paths_nodup s d : Inv s d -> NoDup (map fst d).
Proof.
  intros HI. eapply Permutation_NoDup; [apply Permutation_map; exact (inv_perm _ _ HI)|exact (inv_nodup _ _ HI)].
Qed.

Theorem child_lookup_thm : forall l y n, wf_ins l -> In y (accepted l) ->
  ctx_child (built l) (to_mref y) n = ord_of (accepted l) (fst y ++ [n]).
Proof.
  intros l y n Hl Hy. set (d := accepted l) in *. set (s := built l).
  pose proof (built_inv l Hl) as HI. pose proof (built_linv l Hl) as HL. fold d s in HI, HL.
  pose proof (paths_nodup _ _ HI) as Hndp.
  unfold ctx_child. cbn [to_mref mord].
  destruct (find _ (children s)) as [e|] eqn:E.
  - apply find_some in E. destruct E as [Hin Hm]. apply andb_prop in Hm. destruct Hm as [Ho Hn].
    apply N.eqb_eq in Ho. destruct (bytes_eqb_spec (snd (fst e)) n) as [Hn'|]; [|discriminate].
    rewrite (l_children _ _ HL) in Hin. apply in_rev, in_flat_map in Hin. destruct Hin as [y' [Hy' He]].
    unfold edge in He. destruct (p_parent (snd y')) as [po|] eqn:Epar; [|contradiction].
    destruct He as [<-|[]]. cbn [fst snd] in *. subst po.
    pose proof (l_parent _ _ HL) as HP. rewrite Forall_forall in HP. specialize (HP y' Hy'). rewrite Epar in HP.
    unfold ord_of in HP. destruct (find (fun z => speqb (fst z) (removelast (fst y'))) d) as [z|] eqn:Ez; [|discriminate].
    apply find_some in Ez. destruct Ez as [Hz Hzq]. destruct (speqb_spec (fst z) (removelast (fst y'))) as [Hzq'|]; [|discriminate].
    injection HP as HP. assert (z = y) by (eapply ord_inj; eauto; congruence). subst z.
    assert (Hne : fst y' <> []).
    { pose proof (inv_good _ _ HI) as Hg. rewrite Forall_forall in Hg. destruct (Hg y' Hy'). assumption. }
    assert (Hpath : fst y' = fst y ++ [n]).
    { rewrite (app_removelast_last [] Hne). rewrite <- Hzq', Hn'. reflexivity. }
    rewrite <- Hpath. unfold ord_of. rewrite (find_path_some d y' Hndp Hy'). reflexivity.
  - symmetry. apply ord_of_undeclared. intros Hin. apply in_map_iff in Hin. destruct Hin as [y' [Hpath Hy']].
    pose proof (l_parent _ _ HL) as HP. rewrite Forall_forall in HP. specialize (HP y' Hy').
    rewrite Hpath, removelast_last in HP. unfold ord_of in HP. rewrite (find_path_some d y Hndp Hy) in HP.
    assert (Hin : In (p_ord (snd y), n, p_ord (snd y')) (children s)).
    { rewrite (l_children _ _ HL). apply -> in_rev. apply in_flat_map. exists y'. split; [assumption|].
      unfold edge. rewrite HP, Hpath, last_last. left. reflexivity. }
    pose proof (find_none _ _ E _ Hin) as Hf. cbn [fst snd] in Hf. rewrite N.eqb_refl in Hf.
    destruct (bytes_eqb_spec n n); [discriminate|congruence].
Qed.

(* ---- path() ---- *)
Theorem object_path_thm : forall l y, wf_ins l -> In y (accepted l) ->
  mpath (to_mref y) = from (join (fst y)) /\
  as_str (mpath (to_mref y)) = join (fst y) /\
  name (mpath (to_mref y)) = last (fst y) [] /\
  len (mpath (to_mref y)) = length (fst y).
Proof.
  intros l y Hl Hy. pose proof (inv_good _ _ (built_inv l Hl)) as Hg. rewrite Forall_forall in Hg.
  destruct (Hg y Hy) as [Hne Hgood]. cbn [to_mref mpath]. repeat split.
  - symmetry. apply from_join. exact Hgood.
  - rewrite (app_removelast_last [] Hne) at 1. apply name_mk_snoc.
Qed.
