(* The declared module tree as a rose forest: children are kept in creation
   order ([f_ins] appends the new node as the LAST child of its parent), and
   [flatf] lists the forest in depth-first pre-order with full paths.  This is
   the specification the vector maintained by ModuleTree::add is compared with.
   Paths here are lists of names (a name is a byte string). *)
From Coq Require Import List NArith Arith Bool Lia.
From DesVerif Require Import Tree.Path Tree.PathLaws.
Import ListNotations.

Notation name_t := (list N) (only parsing).
Notation spath := (list (list N)) (only parsing).

Section Forest.
Variable A : Type.   (* what is attached to a node *)

Inductive tree := T (n : name_t) (a : A) (ks : list tree).
Definition tname (t : tree) := match t with T n _ _ => n end.
Definition tpay (t : tree) := match t with T _ a _ => a end.
Definition tkids (t : tree) := match t with T _ _ ks => ks end.

(* depth-first pre-order, node before its children, children left to right *)
Fixpoint flat (pre : spath) (t : tree) : list (spath * A) :=
  match t with
  | T n a ks => (pre ++ [n], a) :: flat_map (flat (pre ++ [n])) ks
  end.
Definition flatf (pre : spath) (ks : list tree) : list (spath * A) := flat_map (flat pre) ks.

Fixpoint upd_first (k : name_t) (f : tree -> tree) (ks : list tree) : list tree :=
  match ks with
  | [] => []
  | t :: r => if bytes_eqb (tname t) k then f t :: r else t :: upd_first k f r
  end.

(* new node n (with a) as the last child of the node at relative path q;
   q = [] : a new top-level node *)
Fixpoint f_ins (q : spath) (n : name_t) (a : A) (ks : list tree) : list tree :=
  match q with
  | [] => ks ++ [T n a []]
  | k :: q' => upd_first k (fun t => T (tname t) (tpay t) (f_ins q' n a (tkids t))) ks
  end.

(* sibling names are pairwise distinct, everywhere *)
Inductive twf : tree -> Prop :=
| twf_T n a ks : NoDup (map tname ks) -> Forall twf ks -> twf (T n a ks).
Definition fwf (ks : list tree) : Prop := NoDup (map tname ks) /\ Forall twf ks.

Fixpoint tree_ind' (P : tree -> Prop)
  (H : forall n a ks, Forall P ks -> P (T n a ks)) (t : tree) : P t :=
  match t with
  | T n a ks => H n a ks ((fix go (l : list tree) : Forall P l :=
                             match l with
                             | [] => Forall_nil P
                             | x :: r => Forall_cons x (tree_ind' P H x) (go r)
                             end) ks)
  end.

Definition paths (l : list (spath * A)) : list spath := map fst l.

Lemma flatf_app pre ks1 ks2 : flatf pre (ks1 ++ ks2) = flatf pre ks1 ++ flatf pre ks2.
Proof. unfold flatf. apply flat_map_app. Qed.

Lemma flatf_cons pre t ks : flatf pre (t :: ks) = flat pre t ++ flatf pre ks.
Proof. reflexivity. Qed.

Lemma flat_T pre n a ks : flat pre (T n a ks) = (pre ++ [n], a) :: flatf (pre ++ [n]) ks.
Proof. reflexivity. Qed.

Lemma flat_eta pre t : flat pre t = (pre ++ [tname t], tpay t) :: flatf (pre ++ [tname t]) (tkids t).
Proof. destruct t; reflexivity. Qed.

(* every path listed for a tree extends pre ++ [its name] *)
Lemma flat_prefix t : forall pre y, In y (flat pre t) -> exists r, fst y = pre ++ tname t :: r.
Proof.
  induction t as [n a ks IH] using tree_ind'. intros pre y Hin.
  rewrite flat_T in Hin. destruct Hin as [<-|Hin].
  - exists []. reflexivity.
  - unfold flatf in Hin. apply in_flat_map in Hin. destruct Hin as [t [Ht Hy]].
    rewrite Forall_forall in IH. destruct (IH t Ht _ _ Hy) as [r Hr].
    exists (tname t :: r). rewrite Hr, <- app_assoc. reflexivity.
Qed.

Lemma flatf_prefix pre ks y : In y (flatf pre ks) -> exists t r, In t ks /\ In y (flat pre t) /\ fst y = pre ++ tname t :: r.
Proof.
  intros Hin. unfold flatf in Hin. apply in_flat_map in Hin. destruct Hin as [t [Ht Hy]].
  destruct (flat_prefix t pre y Hy) as [r Hr]. exists t, r. auto.
Qed.

Lemma flatf_deeper pre ks : Forall (fun y => length pre < length (fst y)) (flatf pre ks).
Proof.
  apply Forall_forall. intros y Hy. destruct (flatf_prefix _ _ _ Hy) as [t [r [_ [_ Hr]]]].
  rewrite Hr, app_length. cbn [length]. lia.
Qed.

(* the list stops being deeper than d: it is empty or its head has depth <= d *)
Definition stops {B} (depth : B -> nat) (d : nat) (l : list B) : Prop :=
  match l with [] => True | y :: _ => depth y <= d end.

Lemma stops_app {B} (depth : B -> nat) d l l' : stops depth d l -> (l = [] -> stops depth d l') -> stops depth d (l ++ l').
Proof. destruct l; intros H H'; [apply H'; reflexivity|exact H]. Qed.

Lemma stops_flatf pre ks d : length pre + 1 <= d -> stops (fun y : spath * A => length (fst y)) d (flatf pre ks).
Proof.
  intros Hd. destruct ks as [|t ks]; [exact I|]. rewrite flatf_cons, flat_eta. cbn [app stops fst].
  rewrite app_length. cbn [length]. lia.
Qed.

(* ---- pre-order paths are pairwise distinct when sibling names are ---- *)
Lemma nodup_app {B} (l1 l2 : list B) :
  NoDup l1 -> NoDup l2 -> (forall x, In x l1 -> ~ In x l2) -> NoDup (l1 ++ l2).
Proof.
  intros H1 H2 Hdisj. induction l1 as [|x l1 IHl]; [exact H2|].
  cbn [app]. inversion H1; subst. constructor.
  - rewrite in_app_iff. intros [H|H]; [contradiction|]. exact (Hdisj x (or_introl eq_refl) H).
  - apply IHl; [assumption|]. intros y Hy. apply Hdisj. right. exact Hy.
Qed.

Lemma flatf_nodup_aux pre ks :
  NoDup (map tname ks) -> Forall (fun t => forall pre, NoDup (paths (flat pre t))) ks ->
  NoDup (paths (flatf pre ks)).
Proof.
  induction ks as [|t ks IHks]; intros Hnd Hall; [constructor|].
  inversion Hall as [|? ? Ht Hr]; subst. cbn [map] in Hnd. inversion Hnd as [|? ? Hnotin Hnd']; subst.
  rewrite flatf_cons. unfold paths. rewrite map_app. apply nodup_app.
  - apply Ht.
  - apply IHks; assumption.
  - intros x Hx Hx'. apply in_map_iff in Hx, Hx'. destruct Hx as [y [Hy Hyin]], Hx' as [y' [Hy' Hyin']].
    destruct (flat_prefix _ _ _ Hyin) as [r Hpr].
    destruct (flatf_prefix _ _ _ Hyin') as [t' [r' [Ht' [_ Hpr']]]].
    rewrite Hy in Hpr. rewrite Hy' in Hpr'. rewrite Hpr in Hpr'. apply app_inv_head in Hpr'.
    injection Hpr' as Hname _. apply Hnotin. rewrite Hname. apply in_map. exact Ht'.
Qed.

Lemma flat_nodup t : forall pre, twf t -> NoDup (paths (flat pre t)).
Proof.
  induction t as [n a ks IH] using tree_ind'. intros pre Hwf. inversion Hwf as [? ? ? Hnd Hks]; subst.
  rewrite flat_T. unfold paths. cbn [map fst]. constructor.
  - intros Hin. apply in_map_iff in Hin. destruct Hin as [y [Hy Hin]].
    pose proof (flatf_deeper (pre ++ [n]) ks) as Hd. rewrite Forall_forall in Hd.
    specialize (Hd y Hin). rewrite Hy in Hd. lia.
  - apply flatf_nodup_aux; [assumption|]. rewrite Forall_forall in *. intros t Ht pre'. apply IH; auto.
Qed.

Lemma flatf_nodup pre ks : fwf ks -> NoDup (paths (flatf pre ks)).
Proof.
  intros [Hnd Hks]. apply flatf_nodup_aux; [assumption|].
  rewrite Forall_forall in *. intros t Ht pre'. apply flat_nodup. auto.
Qed.

(* ---- inserting a node = inserting at the end of the parent's block ---- *)
Definition depth (y : spath * A) : nat := length (fst y).

Ltac lnorm := repeat (rewrite <- app_assoc || rewrite <- app_comm_cons).

Lemma upd_first_split k f ks1 t ks2 :
  Forall (fun t' => tname t' <> k) ks1 -> tname t = k ->
  upd_first k f (ks1 ++ t :: ks2) = ks1 ++ f t :: ks2.
Proof.
  intros H1 Ht. induction ks1 as [|x ks1 IH]; cbn [app upd_first].
  - destruct (bytes_eqb_spec (tname t) k); [reflexivity|contradiction].
  - inversion H1; subst. destruct (bytes_eqb_spec (tname x) (tname t)); [contradiction|].
    rewrite IH by assumption. reflexivity.
Qed.

Lemma in_nodup_split ks t : NoDup (map tname ks) -> In t ks ->
  exists ks1 ks2, ks = ks1 ++ t :: ks2 /\ Forall (fun t' => tname t' <> tname t) ks1.
Proof.
  intros Hnd Hin. destruct (in_split _ _ Hin) as [ks1 [ks2 ->]]. exists ks1, ks2. split; [reflexivity|].
  rewrite map_app in Hnd. cbn [map] in Hnd. apply NoDup_remove_2 in Hnd.
  apply Forall_forall. intros t' Ht' Heq. apply Hnd. apply in_or_app. left. rewrite <- Heq. apply in_map. exact Ht'.
Qed.

Lemma fwf_names_upd ks1 t t' ks2 :
  tname t' = tname t -> twf t' -> fwf (ks1 ++ t :: ks2) -> fwf (ks1 ++ t' :: ks2).
Proof.
  intros Hn Ht' [Hnd Hall]. split.
  - rewrite map_app in *. cbn [map] in *. rewrite Hn. exact Hnd.
  - apply Forall_app in Hall. destruct Hall as [H1 H2]. inversion H2; subst.
    apply Forall_app. split; [assumption|]. constructor; assumption.
Qed.

Lemma fwf_kids ks t : fwf ks -> In t ks -> fwf (tkids t).
Proof.
  intros [_ Hall] Hin. rewrite Forall_forall in Hall. specialize (Hall t Hin).
  inversion Hall; subst. split; assumption.
Qed.

Lemma f_ins_decomp : forall q pre ks n a,
  q <> [] -> fwf ks -> In (pre ++ q) (paths (flatf pre ks)) ->
  ~ In (pre ++ q ++ [n]) (paths (flatf pre ks)) ->
  exists l1 aq sub l2,
    flatf pre ks = l1 ++ (pre ++ q, aq) :: sub ++ l2 /\
    flatf pre (f_ins q n a ks) = l1 ++ (pre ++ q, aq) :: sub ++ (pre ++ q ++ [n], a) :: l2 /\
    Forall (fun y => length (pre ++ q) < depth y) sub /\
    stops depth (length (pre ++ q)) l2 /\
    fwf (f_ins q n a ks).
Proof.
  induction q as [|k q' IH]; intros pre ks n a Hne Hwf Hin Hnew; [congruence|].
  unfold paths in Hin. apply in_map_iff in Hin. destruct Hin as [y [Hy Hyin]].
  destruct (flatf_prefix _ _ _ Hyin) as [t [r [Ht [Hyt Hpr]]]].
  rewrite Hy in Hpr. apply app_inv_head in Hpr. injection Hpr as Hk Hq'. subst k r.
  destruct (in_nodup_split ks t (proj1 Hwf) Ht) as [ks1 [ks2 [Hks Hks1]]].
  assert (Hkids : fwf (tkids t)) by (eapply fwf_kids; eassumption).
  assert (Hflat : flatf pre ks = flatf pre ks1 ++ ((pre ++ [tname t], tpay t) :: flatf (pre ++ [tname t]) (tkids t)) ++ flatf pre ks2).
  { rewrite Hks, flatf_app, flatf_cons, flat_eta. reflexivity. }
  assert (Hins : f_ins (tname t :: q') n a ks
                 = ks1 ++ T (tname t) (tpay t) (f_ins q' n a (tkids t)) :: ks2).
  { cbn [f_ins]. rewrite Hks. apply upd_first_split; [assumption|reflexivity]. }
  assert (Hassoc : forall x : spath, (pre ++ [tname t]) ++ x = pre ++ tname t :: x).
  { intros x. rewrite <- app_assoc. reflexivity. }
  destruct q' as [|k' q''].
  - (* the parent is t itself *)
    exists (flatf pre ks1), (tpay t), (flatf (pre ++ [tname t]) (tkids t)), (flatf pre ks2).
    split; [|split; [|split; [|split]]].
    + rewrite Hflat. cbn [app]. reflexivity.
    + rewrite Hins, flatf_app, flatf_cons, flat_T. cbn [f_ins]. rewrite flatf_app.
      cbn [flatf flat_map flat app]. rewrite Hassoc.
      rewrite <- app_assoc. reflexivity.
    + apply flatf_deeper.
    + apply stops_flatf. rewrite app_length. cbn [length]. lia.
    + rewrite Hins. rewrite Hks in Hwf. apply (fwf_names_upd ks1 t _ ks2); [reflexivity| |exact Hwf].
      cbn [f_ins]. destruct Hkids as [Hnd Hall]. constructor.
      * rewrite map_app. cbn [map tname]. apply nodup_app; [assumption|repeat constructor; intros []|].
        intros x Hx [<-|[]]. apply Hnew. apply in_map_iff in Hx. destruct Hx as [t' [Hn' Ht']].
        unfold paths. apply in_map_iff. exists ((pre ++ [tname t]) ++ [tname t'], tpay t'). split.
        { cbn [fst app]. rewrite Hassoc, Hn'. reflexivity. }
        rewrite Hflat. apply in_or_app. right. apply in_or_app. left. right.
        unfold flatf. apply in_flat_map. exists t'. split; [assumption|]. rewrite flat_eta. left. reflexivity.
      * apply Forall_app. split; [assumption|]. repeat constructor.
  - (* the parent is below t *)
    assert (Hin' : In ((pre ++ [tname t]) ++ k' :: q'') (paths (flatf (pre ++ [tname t]) (tkids t)))).
    { rewrite flat_eta in Hyt. destruct Hyt as [Heq|Hyt].
      - exfalso. rewrite <- Heq in Hy. cbn [fst] in Hy. apply app_inv_head in Hy. discriminate.
      - unfold paths. apply in_map_iff. exists y. split; [|assumption]. rewrite Hy, Hassoc. reflexivity. }
    assert (Hnew' : ~ In ((pre ++ [tname t]) ++ (k' :: q'') ++ [n]) (paths (flatf (pre ++ [tname t]) (tkids t)))).
    { intros H. apply Hnew. rewrite Hassoc in H. unfold paths in *. rewrite Hflat, !map_app. cbn [map].
      apply in_or_app. right. apply in_or_app. left. right. exact H. }
    destruct (IH (pre ++ [tname t]) (tkids t) n a ltac:(discriminate) Hkids Hin' Hnew')
      as [l1 [aq [sub [l2 [E1 [E2 [Hsub [Hstop Hwf']]]]]]]].
    rewrite !Hassoc in E1, E2, Hsub, Hstop.
    exists (flatf pre ks1 ++ (pre ++ [tname t], tpay t) :: l1), aq, sub, (l2 ++ flatf pre ks2).
    split; [|split; [|split; [|split]]].
    + rewrite Hflat, E1. lnorm. reflexivity.
    + rewrite Hins, flatf_app, flatf_cons, flat_T, E2. rewrite ?Hassoc. lnorm. reflexivity.
    + exact Hsub.
    + apply stops_app; [exact Hstop|]. intros _. apply stops_flatf. rewrite app_length. cbn [length]. lia.
    + rewrite Hins. rewrite Hks in Hwf. apply (fwf_names_upd ks1 t _ ks2); [reflexivity| |exact Hwf].
      destruct Hwf' as [Hnd Hall]. constructor; assumption.
Qed.

(* a new top-level node *)
Lemma f_ins_top ks n a :
  fwf ks -> ~ In [n] (paths (flatf [] ks)) ->
  flatf [] (f_ins [] n a ks) = flatf [] ks ++ [([n], a)] /\ fwf (f_ins [] n a ks).
Proof.
  intros [Hnd Hall] Hnew. cbn [f_ins]. split.
  - rewrite flatf_app. reflexivity.
  - split.
    + rewrite map_app. cbn [map tname]. apply nodup_app; [assumption|repeat constructor; intros []|].
      intros x Hx [<-|[]]. apply Hnew. apply in_map_iff in Hx. destruct Hx as [t' [Hn' Ht']].
      unfold paths. apply in_map_iff. exists ([] ++ [tname t'], tpay t'). split.
      { cbn [fst app]. rewrite Hn'. reflexivity. }
      unfold flatf. apply in_flat_map. exists t'. split; [assumption|]. rewrite flat_eta. left. reflexivity.
    + apply Forall_app. split; [assumption|]. repeat constructor.
Qed.

End Forest.
