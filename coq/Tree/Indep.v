(* The pre-order of the declared tree depends only on, for every parent, the
   order in which ITS children were declared: interleaving the declarations of
   children of different parents differently does not change the module vector. *)
From Coq Require Import List NArith Arith Bool Lia Permutation.
From DesVerif Require Import Tree.Path Tree.PathLaws Tree.Model Tree.Forest Tree.Refine.
Import ListNotations.
Local Open Scope nat_scope.

Section Shape.
Variable A : Type.
Notation tree := (tree A).

Definition has_name (k : list N) (t : tree) : bool := bytes_eqb (tname A t) k.

(* names of the children of the node at relative path q, left to right
   (q = [] : the top-level nodes; no such node : none) *)
Fixpoint child_names (q : list (list N)) (ks : list tree) : list (list N) :=
  match q with
  | [] => map (tname A) ks
  | k :: q' => match find (has_name k) ks with
               | Some t => child_names q' (tkids A t)
               | None => []
               end
  end.

Lemma find_first ks1 t ks2 k :
  Forall (fun t' => tname A t' <> k) ks1 -> tname A t = k -> find (has_name k) (ks1 ++ t :: ks2) = Some t.
Proof.
  intros H1 Ht. induction ks1 as [|x ks1 IH]; cbn [app find]; unfold has_name at 1.
  - destruct (bytes_eqb_spec (tname A t) k); [reflexivity|contradiction].
  - inversion H1; subst. destruct (bytes_eqb_spec (tname A x) (tname A t)); [contradiction|]. apply IH. assumption.
Qed.

Lemma find_absent ks k : ~ In k (map (tname A) ks) -> find (has_name k) ks = None.
Proof.
  intros Hnot. destruct (find (has_name k) ks) as [t|] eqn:E; [|reflexivity]. exfalso.
  apply find_some in E. destruct E as [Hin Hk]. unfold has_name in Hk.
  destruct (bytes_eqb_spec (tname A t) k); [|discriminate]. apply Hnot. subst k. apply in_map. exact Hin.
Qed.

Lemma find_app_some {B} (f : B -> bool) l l' x : find f l = Some x -> find f (l ++ l') = Some x.
Proof.
  induction l as [|z l IH]; intros H; [discriminate|]. cbn [app find] in *.
  destruct (f z); [exact H|]. apply IH. exact H.
Qed.

Lemma find_app_none {B} (f : B -> bool) l l' : find f l = None -> find f (l ++ l') = find f l'.
Proof.
  induction l as [|z l IH]; intros H; [reflexivity|]. cbn [app find] in *.
  destruct (f z); [discriminate|]. apply IH. exact H.
Qed.

Lemma find_skip {B} (f : B -> bool) l1 x l2 : f x = false -> find f (l1 ++ x :: l2) = find f (l1 ++ l2).
Proof.
  intros Hx. induction l1 as [|z l1 IH]; cbn [app find]; [rewrite Hx; reflexivity|].
  destruct (f z); [reflexivity|]. exact IH.
Qed.

Lemma child_names_nil q : child_names q [] = [].
Proof. destruct q; reflexivity. Qed.

(* ---- the pre-order is determined by the child-name function ---- *)
Definition Pdet (t1 : tree) : Prop :=
  forall pre t2, twf A t1 -> twf A t2 -> tname A t1 = tname A t2 ->
    (forall q, child_names q (tkids A t1) = child_names q (tkids A t2)) ->
    paths A (flat A pre t1) = paths A (flat A pre t2).

Lemma forest_det ks1 : Forall Pdet ks1 -> forall ks2 pre, fwf A ks1 -> fwf A ks2 ->
  (forall q, child_names q ks1 = child_names q ks2) ->
  paths A (flatf A pre ks1) = paths A (flatf A pre ks2).
Proof.
  induction ks1 as [|x r IH]; intros HP ks2 pre Hw1 Hw2 Hq.
  - pose proof (Hq []) as H0. cbn [child_names map] in H0. destruct ks2; [reflexivity|discriminate].
  - pose proof (Hq []) as H0. cbn [child_names map] in H0. destruct ks2 as [|x2 r2]; [discriminate|].
    cbn [map] in H0. injection H0 as Hx Hr.
    inversion HP as [|? ? HPx HPr]; subst.
    destruct Hw1 as [Hnd1 Hall1], Hw2 as [Hnd2 Hall2]. cbn [map] in Hnd1, Hnd2.
    inversion Hnd1 as [|? ? Hnot1 Hnd1']; subst. inversion Hnd2 as [|? ? Hnot2 Hnd2']; subst.
    inversion Hall1 as [|? ? Hwx Hwr]; subst. inversion Hall2 as [|? ? Hwx2 Hwr2]; subst.
    rewrite !flatf_cons. unfold paths. rewrite !map_app. f_equal.
    + apply HPx; [assumption|assumption|assumption|]. intros q. specialize (Hq (tname A x :: q)).
      cbn [child_names find] in Hq. unfold has_name at 1 3 in Hq.
      destruct (bytes_eqb_spec (tname A x) (tname A x)); [|congruence].
      destruct (bytes_eqb_spec (tname A x2) (tname A x)); [|congruence]. exact Hq.
    + apply (IH HPr r2 pre); [split; assumption|split; assumption|].
      intros [|k q]; [exact Hr|]. specialize (Hq (k :: q)). cbn [child_names find] in Hq |- *.
      unfold has_name at 1 3 in Hq.
      destruct (bytes_eqb_spec (tname A x) k) as [Ek|Ek].
      * rewrite (find_absent r k) by (rewrite <- Ek; assumption).
        rewrite (find_absent r2 k) by (rewrite <- Ek, Hx; assumption). reflexivity.
      * destruct (bytes_eqb_spec (tname A x2) k) as [Ek2|Ek2]; [congruence|]. exact Hq.
Qed.

Lemma tree_det t : Pdet t.
Proof.
  induction t as [n a ks IH] using tree_ind'. intros pre t2 Hw1 Hw2 Hn Hq.
  destruct t2 as [n2 a2 ks2]. cbn [tname tkids] in *. subst n2. rewrite !flat_T. unfold paths. cbn [map fst]. f_equal.
  inversion Hw1; subst. inversion Hw2; subst.
  apply (forest_det ks IH ks2 (pre ++ [n])); [split; assumption|split; assumption|exact Hq].
Qed.

Theorem flatf_determined ks1 ks2 pre : fwf A ks1 -> fwf A ks2 ->
  (forall q, child_names q ks1 = child_names q ks2) ->
  paths A (flatf A pre ks1) = paths A (flatf A pre ks2).
Proof.
  intros H1 H2 Hq. apply forest_det; try assumption. apply Forall_forall. intros t _. apply tree_det.
Qed.

(* ---- how one insertion changes the child-name function ---- *)
Lemma child_names_ins : forall q pre ks n a q0,
  fwf A ks -> (q = [] \/ In (pre ++ q) (paths A (flatf A pre ks))) ->
  child_names q0 (f_ins A q n a ks)
  = if speqb q0 q then child_names q0 ks ++ [n] else child_names q0 ks.
Proof.
  induction q as [|k q1 IH]; intros pre ks n a q0 Hwf Hin.
  - cbn [f_ins]. destruct q0 as [|k0 q0'].
    + cbn [child_names]. rewrite map_app. reflexivity.
    + replace (speqb (k0 :: q0') []) with false by (destruct (speqb_spec (k0 :: q0') []); [discriminate|reflexivity]).
      cbn [child_names]. destruct (find (has_name k0) ks) as [t|] eqn:E.
      * rewrite (find_app_some _ _ _ _ E). reflexivity.
      * rewrite (find_app_none _ _ _ E). cbn [find].
        destruct (has_name k0 (T A n a [])); [|reflexivity]. cbn [tkids]. apply child_names_nil.
  - destruct Hin as [Hin|Hin]; [discriminate|].
    unfold paths in Hin. apply in_map_iff in Hin. destruct Hin as [y [Hy Hyin]].
    destruct (flatf_prefix A _ _ _ Hyin) as [t [r [Ht [Hyt Hpr]]]].
    rewrite Hy in Hpr. apply app_inv_head in Hpr. injection Hpr as Hk Hq'. subst k r.
    destruct (in_nodup_split A ks t (proj1 Hwf) Ht) as [ks1 [ks2 [Hks Hks1]]].
    assert (Hins : f_ins A (tname A t :: q1) n a ks
                   = ks1 ++ T A (tname A t) (tpay A t) (f_ins A q1 n a (tkids A t)) :: ks2).
    { cbn [f_ins]. rewrite Hks. apply upd_first_split; [assumption|reflexivity]. }
    rewrite Hins. destruct q0 as [|k0 q0'].
    + replace (speqb [] (tname A t :: q1)) with false by (destruct (speqb_spec [] (tname A t :: q1)); [discriminate|reflexivity]).
      cbn [child_names]. rewrite Hks, !map_app. reflexivity.
    + cbn [child_names]. destruct (bytes_eqb_spec (tname A t) k0) as [Ek|Ek].
      * subst k0. rewrite (find_first ks1 _ ks2 (tname A t)) by (assumption || reflexivity).
        assert (Hfk : find (has_name (tname A t)) ks = Some t).
        { rewrite Hks. apply find_first; [assumption|reflexivity]. }
        rewrite Hfk.
        cbn [tkids].
        assert (Hin' : q1 = [] \/ In ((pre ++ [tname A t]) ++ q1) (paths A (flatf A (pre ++ [tname A t]) (tkids A t)))).
        { destruct q1 as [|k' q'']; [left; reflexivity|right].
          rewrite flat_eta in Hyt. destruct Hyt as [Heq|Hyt].
          - exfalso. rewrite <- Heq in Hy. cbn [fst] in Hy. apply app_inv_head in Hy. discriminate.
          - unfold paths. apply in_map_iff. exists y. split; [|assumption]. rewrite Hy, <- app_assoc. reflexivity. }
        rewrite (IH (pre ++ [tname A t]) (tkids A t) n a q0' (fwf_kids A ks t Hwf Ht) Hin').
        destruct (speqb_spec q0' q1) as [E|E];
          destruct (speqb_spec (tname A t :: q0') (tname A t :: q1)) as [E'|E']; try reflexivity; congruence.
      * replace (speqb (k0 :: q0') (tname A t :: q1)) with false
          by (destruct (speqb_spec (k0 :: q0') (tname A t :: q1)); [congruence|reflexivity]).
        rewrite Hks.
        assert (Hf : forall t', tname A t' = tname A t ->
                   find (has_name k0) (ks1 ++ t' :: ks2) = find (has_name k0) (ks1 ++ ks2)).
        { intros t' Hn'. apply find_skip. unfold has_name. rewrite Hn'.
          destruct (bytes_eqb_spec (tname A t) k0); [contradiction|reflexivity]. }
        rewrite (Hf (T A (tname A t) (tpay A t) (f_ins A q1 n a (tkids A t))) eq_refl), (Hf t eq_refl). reflexivity.
Qed.

End Shape.

(* ---- the declared tree as "children of q, in declaration order" ---- *)
Definition kids_order (ps : list (list (list N))) (q : list (list N)) : list (list N) :=
  map (fun p => last p []) (filter (fun p => speqb (removelast p) q) ps).

Definition KidsInv (d : list node) : Prop :=
  forall q, child_names pay q (forest_of d) = kids_order (map fst d) q.

Lemma kids_step s d st p : Inv s d -> wf_path p -> judge d p = Accept -> KidsInv d ->
  KidsInv (d ++ [new_node d st p]).
Proof.
  intros HI [Hne Hg] Hj HK q0. rewrite forest_of_snoc. unfold ins_node, new_node. cbn [fst snd].
  destruct (exists_last Hne) as [q [n Hp]]. subst p. rewrite removelast_last, last_last.
  assert (Hin : q = [] \/ In ([] ++ q) (paths pay (flatf pay [] (forest_of d)))).
  { destruct q as [|k q]; [left; reflexivity|right]. cbn [app].
    unfold judge in Hj. destruct (declared d ((k :: q) ++ [n])); [discriminate|].
    rewrite removelast_last, app_length in Hj. cbn [length] in Hj.
    destruct (declared d (k :: q)) eqn:E.
    2:{ replace (2 <=? S (length q) + 1) with true in Hj by (symmetry; apply Nat.leb_le; lia). discriminate. }
    apply declared_iff in E.
    apply (Permutation_in _ (Permutation_sym (Permutation_map fst (inv_perm _ _ HI)))). exact E. }
  rewrite (child_names_ins pay q [] (forest_of d) n _ q0 (inv_wf _ _ HI) Hin).
  unfold kids_order. rewrite map_app, filter_app, map_app. cbn [map filter fst].
  rewrite removelast_last. rewrite (HK q0). unfold kids_order.
  destruct (speqb_spec q0 q) as [->|E].
  - destruct (speqb_spec q q); [|congruence]. cbn [map]. rewrite last_last. reflexivity.
  - destruct (speqb_spec q q0); [congruence|]. rewrite app_nil_r. reflexivity.
Qed.

Lemma kids_inv_run : forall l s d, Inv s d -> wf_ins l -> KidsInv d -> KidsInv (fst (spec_run d l)).
Proof.
  induction l as [|[st p] l IH]; intros s d HI Hwf HK; [exact HK|].
  inversion Hwf as [|? ? Hp Hl]; subst. cbn [snd] in Hp.
  pose proof (raw_step s d st p HI Hp) as Hstep. cbn [spec_run].
  destruct (judge d p) eqn:Hj.
  - destruct Hstep as [s' [_ HI']].
    specialize (IH s' _ HI' Hl (kids_step s d st p HI Hp Hj HK)).
    destruct (spec_run (d ++ [new_node d st p]) l). exact IH.
  - specialize (IH s d HI Hl HK). destruct (spec_run d l). exact IH.
  - specialize (IH s d HI Hl HK). destruct (spec_run d l). exact IH.
Qed.

(* the forest of the accepted declarations IS the declared tree: the children of
   every node, left to right, are its declared children in declaration order *)
Theorem forest_is_declared_tree : forall l, wf_ins l ->
  forall q, child_names pay q (forest_of (accepted l)) = kids_order (map fst (accepted l)) q.
Proof.
  intros l Hl. apply (kids_inv_run l sim_new [] inv_init Hl).
  intros q. unfold kids_order. cbn. apply child_names_nil.
Qed.

Theorem interleaving_independent_thm : forall l1 l2, wf_ins l1 -> wf_ins l2 ->
  (forall q, kids_order (map fst (accepted l1)) q = kids_order (map fst (accepted l2)) q) ->
  map mpath (modules (built l1)) = map mpath (modules (built l2)).
Proof.
  intros l1 l2 H1 H2 Hq. rewrite !add_is_preorder_thm by assumption. rewrite !map_map.
  change (fun x => mpath (to_mref x)) with (fun y : list (list N) * pay => mk (fst y)).
  rewrite <- !(map_map fst mk). f_equal. unfold preorder.
  apply (flatf_determined pay).
  - exact (inv_wf _ _ (built_inv l1 H1)).
  - exact (inv_wf _ _ (built_inv l2 H2)).
  - intros q. rewrite !forest_is_declared_tree by assumption. apply Hq.
Qed.

(* for valid sequences (nothing is rejected) the declared children are read off the sequence itself *)
Corollary valid_interleaving_independent : forall l1 l2, wf_ins l1 -> wf_ins l2 -> valid l1 -> valid l2 ->
  (forall q, kids_order (map snd l1) q = kids_order (map snd l2) q) ->
  map mpath (modules (built l1)) = map mpath (modules (built l2)).
Proof.
  intros l1 l2 H1 H2 V1 V2 Hq. apply interleaving_independent_thm; try assumption.
  rewrite (proj1 (valid_all_accepted l1 V1)), (proj1 (valid_all_accepted l2 V2)). exact Hq.
Qed.
