(* SimLifecycle::at_sim_start / at_sim_end (Tree/Model.v): the stage-major
   loop over the module vector.  Stated for every vector whose modules have
   pairwise distinct identities (true of every vector the builder produces,
   [built_ords_nodup]). *)
From Coq Require Import List NArith Arith Bool Lia Permutation Sorting.Sorted FinFun.
From DesVerif Require Import Tree.Path Tree.PathLaws Tree.Model Tree.Forest Tree.Refine.
Import ListNotations.
Local Open Scope nat_scope.

Definition stage_row (ms : list mref) (stage : nat) : list (mref * nat) :=
  flat_map (fun m => if stage <? mstages m then [(m, stage)] else []) ms.

Lemma at_sim_start_rows ms : at_sim_start ms = flat_map (stage_row ms) (seq 0 (max_stage ms)).
Proof. reflexivity. Qed.

Lemma stage_row_map ms st :
  stage_row ms st = map (fun m => (m, st)) (filter (fun m => st <? mstages m) ms).
Proof.
  induction ms as [|m ms IH]; [reflexivity|]. unfold stage_row in *. cbn [flat_map filter].
  destruct (st <? mstages m); cbn [map app]; rewrite IH; reflexivity.
Qed.

Lemma stage_row_in ms st c : In c (stage_row ms st) <-> snd c = st /\ In (fst c) ms /\ st < mstages (fst c).
Proof.
  rewrite stage_row_map, in_map_iff. split.
  - intros [m [<- Hm]]. apply filter_In in Hm. destruct Hm as [Hin Hlt]. apply Nat.ltb_lt in Hlt. auto.
  - intros [Hst [Hin Hlt]]. exists (fst c). split; [destruct c; cbn in *; congruence|].
    apply filter_In. split; [assumption|]. apply Nat.ltb_lt. assumption.
Qed.

Lemma fold_max_ge (ms : list mref) a : a <= fold_left (fun acc m => Nat.max acc (mstages m)) ms a.
Proof.
  revert a; induction ms as [|m ms IH]; intros a; cbn [fold_left]; [lia|].
  specialize (IH (Nat.max a (mstages m))). lia.
Qed.

Lemma fold_max_in (ms : list mref) a m : In m ms -> mstages m <= fold_left (fun acc m => Nat.max acc (mstages m)) ms a.
Proof.
  revert a; induction ms as [|x ms IH]; intros a Hin; [contradiction|]. cbn [fold_left].
  destruct Hin as [->|Hin]; [|apply IH; assumption].
  pose proof (fold_max_ge ms (Nat.max a (mstages m))). lia.
Qed.

Lemma max_stage_ge ms m : In m ms -> mstages m <= max_stage ms.
Proof. apply fold_max_in. Qed.

(* every call in the log is a declared stage of a module of the vector *)
Lemma at_sim_start_in ms c : In c (at_sim_start ms) <-> In (fst c) ms /\ snd c < mstages (fst c).
Proof.
  rewrite at_sim_start_rows, in_flat_map. split.
  - intros [st [_ Hc]]. apply stage_row_in in Hc. destruct Hc as [-> [Hin Hlt]]. auto.
  - intros [Hin Hlt]. exists (snd c). split.
    + apply in_seq. pose proof (max_stage_ge ms _ Hin). lia.
    + apply stage_row_in. auto.
Qed.

(* ---- stage barrier ---- *)
Lemma rows_sorted ms : forall n a, StronglySorted le (map snd (flat_map (stage_row ms) (seq a n))).
Proof.
  induction n as [|n IH]; intros a; [constructor|]. cbn [seq flat_map]. rewrite map_app.
  assert (Hrow : forall x, In x (map snd (stage_row ms a)) -> x = a).
  { intros x Hx. apply in_map_iff in Hx. destruct Hx as [c [<- Hc]]. apply stage_row_in in Hc. tauto. }
  assert (Hrest : forall x, In x (map snd (flat_map (stage_row ms) (seq (S a) n))) -> S a <= x).
  { intros x Hx. apply in_map_iff in Hx. destruct Hx as [c [<- Hc]]. apply in_flat_map in Hc.
    destruct Hc as [st [Hst Hc]]. apply in_seq in Hst. apply stage_row_in in Hc. lia. }
  revert Hrow. generalize (map snd (stage_row ms a)) as r. induction r as [|x r IHr]; intros Hrow; [apply IH|].
  cbn [app]. constructor.
  - apply IHr. intros y Hy. apply Hrow. right. exact Hy.
  - apply Forall_forall. intros y Hy. apply in_app_or in Hy.
    rewrite (Hrow x (or_introl eq_refl)). destruct Hy as [Hy|Hy].
    + rewrite (Hrow y (or_intror Hy)). lia.
    + specialize (Hrest y Hy). lia.
Qed.

Lemma ss_split {A} (R : A -> A -> Prop) l1 x l2 : StronglySorted R (l1 ++ x :: l2) -> Forall (R x) l2.
Proof.
  induction l1 as [|a l1 IH]; cbn [app]; intros H; inversion H; subst; [assumption|auto].
Qed.

Theorem stage_barrier_thm : forall ms l1 x l2 y l3,
  at_sim_start ms = l1 ++ x :: l2 ++ y :: l3 -> snd x <= snd y.
Proof.
  intros ms l1 x l2 y l3 H. pose proof (rows_sorted ms (max_stage ms) 0) as Hs.
  rewrite <- at_sim_start_rows, H in Hs. rewrite map_app in Hs. cbn [map] in Hs.
  apply ss_split in Hs. rewrite Forall_forall in Hs. apply Hs.
  rewrite map_app. apply in_or_app. right. left. reflexivity.
Qed.

(* ---- within a stage: vector order ---- *)
Lemma filter_flat_map {A B} (p : B -> bool) (g : A -> list B) l :
  filter p (flat_map g l) = flat_map (fun x => filter p (g x)) l.
Proof.
  induction l as [|x l IH]; [reflexivity|]. cbn [flat_map]. rewrite filter_app, IH. reflexivity.
Qed.

Lemma flat_map_nil {A B} (g : A -> list B) l : (forall x, In x l -> g x = []) -> flat_map g l = [].
Proof.
  induction l as [|x l IH]; intros H; [reflexivity|]. cbn [flat_map].
  rewrite (H x (or_introl eq_refl)), IH; [reflexivity|]. intros y Hy. apply H. right. exact Hy.
Qed.

Lemma filter_all {A} (p : A -> bool) l : (forall x, In x l -> p x = true) -> filter p l = l.
Proof.
  induction l as [|x l IH]; intros H; [reflexivity|]. cbn [filter].
  rewrite (H x (or_introl eq_refl)), IH; [reflexivity|]. intros y Hy. apply H. right. exact Hy.
Qed.

Lemma filter_none {A} (p : A -> bool) l : (forall x, In x l -> p x = false) -> filter p l = [].
Proof.
  induction l as [|x l IH]; intros H; [reflexivity|]. cbn [filter].
  rewrite (H x (or_introl eq_refl)), IH; [reflexivity|]. intros y Hy. apply H. right. exact Hy.
Qed.

(* the calls of stage st, in call order, are the modules declaring more than st
   stages, in vector order *)
Theorem stage_in_vector_order_thm : forall ms st,
  filter (fun c => snd c =? st) (at_sim_start ms)
  = map (fun m => (m, st)) (filter (fun m => st <? mstages m) ms).
Proof.
  intros ms st. rewrite at_sim_start_rows, filter_flat_map, <- stage_row_map.
  destruct (Nat.ltb_spec st (max_stage ms)) as [Hlt|Hge].
  - replace (max_stage ms) with (st + (1 + (max_stage ms - st - 1))) by lia.
    rewrite seq_app, flat_map_app. cbn [seq flat_map Nat.add].
    rewrite (flat_map_nil _ (seq 0 st)), (flat_map_nil _ (seq (S st) _)).
    + cbn [app]. rewrite app_nil_r. apply filter_all. intros c Hc. apply stage_row_in in Hc.
      apply Nat.eqb_eq. tauto.
    + intros a Ha. apply in_seq in Ha. apply filter_none. intros c Hc. apply stage_row_in in Hc.
      apply Nat.eqb_neq. lia.
    + intros a Ha. apply in_seq in Ha. apply filter_none. intros c Hc. apply stage_row_in in Hc.
      apply Nat.eqb_neq. lia.
  - rewrite flat_map_nil.
    + symmetry. rewrite stage_row_map. rewrite filter_none; [reflexivity|].
      intros m Hm. apply Nat.ltb_ge. pose proof (max_stage_ge ms m Hm). lia.
    + intros a Ha. apply in_seq in Ha. apply filter_none. intros c Hc. apply stage_row_in in Hc.
      apply Nat.eqb_neq. lia.
Qed.

(* ---- exactly once per declared stage ---- *)
Definition is_mod (m : mref) (c : mref * nat) : bool := N.eqb (mord (fst c)) (mord m).

Lemma row_of_module ms m st : NoDup (map mord ms) -> In m ms ->
  filter (is_mod m) (stage_row ms st) = if st <? mstages m then [(m, st)] else [].
Proof.
  induction ms as [|x ms IH]; intros Hnd Hin; [contradiction|].
  cbn [map] in Hnd. inversion Hnd as [|? ? Hnotin Hnd']; subst.
  unfold stage_row in *. cbn [flat_map]. rewrite filter_app.
  destruct Hin as [->|Hin].
  - rewrite (filter_none _ (flat_map _ ms)).
    + rewrite app_nil_r. destruct (st <? mstages m); [|reflexivity]. cbn [filter]. unfold is_mod. cbn [fst].
      rewrite N.eqb_refl. reflexivity.
    + intros c Hc. fold (stage_row ms st) in Hc. apply stage_row_in in Hc. unfold is_mod.
      apply N.eqb_neq. intros Heq. apply Hnotin. rewrite <- Heq. apply in_map. tauto.
  - rewrite IH by assumption. rewrite filter_none; [reflexivity|].
    intros c Hc. unfold is_mod. apply N.eqb_neq. intros Heq. apply Hnotin.
    destruct (st <? mstages x); [|contradiction]. destruct Hc as [<-|[]]. cbn [fst] in Heq.
    rewrite Heq. apply in_map. assumption.
Qed.

Lemma flat_map_singletons {A B} (f : A -> B) (g : A -> list B) l :
  (forall x, In x l -> g x = [f x]) -> flat_map g l = map f l.
Proof.
  induction l as [|x l IH]; intros H; [reflexivity|]. cbn [flat_map map].
  rewrite (H x (or_introl eq_refl)), IH; [reflexivity|]. intros y Hy. apply H. right. exact Hy.
Qed.

(* the calls made to module m are at_sim_start(0), at_sim_start(1), ...,
   at_sim_start(num_sim_start_stages - 1), each exactly once, in this order *)
Theorem start_once_per_declared_stage_thm : forall ms m,
  NoDup (map mord ms) -> In m ms ->
  filter (is_mod m) (at_sim_start ms) = map (fun st => (m, st)) (seq 0 (mstages m)).
Proof.
  intros ms m Hnd Hin. rewrite at_sim_start_rows, filter_flat_map.
  pose proof (max_stage_ge ms m Hin) as Hle.
  replace (max_stage ms) with (mstages m + (max_stage ms - mstages m)) by lia.
  rewrite seq_app, flat_map_app. rewrite (flat_map_nil _ (seq (0 + mstages m) _)).
  - rewrite app_nil_r. apply flat_map_singletons. intros st Hst. apply in_seq in Hst.
    rewrite row_of_module by assumption. destruct (Nat.ltb_spec st (mstages m)); [reflexivity|lia].
  - intros st Hst. apply in_seq in Hst. rewrite row_of_module by assumption.
    destruct (Nat.ltb_spec st (mstages m)); [lia|reflexivity].
Qed.

(* ---- tear-down ---- *)
Theorem end_once_per_module_thm : forall ms, NoDup (map mord ms) ->
  at_sim_end ms = ms /\ NoDup (map mord (at_sim_end ms)) /\
  (forall m, In m ms -> count_occ N.eq_dec (map mord (at_sim_end ms)) (mord m) = 1).
Proof.
  intros ms Hnd. split; [reflexivity|]. split; [exact Hnd|]. intros m Hm. unfold at_sim_end.
  apply NoDup_count_occ'; [exact Hnd|]. apply in_map. exact Hm.
Qed.

(* ---- every vector the builder produces has distinct module identities ---- *)
Lemma built_ords_nodup l : wf_ins l -> NoDup (map mord (modules (built l))).
Proof.
  intros Hl. pose proof (built_inv l Hl) as HI. rewrite (inv_vec _ _ HI), map_map.
  change (fun x => mord (to_mref x)) with (fun y : list (list N) * pay => p_ord (snd y)).
  eapply Permutation_NoDup.
  - apply Permutation_map. apply Permutation_sym. exact (inv_perm _ _ HI).
  - rewrite (inv_ords _ _ HI). apply Injective_map_NoDup; [|apply seq_NoDup].
    intros a b Hab. apply Nat2N.inj. exact Hab.
Qed.
