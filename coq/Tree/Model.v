(* Concrete model of the module tree of des/src/net/runtime/mod.rs:
     ModuleTree::get / ModuleTree::add          (mod.rs 728-761)
     SimBuilder::raw                            (mod.rs 441-479)
     SimLifecycle::at_sim_start / at_sim_end    (mod.rs 574-663)
   and of ModuleContext::{standalone, child_of, parent, child} (module/ctx/mod.rs).
   A module is a record (path, creation ordinal, declared number of start
   stages, parent pointer); the children hash maps of all contexts are one
   association list (parent ordinal, name, child ordinal), newest first, so a
   lookup sees the entry a later `insert` with the same key would have written.
   Function names and branch structure follow the Rust code.  No proofs here. *)
From Coq Require Import List NArith Arith Bool.
From Coq Require Ascii String DecimalString.
From DesVerif Require Import Common.Codec Tree.Path.
Import ListNotations.
Local Open Scope nat_scope.

Inductive outcome (A : Type) : Type := Ok (a : A) | Panic (site : N).
Arguments Ok {A} a.
Arguments Panic {A} site.

(* panic sites *)
Definition P_DUP : N := 1%N.      (* raw: "cannot create node .., node allready exists" *)
Definition P_ORPHAN : N := 2%N.   (* raw: ".. since parent node .. is required, but does not exist" *)
Definition P_TREE : N := 3%N.     (* ModuleTree::add: same message; proved unreachable through raw *)
Definition P_NDL_DUP : N := 4%N.     (* raw_ndl: "cannot crate module at .., already exists" *)
Definition P_NDL_ORPHAN : N := 5%N.  (* raw_ndl: "cannot create module, parent missing in NDL build" *)

Record mref := { mpath : opath; mord : N; mstages : nat; mparent : option N }.

Record sim := { modules : list mref;                   (* ModuleTree.modules *)
                children : list (N * list N * N);       (* all ModuleContext.children maps *)
                next_ord : N }.

Definition sim_new : sim := {| modules := []; children := []; next_ord := 0%N |}.

(* ---- ModuleTree ---- *)
Definition tree_get (ms : list mref) (path : opath) : option mref :=
  find (fun m => opath_eqb (mpath m) path) ms.

(* Iterator::rposition *)
Fixpoint rposition {A} (f : A -> bool) (l : list A) : option nat :=
  match l with
  | [] => None
  | x :: r => match rposition f r with
              | Some i => Some (S i)
              | None => if f x then Some 0 else None
              end
  end.

(* while pos < len && modules[pos].path.len() > parent_depth { pos += 1 } : number of steps *)
Fixpoint skip_deeper (parent_depth : nat) (l : list mref) : nat :=
  match l with
  | [] => 0
  | x :: r => if parent_depth <? len (mpath x) then S (skip_deeper parent_depth r) else 0
  end.

(* Vec::insert *)
Definition insert_at {A} (i : nat) (x : A) (l : list A) : list A := firstn i l ++ x :: skipn i l.

Definition tree_add (ms : list mref) (m : mref) : outcome (list mref) :=
  match parent (mpath m) with
  | Some par =>
      if is_root par then Ok (ms ++ [m])
      else
        let parent_depth := len par in
        match rposition (fun x => opath_eqb (mpath x) par) ms with
        | None => Panic P_TREE
        | Some pos =>
            let pos := pos + 1 in
            let pos := pos + skip_deeper parent_depth (skipn pos ms) in
            Ok (insert_at pos m ms)
        end
  | None => Ok (ms ++ [m])
  end.

(* ---- SimBuilder::raw (for a Module; ModuleBlock for M calls exactly this) ---- *)
Definition raw (s : sim) (path : opath) (stages : nat) : outcome sim :=
  match tree_get (modules s) path with
  | Some _ => Panic P_DUP
  | None =>
      let ord := next_ord s in
      match nonzero_parent path with
      | Some par =>
          match tree_get (modules s) par with
          | None => Panic P_ORPHAN
          | Some pm =>
              (* ModuleContext::child_of(path.name(), parent): path = parent.path.appended(name) *)
              let nm := name path in
              let ctx := {| mpath := appended (mpath pm) nm; mord := ord; mstages := stages;
                            mparent := Some (mord pm) |} in
              match tree_add (modules s) ctx with
              | Ok ms => Ok {| modules := ms; children := (mord pm, nm, ord) :: children s;
                               next_ord := N.succ ord |}
              | Panic k => Panic k
              end
          end
      | None =>
          (* ModuleContext::standalone(path) *)
          let ctx := {| mpath := path; mord := ord; mstages := stages; mparent := None |} in
          match tree_add (modules s) ctx with
          | Ok ms => Ok {| modules := ms; children := children s; next_ord := N.succ ord |}
          | Panic k => Panic k
          end
      end
  end.

(* ---- SimBuilder::raw_ndl (des/src/net/ndl/mod.rs): the same placement through ModuleTree::add,
   own panic messages, and a node without non-root parent becomes a child of the module at path ""
   when there is one (the root an NDL description attached at "" creates) ---- *)
Definition raw_ndl (s : sim) (path : opath) (stages : nat) : outcome sim :=
  match tree_get (modules s) path with
  | Some _ => Panic P_NDL_DUP
  | None =>
      let ord := next_ord s in
      let nm := name path in
      let child_of (pm : mref) :=
        let ctx := {| mpath := appended (mpath pm) nm; mord := ord; mstages := stages;
                      mparent := Some (mord pm) |} in
        match tree_add (modules s) ctx with
        | Ok ms => Ok {| modules := ms; children := (mord pm, nm, ord) :: children s;
                         next_ord := N.succ ord |}
        | Panic k => Panic k
        end in
      match nonzero_parent path with
      | Some par =>
          match tree_get (modules s) par with
          | None => Panic P_NDL_ORPHAN
          | Some pm => child_of pm
          end
      | None =>
          match tree_get (modules s) (from []) with
          | Some zero_parent => child_of zero_parent
          | None =>
              let ctx := {| mpath := path; mord := ord; mstages := stages; mparent := None |} in
              match tree_add (modules s) ctx with
              | Ok ms => Ok {| modules := ms; children := children s; next_ord := N.succ ord |}
              | Panic k => Panic k
              end
          end
      end
  end.

(* SimBuilderScoped::ndl on a description in which every module type has at most one submodule
   entry `name: T` or `name[k]: T` (no gates, no connections): the block is a list of levels
   (k, name), k = 0 for an atom.  The tree is instantiated depth first: raw_ndl(scope), then for
   every submodule instance the subtree at scope.appended(instance name). *)
Definition decimal (i : nat) : list N :=
  map Ascii.N_of_ascii (String.list_ascii_of_string (DecimalString.NilEmpty.string_of_uint (Nat.to_uint i))).

(* Kardinality::Atom => [ident];  Kardinality::Cluster(n) => format!("{ident}[{k}]") for k in 0..n *)
Definition sub_names (k : nat) (nm : list N) : list (list N) :=
  match k with
  | 0 => [nm]
  | _ => map (fun i => nm ++ 91%N :: decimal i ++ [93%N]) (seq 0 k)
  end.

Fixpoint ndl_paths (scope : opath) (levels : list (nat * list N)) : list opath :=
  scope :: match levels with
           | [] => []
           | (k, nm) :: rest => flat_map (fun sub => ndl_paths (appended scope sub) rest) (sub_names k nm)
           end.

(* the i-th created module takes the i-th stage count (1 when the list is exhausted); a panic
   unwinds out of sim.node(..): what was created before stays *)
Fixpoint ndl_all (s : sim) (ps : list opath) (sts : list nat) : sim * option N :=
  match ps with
  | [] => (s, None)
  | p :: r => match raw_ndl s p (hd 1 sts) with
              | Ok s' => ndl_all s' r (tl sts)
              | Panic k => (s, Some k)
              end
  end.

(* ModuleContext::child : children.get(name) *)
Definition ctx_child (s : sim) (m : mref) (nm : list N) : option N :=
  match find (fun e => N.eqb (fst (fst e)) (mord m) && bytes_eqb (snd (fst e)) nm) (children s) with
  | Some e => Some (snd e)
  | None => None
  end.

(* ---- SimLifecycle ---- *)
Definition max_stage (ms : list mref) : nat :=
  fold_left (fun acc m => Nat.max acc (mstages m)) ms 1.

(* for stage in 0..max_stage { for module in mods { if stage < module.num_sim_start_stages() { call } } } *)
Definition at_sim_start (ms : list mref) : list (mref * nat) :=
  flat_map (fun stage => flat_map (fun m => if stage <? mstages m then [(m, stage)] else []) ms)
           (seq 0 (max_stage ms)).

(* for module in mods { module.at_sim_end() } *)
Definition at_sim_end (ms : list mref) : list mref := ms.

(* ---- scripts ---- *)
Inductive op :=
| Node (stages : nat) (path : list N)          (* sim.node(path, module with that many start stages) *)
| QNode (path : list N)                        (* sim.get(path): ordinal, parent(), path().len/as_str/name *)
| QChild (path : list N) (nm : list N)         (* sim.get(path).child(name) *)
| PFrom (s : list N)                           (* ObjectPath::from(s) and its parent() *)
| PApp (s : list N) (nm : list N)              (* ObjectPath::from(s).appended(name) *)
| NdlBlock (path : list N) (levels : list (nat * list N)) (stages : list nat).
                                               (* sim.node(path, Ndl::new(registry, def of the block)) *)

Definition lp (l : list N) : list N := N.of_nat (length l) :: l.
Definition opt_ord (o : option N) : N := match o with Some k => N.succ k | None => 0%N end.

(* index of the first module whose path equals p (what a user gets by searching Sim::nodes()) *)
Fixpoint position {A} (f : A -> bool) (l : list A) : nat :=
  match l with [] => 0 | x :: r => if f x then 0 else S (position f r) end.

Definition step (s : sim) (o : op) : sim * list N :=
  match o with
  | Node st p =>
      match raw s (from p) st with
      | Ok s' => (s', [1%N])
      | Panic k => (s, [9%N; k])
      end
  | QNode p =>
      match tree_get (modules s) (from p) with
      | None => (s, [2%N; 0%N])
      | Some m => (s, [2%N; 1%N; mord m; opt_ord (mparent m); N.of_nat (len (mpath m))]
                      ++ lp (as_str (mpath m)) ++ lp (name (mpath m)))
      end
  | QChild p nm =>
      match tree_get (modules s) (from p) with
      | None => (s, [3%N; 0%N])
      | Some m => (s, [3%N; 1%N; opt_ord (ctx_child s m nm)])
      end
  | PFrom str =>
      let p := from str in
      (s, [4%N; N.of_nat (len p)] ++ lp (name p) ++ lp (as_parent_str p) ++
          match parent p with
          | None => [0%N]
          | Some q => [1%N; N.of_nat (len q)] ++ lp (as_str q) ++ lp (name q)
                      ++ [b2n (opath_eqb q (from (as_str q)))]
          end)
  | PApp str nm =>
      let p := from str in
      let a := appended p nm in
      (s, [5%N; N.of_nat (len a)] ++ lp (as_str a) ++ lp (name a)
          ++ [b2n (opath_eqb a (from (as_str a)));
              b2n (match parent a with Some q => opath_eqb q p | None => false end)])
  | NdlBlock p levels sts =>
      match ndl_all s (ndl_paths (from p) levels) sts with
      | (s', None) => (s', [1%N])
      | (s', Some k) => (s', [9%N; k])
      end
  end.

Fixpoint run_from (s : sim) (ops : list op) : sim * list N :=
  match ops with
  | [] => (s, [])
  | o :: r => let '(s', x) := step s o in
              let '(s'', xs) := run_from s' r in (s'', x ++ xs)
  end.

Definition build (ops : list op) : sim := fst (run_from sim_new ops).

Definition pos_of (ms : list mref) (m : mref) : N :=
  N.of_nat (position (fun x => opath_eqb (mpath x) (mpath m)) ms).

(* what the run prints after the build phase *)
Definition report (s : sim) : list N :=
  let ms := modules s in
  let st := at_sim_start ms in
  let en := at_sim_end ms in
  [6%N; N.of_nat (length ms)] ++ flat_map (fun m => lp (as_str (mpath m))) ms ++
  [7%N; N.of_nat (length st)] ++
    flat_map (fun c => [mord (fst c); N.of_nat (snd c); pos_of ms (fst c); opt_ord (mparent (fst c))]) st ++
  [8%N; N.of_nat (length en)] ++ flat_map (fun m => [mord m; pos_of ms m]) en ++
  [10%N; 0%N].

(* ---- wire format ---- *)
Local Open Scope N_scope.
(* Strings arrive as length-prefixed lists of Unicode scalar values and are
   turned into UTF-8 bytes here (and by the harness through char::from_u32);
   anything that is not a scalar value becomes U+FFFD. *)
Definition utf8 (c : N) : list N :=
  let c := if (c <? 55296) || ((57343 <? c) && (c <? 1114112)) then c else 65533 in
  if c <? 128 then [c]
  else if c <? 2048 then [192 + c / 64; 128 + c mod 64]
  else if c <? 65536 then [224 + c / 4096; 128 + (c / 64) mod 64; 128 + c mod 64]
  else [240 + c / 262144; 128 + (c / 4096) mod 64; 128 + (c / 64) mod 64; 128 + c mod 64].

Definition take_str (l : list N) : list N * list N :=
  let '(cs, r) := take_lp l in (flat_map utf8 cs, r).

Fixpoint take_levels (n : nat) (l : list N) : list (nat * list N) * list N :=
  match n with
  | O => ([], l)
  | S n' => match l with
            | [] => ([], [])
            | k :: r => let '(nm, r') := take_str r in
                        let '(ls, r'') := take_levels n' r' in ((N.to_nat (k mod 5), nm) :: ls, r'')
            end
  end.

(* script: op*  with op = 1 stages <str> | 2 <str> | 3 <str> <str> | 4 <str> | 5 <str> <str>
   | 6 <str> L (k <str>)^(L mod 4) <stage list>;   stage counts are taken modulo 8, cluster sizes modulo 5 *)
Definition dec_op (l : list N) : option (op * list N) :=
  match l with
  | 1 :: st :: r => let '(p, r') := take_str r in Some (Node (N.to_nat (st mod 8)) p, r')
  | 2 :: r => let '(p, r') := take_str r in Some (QNode p, r')
  | 3 :: r => let '(p, r') := take_str r in let '(n, r'') := take_str r' in Some (QChild p n, r'')
  | 4 :: r => let '(p, r') := take_str r in Some (PFrom p, r')
  | 5 :: r => let '(p, r') := take_str r in let '(n, r'') := take_str r' in Some (PApp p n, r'')
  | 6 :: r => let '(p, r1) := take_str r in
              let '(nl, r2) := match r1 with [] => (0, []) | x :: t => (x, t) end in
              let '(ls, r3) := take_levels (N.to_nat (nl mod 4)) r2 in
              let '(sts, r4) := take_lp r3 in
              Some (NdlBlock p ls (map (fun x => N.to_nat (x mod 8)) sts), r4)
  | _ => None
  end.

Definition run (input : list N) : list N :=
  let '(s, out) := run_from sim_new (decode_all dec_op input) in
  out ++ report s.
