(* Concrete model of des/src/net/path.rs (ObjectPath).  A path is the record the
   Rust struct is: the full dotted string as UTF-8 bytes, the byte offset of the
   last element and the depth.  `is_gate` is constantly false for module paths
   and is omitted.  Function names and branch structure follow the Rust code.
   No proofs in this file.

   The Rust `From<&str>` iterates over chars and adds `len_utf8()` to the byte
   offset; the model iterates over bytes.  For valid UTF-8 both agree, because
   the byte 46 ('.') occurs in a UTF-8 string only as the encoding of '.'. *)
From Coq Require Import List NArith Arith Bool.
Import ListNotations.

Definition DOT : N := 46%N.

Record opath := { data : list N; leo : nat (* last_element_offset *); plen : nat (* len = depth *) }.

(* ObjectPath::default() *)
Definition root : opath := {| data := []; leo := 0; plen := 0 |}.

Definition is_root (p : opath) : bool := plen p =? 0.
Definition len (p : opath) : nat := plen p.

(* &self.data[self.last_element_offset..] *)
Definition name (p : opath) : list N := skipn (leo p) (data p).
Definition as_str (p : opath) : list N := data p.
(* &self.data[..self.last_element_offset.saturating_sub(1)] *)
Definition as_parent_str (p : opath) : list N := firstn (leo p - 1) (data p).

(* str::rfind('.') : byte index of the last '.', if any *)
Fixpoint rfind_dot (d : list N) : option nat :=
  match d with
  | [] => None
  | c :: r => match rfind_dot r with
              | Some i => Some (S i)
              | None => if N.eqb c DOT then Some 0 else None
              end
  end.

Definition parent (p : opath) : option opath :=
  if plen p =? 0 then None else
  let d := firstn (leo p - 1) (data p) in            (* data.truncate(leo.saturating_sub(1)) *)
  let l := match rfind_dot d with Some i => i + 1 | None => 0 end in
  Some {| data := d; leo := l; plen := plen p - 1 |}.

Definition nonzero_parent (p : opath) : option opath :=
  match parent p with
  | None => None
  | Some q => if is_root q then None else Some q
  end.

Definition appended (p : opath) (suffix : list N) : opath :=
  match suffix with
  | [] => p
  | _ => if plen p =? 0
         then {| data := data p ++ suffix; leo := leo p; plen := plen p + 1 |}
         else {| data := data p ++ DOT :: suffix; leo := length (data p) + 1; plen := plen p + 1 |}
  end.

(* the loop of From<&str>: o = byte offset, l = last_element_offset, n = len *)
Fixpoint from_loop (s : list N) (o l n : nat) : nat * nat * nat :=
  match s with
  | [] => (o, l, n)
  | c :: r => if N.eqb c DOT then from_loop r (o + 1) (o + 1) (n + 1) else from_loop r (o + 1) l n
  end.

Definition from (s : list N) : opath :=
  let '(o, l, n) := from_loop s 0 0 0 in
  {| data := s; leo := l; plen := if o =? l then n else n + 1 |}.

(* derived PartialEq: all fields *)
Definition bytes_eqb (a b : list N) : bool := if list_eq_dec N.eq_dec a b then true else false.
Definition opath_eqb (p q : opath) : bool :=
  bytes_eqb (data p) (data q) && (leo p =? leo q) && (plen p =? plen q).
