(* ModuleTree::add / SimBuilder::raw (Tree/Model.v) against the declared tree
   (Tree/Forest.v): after any sequence of insertions of well-formed paths the
   module vector is the depth-first pre-order of the forest in which every
   accepted node was appended as the last child of its parent, and the builder
   rejects exactly duplicates and orphans. *)
From Coq Require Import List NArith Arith Bool Lia Permutation.
From DesVerif Require Import Tree.Path Tree.PathLaws Tree.Model Tree.Forest.
Import ListNotations.
Local Open Scope nat_scope.

(* ---- the vector algorithm on a block decomposition ---- *)
Lemma rposition_none {A} (f : A -> bool) l : Forall (fun y => f y = false) l -> rposition f l = None.
Proof.
  induction l as [|x l IH]; intros H; [reflexivity|]. inversion H as [|? ? Hx Hl]; subst.
  cbn [rposition]. rewrite IH by assumption. rewrite Hx. reflexivity.
Qed.

Lemma rposition_last {A} (f : A -> bool) l1 q l2 :
  f q = true -> Forall (fun y => f y = false) l2 -> rposition f (l1 ++ q :: l2) = Some (length l1).
Proof.
  intros Hq H2. induction l1 as [|x l1 IH]; cbn [app rposition length].
  - rewrite rposition_none by assumption. rewrite Hq. reflexivity.
  - rewrite IH. reflexivity.
Qed.

Definition mdepth (x : mref) : nat := len (mpath x).

Lemma skip_deeper_block d sub l2 :
  Forall (fun x => d < mdepth x) sub -> stops mdepth d l2 -> skip_deeper d (sub ++ l2) = length sub.
Proof.
  intros Hs H2. induction sub as [|x sub IH]; cbn [app skip_deeper length].
  - destruct l2 as [|y l2]; [reflexivity|]. cbn [stops] in H2. cbn [skip_deeper].
    unfold mdepth in H2. destruct (Nat.ltb_spec d (len (mpath y))); [lia|reflexivity].
  - inversion Hs as [|? ? Hx Hr]; subst. unfold mdepth in Hx.
    destruct (Nat.ltb_spec d (len (mpath x))); [|lia]. rewrite IH by assumption. reflexivity.
Qed.

Lemma insert_at_app {A} l1 (x : A) l2 : insert_at (length l1) x (l1 ++ l2) = l1 ++ x :: l2.
Proof.
  unfold insert_at. rewrite firstn_app, firstn_all, Nat.sub_diag. cbn [firstn]. rewrite app_nil_r.
  rewrite skipn_app, skipn_all, Nat.sub_diag. reflexivity.
Qed.

Lemma tree_add_block m par l1 q sub l2 :
  parent (mpath m) = Some par -> is_root par = false -> mpath q = par ->
  Forall (fun y => mpath y <> par) (sub ++ l2) ->
  Forall (fun x => len par < mdepth x) sub -> stops mdepth (len par) l2 ->
  tree_add (l1 ++ q :: sub ++ l2) m = Ok (l1 ++ q :: sub ++ m :: l2).
Proof.
  intros Hpar Hroot Hq Hne Hsub Hstop. unfold tree_add. rewrite Hpar, Hroot.
  rewrite (rposition_last _ l1 q (sub ++ l2)).
  - replace (length l1 + 1) with (length (l1 ++ [q])) by (rewrite app_length; reflexivity).
    replace (l1 ++ q :: sub ++ l2) with ((l1 ++ [q]) ++ sub ++ l2) by (rewrite <- app_assoc; reflexivity).
    rewrite skipn_app, skipn_all, Nat.sub_diag. cbn [skipn app].
    rewrite skip_deeper_block by assumption.
    rewrite <- app_length. rewrite app_assoc. rewrite insert_at_app.
    rewrite <- !app_assoc. reflexivity.
  - destruct (opath_eqb_spec (mpath q) par); [reflexivity|contradiction].
  - eapply Forall_impl; [|exact Hne]. intros y Hy. cbn beta in Hy.
    destruct (opath_eqb_spec (mpath y) par); [contradiction|reflexivity].
Qed.

(* ---- the declared tree ---- *)
Record pay := { p_ord : N; p_stages : nat; p_parent : option N }.
Notation node := (list (list N) * pay)%type.

Definition to_mref (y : node) : mref :=
  {| mpath := mk (fst y); mord := p_ord (snd y); mstages := p_stages (snd y); mparent := p_parent (snd y) |}.

Definition speqb (a b : list (list N)) : bool :=
  if list_eq_dec (list_eq_dec N.eq_dec) a b then true else false.

Lemma speqb_spec a b : reflect (a = b) (speqb a b).
Proof. unfold speqb. destruct (list_eq_dec (list_eq_dec N.eq_dec) a b); constructor; assumption. Qed.

(* a path one may hand to the builder: at least one element, all elements good names *)
Definition wf_path (p : list (list N)) : Prop := p <> [] /\ Forall good p.

(* the forest in which every declared node was appended as last child of its parent *)
Definition ins_node (F : list (tree pay)) (y : node) : list (tree pay) :=
  f_ins pay (removelast (fst y)) (last (fst y) []) (snd y) F.
Definition forest_of (d : list node) : list (tree pay) := fold_left ins_node d [].

(* depth-first pre-order of the declared tree, siblings in creation order *)
Definition preorder (d : list node) : list node := flatf pay [] (forest_of d).

Definition ord_of (d : list node) (q : list (list N)) : option N :=
  match find (fun y => speqb (fst y) q) d with Some y => Some (p_ord (snd y)) | None => None end.

Inductive verdict := Accept | RejDup | RejOrphan.

Definition declared (d : list node) (p : list (list N)) : bool := existsb (fun y => speqb (fst y) p) d.

(* the builder's contract, on the list of nodes declared so far *)
Definition judge (d : list node) (p : list (list N)) : verdict :=
  if declared d p then RejDup
  else if (2 <=? length p) && negb (declared d (removelast p)) then RejOrphan
  else Accept.

Definition new_node (d : list node) (st : nat) (p : list (list N)) : node :=
  (p, {| p_ord := N.of_nat (length d); p_stages := st; p_parent := ord_of d (removelast p) |}).

Definition site_of (v : verdict) : N :=
  match v with Accept => 0%N | RejDup => P_DUP | RejOrphan => P_ORPHAN end.

Fixpoint spec_run (d : list node) (l : list (nat * list (list N))) : list node * list verdict :=
  match l with
  | [] => (d, [])
  | (st, p) :: r =>
      let v := judge d p in
      let d' := match v with Accept => d ++ [new_node d st p] | _ => d end in
      let '(d'', vs) := spec_run d' r in (d'', v :: vs)
  end.

(* the builder, fed with the dotted strings *)
Fixpoint raw_all (s : sim) (l : list (nat * list (list N))) : sim * list N :=
  match l with
  | [] => (s, [])
  | (st, p) :: r =>
      match raw s (from (join p)) st with
      | Ok s' => let '(s'', o) := raw_all s' r in (s'', 0%N :: o)
      | Panic k => let '(s'', o) := raw_all s r in (s'', k :: o)
      end
  end.

(* ---- invariant ---- *)
Record Inv (s : sim) (d : list node) : Prop := {
  inv_vec : modules s = map to_mref (preorder d);
  inv_wf : fwf pay (forest_of d);
  inv_perm : Permutation (preorder d) d;
  inv_good : Forall (fun y => wf_path (fst y)) d;
  inv_next : next_ord s = N.of_nat (length d);
  inv_ords : map (fun y => p_ord (snd y)) d = map N.of_nat (seq 0 (length d)) }.

Lemma forest_of_snoc d y : forest_of (d ++ [y]) = ins_node (forest_of d) y.
Proof. unfold forest_of. rewrite fold_left_app. reflexivity. Qed.

Lemma find_map {A B} (f : B -> bool) (g : A -> B) l :
  find f (map g l) = option_map g (find (fun x => f (g x)) l).
Proof.
  induction l as [|x l IH]; [reflexivity|]. cbn [map find]. destruct (f (g x)); [reflexivity|exact IH].
Qed.

Lemma find_ext_in {A} (f g : A -> bool) l : (forall x, In x l -> f x = g x) -> find f l = find g l.
Proof.
  induction l as [|x l IH]; intros H; [reflexivity|]. cbn [find]. rewrite (H x (or_introl eq_refl)).
  destruct (g x); [reflexivity|]. apply IH. intros y Hy. apply H. right. exact Hy.
Qed.

Lemma tree_get_map (L : list node) q :
  Forall (fun y => Forall good (fst y)) L -> Forall good q ->
  tree_get (map to_mref L) (mk q) = option_map to_mref (find (fun y => speqb (fst y) q) L).
Proof.
  intros HL Hq. unfold tree_get. rewrite find_map. f_equal. apply find_ext_in.
  intros y Hy. rewrite Forall_forall in HL. cbn [to_mref mpath].
  rewrite opath_eqb_mk by auto. reflexivity.
Qed.

Lemma nodup_fst_inj {A B} (l : list (A * B)) y y' :
  NoDup (map fst l) -> In y l -> In y' l -> fst y = fst y' -> y = y'.
Proof.
  induction l as [|x l IH]; intros Hnd Hy Hy' Heq; [contradiction|].
  cbn [map] in Hnd. inversion Hnd as [|? ? Hnotin Hnd']; subst.
  destruct Hy as [<-|Hy], Hy' as [<-|Hy']; [reflexivity| | |auto].
  - exfalso. apply Hnotin. rewrite Heq. apply in_map. assumption.
  - exfalso. apply Hnotin. rewrite <- Heq. apply in_map. assumption.
Qed.

Lemma find_path_some (l : list node) y :
  NoDup (map fst l) -> In y l -> find (fun y' => speqb (fst y') (fst y)) l = Some y.
Proof.
  intros Hnd Hin. destruct (find _ l) as [y'|] eqn:E.
  - apply find_some in E. destruct E as [Hin' Heq]. destruct (speqb_spec (fst y') (fst y)); [|discriminate].
    f_equal. eapply nodup_fst_inj; eassumption.
  - exfalso. pose proof (find_none _ _ E y Hin) as H. cbn beta in H.
    destruct (speqb_spec (fst y) (fst y)); [discriminate|congruence].
Qed.

Lemma find_path_none (l : list node) q :
  ~ In q (map fst l) -> find (fun y' => speqb (fst y') q) l = None.
Proof.
  intros Hnot. destruct (find _ l) as [y'|] eqn:E; [|reflexivity]. exfalso.
  apply find_some in E. destruct E as [Hin' Heq]. destruct (speqb_spec (fst y') q); [|discriminate].
  apply Hnot. subst q. apply in_map. assumption.
Qed.

Lemma declared_iff d p : declared d p = true <-> In p (map fst d).
Proof.
  unfold declared. rewrite existsb_exists. split.
  - intros [y [Hy Heq]]. destruct (speqb_spec (fst y) p); [|discriminate]. subst. apply in_map. assumption.
  - intros Hin. apply in_map_iff in Hin. destruct Hin as [y [Heq Hy]]. exists y. split; [assumption|].
    destruct (speqb_spec (fst y) p); [reflexivity|contradiction].
Qed.

(* finding by path gives the same node in the pre-order and in the declaration list *)
Lemma find_perm (l l' : list node) q :
  Permutation l l' -> NoDup (map fst l) ->
  find (fun y => speqb (fst y) q) l = find (fun y => speqb (fst y) q) l'.
Proof.
  intros Hp Hnd.
  assert (Hnd' : NoDup (map fst l')) by (eapply Permutation_NoDup; [apply Permutation_map; exact Hp|exact Hnd]).
  destruct (in_dec (list_eq_dec (list_eq_dec N.eq_dec)) q (map fst l)) as [Hin|Hnot].
  - apply in_map_iff in Hin. destruct Hin as [y [<- Hy]].
    rewrite (find_path_some l y Hnd Hy).
    rewrite (find_path_some l' y Hnd' (Permutation_in _ Hp Hy)). reflexivity.
  - rewrite (find_path_none l q Hnot). rewrite find_path_none; [reflexivity|].
    intros H. apply Hnot. eapply Permutation_in; [apply Permutation_map, Permutation_sym; exact Hp|exact H].
Qed.

Lemma inv_nodup s d : Inv s d -> NoDup (map fst (preorder d)).
Proof. intros H. apply (flatf_nodup pay). apply (inv_wf _ _ H). Qed.

Lemma inv_good_pre s d : Inv s d -> Forall (fun y => Forall good (fst y)) (preorder d).
Proof.
  intros H. apply Forall_forall. intros y Hy.
  pose proof (inv_good _ _ H) as Hg. rewrite Forall_forall in Hg.
  apply (Hg y). eapply Permutation_in; [exact (inv_perm _ _ H)|exact Hy].
Qed.

Lemma inv_get s d q : Inv s d -> Forall good q ->
  tree_get (modules s) (mk q) = option_map to_mref (find (fun y => speqb (fst y) q) d).
Proof.
  intros H Hq. rewrite (inv_vec _ _ H). rewrite tree_get_map by (eauto using inv_good_pre).
  f_equal. apply find_perm; [exact (inv_perm _ _ H)|exact (inv_nodup _ _ H)].
Qed.

Lemma find_declared d q : declared d q = false -> find (fun y => speqb (fst y) q) d = None.
Proof.
  intros H. apply find_path_none. intros Hin. apply declared_iff in Hin. congruence.
Qed.

Lemma find_declared_some d q : declared d q = true -> exists y, find (fun y => speqb (fst y) q) d = Some y /\ fst y = q /\ In y d.
Proof.
  intros H. destruct (find _ d) as [y|] eqn:E.
  - exists y. apply find_some in E. destruct E as [Hin Heq]. destruct (speqb_spec (fst y) q); [auto|discriminate].
  - exfalso. apply declared_iff in H. apply in_map_iff in H. destruct H as [y [Hy Hin]].
    pose proof (find_none _ _ E y Hin) as H'. cbn beta in H'. destruct (speqb_spec (fst y) q); [discriminate|contradiction].
Qed.

Lemma Forall_removelast {A} (P : A -> Prop) l : Forall P l -> Forall P (removelast l).
Proof.
  intros H. destruct l as [|a l]; [constructor|].
  destruct (exists_last (l := a :: l)) as [l' [x Heq]]; [discriminate|]. rewrite Heq in *.
  rewrite removelast_last. apply Forall_app in H. tauto.
Qed.

Lemma perm_insert {A} (l1 : list A) x sub y l2 :
  Permutation (l1 ++ x :: sub ++ y :: l2) ((l1 ++ x :: sub ++ l2) ++ [y]).
Proof.
  rewrite <- Permutation_cons_append.
  replace (l1 ++ x :: sub ++ y :: l2) with ((l1 ++ x :: sub) ++ y :: l2) by (rewrite <- app_assoc; reflexivity).
  replace (l1 ++ x :: sub ++ l2) with ((l1 ++ x :: sub) ++ l2) by (rewrite <- app_assoc; reflexivity).
  symmetry. apply Permutation_middle.
Qed.

(* ---- one insertion ---- *)
Lemma raw_step s d st p : Inv s d -> wf_path p ->
  match judge d p with
  | RejDup => raw s (from (join p)) st = Panic P_DUP
  | RejOrphan => raw s (from (join p)) st = Panic P_ORPHAN
  | Accept => exists s', raw s (from (join p)) st = Ok s' /\ Inv s' (d ++ [new_node d st p])
  end.
Proof.
  intros HI [Hne Hg]. rewrite from_join by assumption. unfold judge, raw.
  rewrite (inv_get _ _ _ HI Hg).
  destruct (declared d p) eqn:Edup.
  { destruct (find_declared_some _ _ Edup) as [y [-> _]]. reflexivity. }
  rewrite (find_declared _ _ Edup). cbn [option_map].
  destruct (exists_last Hne) as [q [n Hp]]. subst p.
  apply Forall_app in Hg. destruct Hg as [Hgq Hgn]. inversion Hgn as [|? ? Hn _]; subst.
  rewrite removelast_last. unfold nonzero_parent. rewrite parent_mk_snoc by assumption.
  rewrite is_root_mk, app_length. cbn [length].
  assert (Hnew : ~ In (q ++ [n]) (paths pay (preorder d))).
  { intros Hin. apply (Permutation_in _ (Permutation_map fst (inv_perm _ _ HI))) in Hin.
    apply declared_iff in Hin. congruence. }
  assert (Hmref : forall a, {| mpath := mk (q ++ [n]); mord := next_ord s; mstages := st; mparent := a |}
                        = to_mref (q ++ [n], {| p_ord := N.of_nat (length d); p_stages := st; p_parent := a |})).
  { intros a. unfold to_mref. cbn [fst snd p_ord p_stages p_parent]. rewrite (inv_next _ _ HI). reflexivity. }
  assert (Hfinish : forall s' a,
     modules s' = map to_mref (preorder (d ++ [(q ++ [n], {| p_ord := N.of_nat (length d); p_stages := st; p_parent := a |})])) ->
     fwf pay (forest_of (d ++ [(q ++ [n], {| p_ord := N.of_nat (length d); p_stages := st; p_parent := a |})])) ->
     Permutation (preorder (d ++ [(q ++ [n], {| p_ord := N.of_nat (length d); p_stages := st; p_parent := a |})]))
                 (d ++ [(q ++ [n], {| p_ord := N.of_nat (length d); p_stages := st; p_parent := a |})]) ->
     next_ord s' = N.succ (next_ord s) ->
     Inv s' (d ++ [(q ++ [n], {| p_ord := N.of_nat (length d); p_stages := st; p_parent := a |})])).
  { intros s' a Hv Hw Hpm Hnx. constructor; try assumption.
    - apply Forall_app. split; [exact (inv_good _ _ HI)|]. constructor; [|constructor].
      cbn [fst]. split; [destruct q; discriminate|]. apply Forall_app. split; [assumption|]. constructor; [assumption|constructor].
    - rewrite Hnx, (inv_next _ _ HI), app_length. cbn [length]. lia.
    - rewrite app_length, map_app, seq_app, map_app, (inv_ords _ _ HI). reflexivity. }
  destruct q as [|k q].
  - (* top-level node: standalone, pushed at the end *)
    cbn [length Nat.leb andb app]. unfold new_node. cbn [app removelast].
    destruct (f_ins_top pay (forest_of d) n
                {| p_ord := N.of_nat (length d); p_stages := st; p_parent := ord_of d [] |}
                (inv_wf _ _ HI) Hnew) as [Hflat Hwf'].
    eexists. split.
    + unfold tree_add. cbn [mpath]. change (mk [n]) with (mk ([] ++ [n])).
      rewrite parent_mk_snoc by constructor. rewrite is_root_mk. reflexivity.
    + assert (Eord : ord_of d [] = None).
      { unfold ord_of. rewrite find_path_none; [reflexivity|]. intros Hin. apply in_map_iff in Hin.
        destruct Hin as [y [Hy Hin]]. pose proof (inv_good _ _ HI) as Hgd. rewrite Forall_forall in Hgd.
        destruct (Hgd y Hin) as [Hyne _]. congruence. }
      rewrite Eord in *. apply Hfinish; cbn [modules next_ord].
      * unfold preorder. rewrite forest_of_snoc. unfold ins_node. cbn [fst snd app removelast last].
        rewrite Hflat, map_app, (inv_vec _ _ HI). cbn [map]. unfold preorder. f_equal. f_equal. exact (Hmref None).
      * rewrite forest_of_snoc. exact Hwf'.
      * unfold preorder. rewrite forest_of_snoc. unfold ins_node. cbn [fst snd app removelast last].
        rewrite Hflat. apply Permutation_app_tail. exact (inv_perm _ _ HI).
      * reflexivity.
  - (* nested node *)
    replace (2 <=? length (k :: q) + 1) with true by (symmetry; apply Nat.leb_le; cbn [length]; lia).
    cbn [andb]. rewrite (inv_get _ _ _ HI Hgq).
    destruct (declared d (k :: q)) eqn:Epar; cbn [negb].
    2:{ rewrite (find_declared _ _ Epar). reflexivity. }
    destruct (find_declared_some _ _ Epar) as [y [Efind [Hyq Hyd]]]. rewrite Efind. cbn [option_map].
    unfold new_node. rewrite removelast_last. unfold ord_of. rewrite Efind.
    cbn [to_mref mpath mord]. rewrite Hyq. rewrite name_mk_snoc.
    rewrite appended_mk by assumption.
    assert (Hinq : In ([] ++ k :: q) (paths pay (flatf pay [] (forest_of d)))).
    { cbn [app]. apply (Permutation_in _ (Permutation_sym (Permutation_map fst (inv_perm _ _ HI)))).
      rewrite <- Hyq. apply in_map. exact Hyd. }
    destruct (f_ins_decomp pay (k :: q) [] (forest_of d) n
                {| p_ord := N.of_nat (length d); p_stages := st; p_parent := Some (p_ord (snd y)) |}
                ltac:(discriminate) (inv_wf _ _ HI) Hinq Hnew)
      as [l1 [aq [sub [l2 [E1 [E2 [Hsub [Hstop Hwf']]]]]]]].
    cbn [app] in E1, E2, Hsub, Hstop.
    assert (Hgpre := inv_good_pre _ _ HI). unfold preorder in Hgpre. rewrite E1 in Hgpre.
    assert (Hndpre := inv_nodup _ _ HI). unfold preorder in Hndpre. rewrite E1 in Hndpre.
    assert (Hadd : tree_add (modules s) {| mpath := mk ((k :: q) ++ [n]); mord := next_ord s; mstages := st;
                                           mparent := Some (p_ord (snd y)) |}
                   = Ok (map to_mref (l1 ++ (k :: q, aq) :: sub ++ (k :: q ++ [n],
                           {| p_ord := N.of_nat (length d); p_stages := st; p_parent := Some (p_ord (snd y)) |}) :: l2))).
    { rewrite (inv_vec _ _ HI). unfold preorder. rewrite E1.
      rewrite !map_app. cbn [map]. rewrite !map_app. cbn [map].
      change (k :: q ++ [n]) with ((k :: q) ++ [n]). rewrite <- (Hmref (Some (p_ord (snd y)))).
      apply tree_add_block with (par := mk (k :: q)).
      - cbn [mpath]. apply parent_mk_snoc. assumption.
      - reflexivity.
      - reflexivity.
      - rewrite <- map_app. apply Forall_forall. intros m Hm. apply in_map_iff in Hm.
        destruct Hm as [z [<- Hz]]. cbn [to_mref mpath]. intros Heq.
        assert (Hgz : Forall good (fst z)).
        { rewrite Forall_forall in Hgpre. apply Hgpre. apply in_or_app. right. right. exact Hz. }
        apply mk_inj in Heq; [|assumption|assumption].
        rewrite map_app in Hndpre. cbn [map fst] in Hndpre. apply NoDup_remove_2 in Hndpre.
        apply Hndpre. apply in_or_app. right. rewrite <- Heq. apply in_map. exact Hz.
      - apply Forall_forall. intros m Hm. apply in_map_iff in Hm. destruct Hm as [z [<- Hz]].
        rewrite Forall_forall in Hsub. specialize (Hsub z Hz). unfold mdepth, len, depth in *.
        cbn [to_mref mpath]. rewrite !plen_mk. exact Hsub.
      - destruct l2 as [|z l2]; [exact I|]. cbn [map stops]. cbn [stops] in Hstop.
        unfold mdepth, len, depth in *. cbn [to_mref mpath]. rewrite !plen_mk. exact Hstop. }
    rewrite Hadd.
    eexists. split; [reflexivity|].
    apply Hfinish; cbn [modules next_ord].
    + unfold preorder. rewrite forest_of_snoc. unfold ins_node. cbn [fst snd]. rewrite removelast_last, last_last.
      rewrite E2. reflexivity.
    + rewrite forest_of_snoc. unfold ins_node. cbn [fst snd]. rewrite removelast_last, last_last. exact Hwf'.
    + unfold preorder. rewrite forest_of_snoc. unfold ins_node. cbn [fst snd]. rewrite removelast_last, last_last.
      rewrite E2. etransitivity; [apply perm_insert|]. apply Permutation_app_tail.
      rewrite <- E1. exact (inv_perm _ _ HI).
    + reflexivity.
Qed.

(* ---- all insertion sequences ---- *)
Lemma inv_init : Inv sim_new [].
Proof.
  constructor; try reflexivity; try constructor; constructor.
Qed.

Theorem raw_all_refines : forall l s d, Inv s d -> Forall (fun x => wf_path (snd x)) l ->
  Inv (fst (raw_all s l)) (fst (spec_run d l)) /\
  snd (raw_all s l) = map site_of (snd (spec_run d l)).
Proof.
  induction l as [|[st p] l IH]; intros s d HI Hwf; [split; [exact HI|reflexivity]|].
  inversion Hwf as [|? ? Hp Hl]; subst. cbn [snd] in Hp.
  pose proof (raw_step s d st p HI Hp) as Hstep.
  cbn [raw_all spec_run]. destruct (judge d p).
  - destruct Hstep as [s' [-> HI']]. specialize (IH s' _ HI' Hl).
    destruct (raw_all s' l) as [s'' o], (spec_run (d ++ [new_node d st p]) l) as [d'' vs].
    cbn [fst snd] in *. destruct IH as [IH1 IH2]. split; [exact IH1|]. cbn [map site_of]. rewrite IH2. reflexivity.
  - rewrite Hstep. specialize (IH s d HI Hl).
    destruct (raw_all s l) as [s'' o], (spec_run d l) as [d'' vs].
    cbn [fst snd] in *. destruct IH as [IH1 IH2]. split; [exact IH1|]. cbn [map site_of]. rewrite IH2. reflexivity.
  - rewrite Hstep. specialize (IH s d HI Hl).
    destruct (raw_all s l) as [s'' o], (spec_run d l) as [d'' vs].
    cbn [fst snd] in *. destruct IH as [IH1 IH2]. split; [exact IH1|]. cbn [map site_of]. rewrite IH2. reflexivity.
Qed.

(* the state the builder reaches, and the declarations it accepted *)
Definition built (l : list (nat * list (list N))) : sim := fst (raw_all sim_new l).
Definition accepted (l : list (nat * list (list N))) : list node := fst (spec_run [] l).

Definition wf_ins (l : list (nat * list (list N))) : Prop := Forall (fun x => wf_path (snd x)) l.

Lemma built_inv l : wf_ins l -> Inv (built l) (accepted l).
Proof. intros H. exact (proj1 (raw_all_refines l sim_new [] inv_init H)). Qed.

Theorem add_is_preorder_thm : forall l, wf_ins l ->
  modules (built l) = map to_mref (preorder (accepted l)).
Proof. intros l H. exact (inv_vec _ _ (built_inv l H)). Qed.

Theorem builder_verdicts_thm : forall l, wf_ins l ->
  snd (raw_all sim_new l) = map site_of (snd (spec_run [] l)).
Proof. intros l H. exact (proj2 (raw_all_refines l sim_new [] inv_init H)). Qed.

Theorem dup_and_orphan_rejected_thm : forall l st p, wf_ins l -> wf_path p ->
  let s := built l in
  let seen := map fst (accepted l) in
  (In p seen -> raw s (from (join p)) st = Panic P_DUP) /\
  (~ In p seen -> 2 <= length p -> ~ In (removelast p) seen -> raw s (from (join p)) st = Panic P_ORPHAN) /\
  (~ In p seen -> (length p = 1 \/ In (removelast p) seen) ->
     exists s', raw s (from (join p)) st = Ok s' /\
                modules s' = map to_mref (preorder (accepted l ++ [new_node (accepted l) st p]))).
Proof.
  intros l st p Hl Hp s seen. pose proof (raw_step s (accepted l) st p (built_inv l Hl) Hp) as Hstep.
  unfold judge in Hstep. repeat split.
  - intros Hin. apply declared_iff in Hin. rewrite Hin in Hstep. exact Hstep.
  - intros Hnot Hlen Hpar.
    destruct (declared (accepted l) p) eqn:E1; [apply declared_iff in E1; contradiction|].
    destruct (declared (accepted l) (removelast p)) eqn:E2; [apply declared_iff in E2; contradiction|].
    replace (2 <=? length p) with true in Hstep by (symmetry; apply Nat.leb_le; exact Hlen). exact Hstep.
  - intros Hnot Hor.
    destruct (declared (accepted l) p) eqn:E1; [apply declared_iff in E1; contradiction|].
    assert (E : (2 <=? length p) && negb (declared (accepted l) (removelast p)) = false).
    { destruct Hor as [H1|Hin]; [rewrite H1; reflexivity|].
      apply declared_iff in Hin. rewrite Hin. apply andb_false_r. }
    rewrite E in Hstep. destruct Hstep as [s' [Hraw HI']]. exists s'. split; [exact Hraw|]. exact (inv_vec _ _ HI').
Qed.

(* ModuleTree::add's own panic is unreachable through the builder *)
Theorem tree_add_panic_unreachable : forall l st p k, wf_ins l -> wf_path p ->
  raw (built l) (from (join p)) st = Panic k -> k = P_DUP \/ k = P_ORPHAN.
Proof.
  intros l st p k Hl Hp Hraw. pose proof (raw_step (built l) (accepted l) st p (built_inv l Hl) Hp) as Hstep.
  destruct (judge (accepted l) p).
  - destruct Hstep as [s' [E _]]. congruence.
  - left. congruence.
  - right. congruence.
Qed.

(* ---- valid insertion sequences: each parent before its children, no repetition ---- *)
Fixpoint valid_from (seen : list (list (list N))) (l : list (nat * list (list N))) : Prop :=
  match l with
  | [] => True
  | (_, p) :: r => ~ In p seen /\ (2 <= length p -> In (removelast p) seen) /\ valid_from (seen ++ [p]) r
  end.
Definition valid (l : list (nat * list (list N))) : Prop := valid_from [] l.

Lemma spec_run_valid l : forall d, valid_from (map fst d) l ->
  map fst (fst (spec_run d l)) = map fst d ++ map snd l /\
  Forall (fun v => v = Accept) (snd (spec_run d l)).
Proof.
  induction l as [|[st p] l IH]; intros d Hv; [cbn; rewrite app_nil_r; split; [reflexivity|constructor]|].
  cbn [valid_from] in Hv. destruct Hv as [Hnew [Hpar Hrest]]. cbn [spec_run].
  assert (Hj : judge d p = Accept).
  { unfold judge. destruct (declared d p) eqn:E1; [apply declared_iff in E1; contradiction|].
    destruct (Nat.leb_spec 2 (length p)) as [Hlen|Hlen]; [|reflexivity].
    specialize (Hpar Hlen). apply declared_iff in Hpar. rewrite Hpar. reflexivity. }
  rewrite Hj. specialize (IH (d ++ [new_node d st p])).
  rewrite map_app in IH. cbn [map new_node fst] in IH. specialize (IH Hrest).
  destruct (spec_run (d ++ [new_node d st p]) l) as [d'' vs]. cbn [fst snd] in *.
  destruct IH as [IH1 IH2]. split.
  - rewrite IH1, <- app_assoc. reflexivity.
  - constructor; [reflexivity|exact IH2].
Qed.

Theorem valid_all_accepted : forall l, valid l ->
  map fst (accepted l) = map snd l /\ Forall (fun v => v = Accept) (snd (spec_run [] l)).
Proof. intros l Hv. exact (spec_run_valid l [] Hv). Qed.

(* executable check of [valid] (used for examples) *)
Fixpoint validb_from (seen : list (list (list N))) (l : list (nat * list (list N))) : bool :=
  match l with
  | [] => true
  | (_, p) :: r => negb (existsb (speqb p) seen)
                   && ((length p <? 2) || existsb (speqb (removelast p)) seen)
                   && validb_from (seen ++ [p]) r
  end.

Lemma existsb_speqb p seen : existsb (speqb p) seen = true <-> In p seen.
Proof.
  rewrite existsb_exists. split.
  - intros [x [Hx Heq]]. destruct (speqb_spec p x); [subst; assumption|discriminate].
  - intros Hin. exists p. split; [assumption|]. destruct (speqb_spec p p); [reflexivity|congruence].
Qed.

Lemma validb_sound l : forall seen, validb_from seen l = true -> valid_from seen l.
Proof.
  induction l as [|[st p] l IH]; intros seen H; [exact I|]. cbn [validb_from valid_from] in *.
  apply andb_prop in H. destruct H as [H H3]. apply andb_prop in H. destruct H as [H1 H2].
  split; [|split].
  - intros Hin. apply existsb_speqb in Hin. rewrite Hin in H1. discriminate.
  - intros Hlen. apply orb_prop in H2. destruct H2 as [H2|H2].
    + apply Nat.ltb_lt in H2. lia.
    + apply existsb_speqb. exact H2.
  - apply IH. exact H3.
Qed.
