(* Scripts (Tree/Model.v `run_from`) versus insertion sequences: only `Node`
   operations change the builder's state, queries may be interleaved freely. *)
From Coq Require Import List NArith Arith Bool Lia.
From DesVerif Require Import Tree.Path Tree.PathLaws Tree.Model Tree.Forest Tree.Refine.
Import ListNotations.
Local Open Scope nat_scope.

Definition node_ins (ops : list op) : list (nat * list N) :=
  flat_map (fun o => match o with Node st p => [(st, p)] | _ => [] end) ops.

Fixpoint raw_strs (s : sim) (l : list (nat * list N)) : sim :=
  match l with
  | [] => s
  | (st, p) :: r => match raw s (from p) st with Ok s' => raw_strs s' r | Panic _ => raw_strs s r end
  end.

(* scripts that use plain sim.node(path, module) only; NDL described blocks: Tree/NdlBlock.v *)
Definition no_ndl (ops : list op) : Prop :=
  Forall (fun o => match o with NdlBlock _ _ _ => False | _ => True end) ops.

Lemma run_from_state ops : no_ndl ops -> forall s, fst (run_from s ops) = raw_strs s (node_ins ops).
Proof.
  induction ops as [|o ops IH]; intros Hn s; [reflexivity|]. cbn [run_from node_ins flat_map].
  inversion Hn as [|? ? Ho Hn']; subst. specialize (IH Hn').
  destruct o as [st p|p|p nm|str|str nm|p lv sts]; cbn [step app]; [| | | | |contradiction].
  - cbn [raw_strs]. destruct (raw s (from p) st) as [s'|k].
    + specialize (IH s'). destruct (run_from s' ops) as [s'' xs]. exact IH.
    + specialize (IH s). destruct (run_from s ops) as [s'' xs]. exact IH.
  - specialize (IH s). destruct (tree_get (modules s) (from p)); destruct (run_from s ops); exact IH.
  - specialize (IH s). destruct (tree_get (modules s) (from p)); destruct (run_from s ops); exact IH.
  - specialize (IH s). destruct (run_from s ops); exact IH.
  - specialize (IH s). destruct (run_from s ops); exact IH.
Qed.

Definition strs (l : list (nat * list (list N))) : list (nat * list N) :=
  map (fun x => (fst x, join (snd x))) l.

Lemma raw_all_strs l : forall s, fst (raw_all s l) = raw_strs s (strs l).
Proof.
  induction l as [|[st p] l IH]; intros s; [reflexivity|]. cbn [raw_all strs map raw_strs fst snd].
  destruct (raw s (from (join p)) st) as [s'|k].
  - specialize (IH s'). destruct (raw_all s' l). exact IH.
  - specialize (IH s). destruct (raw_all s l). exact IH.
Qed.

(* the state after a script whose node insertions are the dotted strings of l *)
Theorem build_is_built : forall ops l, no_ndl ops -> node_ins ops = strs l -> build ops = built l.
Proof.
  intros ops l Hn H. unfold build, built. rewrite run_from_state by assumption. rewrite raw_all_strs, H. reflexivity.
Qed.
