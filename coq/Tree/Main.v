(* End-to-end corollaries: the lifecycle theorems of Tree/Stages.v instantiated
   with the vectors the builder produces (Tree/Refine.v). *)
From Coq Require Import List NArith Arith Bool Lia.
From DesVerif Require Import Tree.Path Tree.PathLaws Tree.Model Tree.Forest Tree.Refine Tree.Stages Tree.Script Tree.Indep.
Import ListNotations.
Local Open Scope nat_scope.

Lemma start_once_built : forall l m, wf_ins l -> In m (modules (built l)) ->
  filter (is_mod m) (at_sim_start (modules (built l))) = map (fun st => (m, st)) (seq 0 (mstages m)).
Proof. intros l m Hl Hm. apply start_once_per_declared_stage_thm; [apply built_ords_nodup; exact Hl|exact Hm]. Qed.

Lemma start_calls_declared : forall l c, In c (at_sim_start (modules (built l))) ->
  In (fst c) (modules (built l)) /\ snd c < mstages (fst c).
Proof. intros l c H. apply at_sim_start_in. exact H. Qed.

Lemma stage_in_preorder_built : forall l st, wf_ins l ->
  filter (fun c => snd c =? st) (at_sim_start (modules (built l)))
  = map (fun m => (m, st)) (filter (fun m => st <? mstages m) (map to_mref (preorder (accepted l)))).
Proof. intros l st Hl. rewrite stage_in_vector_order_thm, add_is_preorder_thm by assumption. reflexivity. Qed.

Lemma end_once_built : forall l, wf_ins l ->
  at_sim_end (modules (built l)) = map to_mref (preorder (accepted l)) /\
  NoDup (map mord (at_sim_end (modules (built l)))) /\
  (forall m, In m (modules (built l)) ->
     count_occ N.eq_dec (map mord (at_sim_end (modules (built l)))) (mord m) = 1).
Proof.
  intros l Hl. destruct (end_once_per_module_thm _ (built_ords_nodup l Hl)) as [H1 [H2 H3]].
  split; [rewrite H1; apply add_is_preorder_thm; exact Hl|]. split; assumption.
Qed.
