(* Laws of ObjectPath (Tree/Path.v) on well-formed paths: a path whose
   elements are non-empty and dot-free byte strings ("good" names; bytes are
   arbitrary numbers, so multi-byte UTF-8 names are included). *)
From Coq Require Import List NArith Arith Bool Lia.
From DesVerif Require Import Tree.Path.
Import ListNotations.

Definition good (n : list N) : Prop := n <> [] /\ ~ In DOT n.

(* "a.b.c" *)
Fixpoint join (l : list (list N)) : list N :=
  match l with
  | [] => []
  | n :: r => match r with [] => n | _ => n ++ DOT :: join r end
  end.

(* root.appended(n1).appended(n2)... *)
Definition of_segs (l : list (list N)) : opath := fold_left appended l root.

(* the record one expects for the path with elements l *)
Definition mk (l : list (list N)) : opath :=
  {| data := join l; leo := length (join l) - length (last l []); plen := length l |}.

Lemma join_snoc l n : l <> [] -> join (l ++ [n]) = join l ++ DOT :: n.
Proof.
  induction l as [|a l IH]; intros Hne; [congruence|].
  destruct l as [|b l]; [reflexivity|].
  change (join ((a :: b :: l) ++ [n])) with (a ++ DOT :: join ((b :: l) ++ [n])).
  rewrite IH by discriminate.
  change (join (a :: b :: l)) with (a ++ DOT :: join (b :: l)).
  rewrite <- app_assoc. reflexivity.
Qed.

Lemma join_single n : join [n] = n.
Proof. reflexivity. Qed.

Lemma mk_snoc_nil n : mk [n] = {| data := n; leo := 0; plen := 1 |}.
Proof. unfold mk. cbn [join last length]. f_equal. lia. Qed.

Lemma mk_snoc l n : l <> [] ->
  mk (l ++ [n]) = {| data := join l ++ DOT :: n; leo := length (join l) + 1; plen := length l + 1 |}.
Proof.
  intros Hne. unfold mk. rewrite join_snoc by assumption. rewrite last_last.
  rewrite !app_length. cbn [length]. f_equal; lia.
Qed.

Lemma of_segs_snoc l n : of_segs (l ++ [n]) = appended (of_segs l) n.
Proof. unfold of_segs. rewrite fold_left_app. reflexivity. Qed.

Lemma of_segs_mk l : Forall good l -> of_segs l = mk l.
Proof.
  induction l as [|n l IH] using rev_ind; intros Hg; [reflexivity|].
  apply Forall_app in Hg. destruct Hg as [Hl Hn]. inversion Hn as [|? ? [Hne _] _]; subst.
  rewrite of_segs_snoc, IH by assumption.
  destruct n as [|c n]; [congruence|].
  destruct l as [|a l].
  - cbn [app]. rewrite mk_snoc_nil. reflexivity.
  - rewrite mk_snoc by discriminate. unfold appended, mk. cbn [plen data leo length Nat.eqb].
    f_equal; lia.
Qed.

(* ---- From<&str> ---- *)
Lemma from_loop_app a b o l k :
  from_loop (a ++ b) o l k = let '(o', l', k') := from_loop a o l k in from_loop b o' l' k'.
Proof.
  revert o l k; induction a as [|c a IH]; intros o l k; [reflexivity|].
  cbn [app from_loop]. destruct (N.eqb c DOT); apply IH.
Qed.

Lemma from_loop_nodot n o l k : ~ In DOT n -> from_loop n o l k = (o + length n, l, k).
Proof.
  revert o; induction n as [|c n IH]; intros o Hn; cbn [from_loop length].
  - f_equal. f_equal. lia.
  - destruct (N.eqb_spec c DOT) as [->|_]; [exfalso; apply Hn; left; reflexivity|].
    rewrite IH by (intros H; apply Hn; right; exact H). f_equal. f_equal. lia.
Qed.

Lemma from_loop_join l : l <> [] -> Forall good l ->
  from_loop (join l) 0 0 0 = (length (join l), length (join l) - length (last l []), length l - 1).
Proof.
  induction l as [|n l IH] using rev_ind; intros Hne Hg; [congruence|].
  apply Forall_app in Hg. destruct Hg as [Hl Hn]. inversion Hn as [|? ? [_ Hnd] _]; subst.
  rewrite last_last. destruct l as [|a l].
  - cbn [app join]. rewrite from_loop_nodot by assumption. cbn [last length]. f_equal. f_equal. lia.
  - rewrite join_snoc by discriminate. rewrite from_loop_app, IH by (assumption || discriminate).
    cbn [from_loop]. rewrite N.eqb_refl. rewrite from_loop_nodot by assumption.
    rewrite !app_length. cbn [length]. f_equal; [f_equal|]; lia.
Qed.

Lemma last_good l : l <> [] -> Forall good l -> good (last l []).
Proof.
  intros Hne Hg. destruct (exists_last Hne) as [l' [n Heq]]. rewrite Heq in *.
  rewrite last_last. apply Forall_app in Hg. destruct Hg as [_ Hn]. inversion Hn; assumption.
Qed.

Lemma last_le_join l : length (last l []) <= length (join l).
Proof.
  destruct l as [|a l]; [cbn [last join length]; lia|].
  destruct (exists_last (l := a :: l)) as [l' [n Heq]]; [discriminate|]. rewrite Heq, last_last.
  destruct l' as [|b l']; [cbn [app join]; lia|]. rewrite join_snoc by discriminate.
  rewrite app_length. cbn [length]. lia.
Qed.

Lemma from_join l : Forall good l -> from (join l) = mk l.
Proof.
  intros Hg. destruct l as [|a l]; [reflexivity|].
  unfold from. rewrite from_loop_join by (assumption || discriminate).
  unfold mk. f_equal.
  pose proof (last_good (a :: l) ltac:(discriminate) Hg) as [Hne _].
  pose proof (last_le_join (a :: l)) as Hlen.
  destruct (last (a :: l) []) as [|c r]; [congruence|]. cbn [length] in *.
  destruct (Nat.eqb_spec (length (join (a :: l))) (length (join (a :: l)) - S (length r))) as [E|E]; lia.
Qed.

(* ---- parent / name / len ---- *)
Lemma rfind_dot_nodot n : ~ In DOT n -> rfind_dot n = None.
Proof.
  induction n as [|c n IH]; intros Hn; [reflexivity|]. cbn [rfind_dot].
  rewrite IH by (intros H; apply Hn; right; exact H).
  destruct (N.eqb_spec c DOT) as [->|_]; [exfalso; apply Hn; left; reflexivity|reflexivity].
Qed.

Lemma rfind_dot_last a n : ~ In DOT n -> rfind_dot (a ++ DOT :: n) = Some (length a).
Proof.
  intros Hn. induction a as [|c a IH].
  - cbn [app rfind_dot length]. rewrite rfind_dot_nodot by assumption. rewrite N.eqb_refl. reflexivity.
  - cbn [app rfind_dot length]. rewrite IH. reflexivity.
Qed.

Lemma plen_mk l : plen (mk l) = length l.
Proof. reflexivity. Qed.

Lemma is_root_mk l : is_root (mk l) = match l with [] => true | _ => false end.
Proof. destruct l; reflexivity. Qed.

Lemma parent_mk_nil : parent (mk []) = None.
Proof. reflexivity. Qed.

Lemma parent_mk_snoc l n : Forall good l -> parent (mk (l ++ [n])) = Some (mk l).
Proof.
  intros Hg. destruct l as [|a l].
  - cbn [app]. rewrite mk_snoc_nil. reflexivity.
  - rewrite mk_snoc by discriminate. unfold parent. cbn [plen data leo].
    replace (length (a :: l) + 1 =? 0) with false by (symmetry; apply Nat.eqb_neq; lia).
    replace (length (join (a :: l)) + 1 - 1) with (length (join (a :: l)) + 0) by lia.
    rewrite firstn_app_2. cbn [firstn]. rewrite app_nil_r.
    unfold mk. f_equal. f_equal; [|lia].
    destruct (exists_last (l := a :: l)) as [l' [m Heq]]; [discriminate|]. rewrite Heq in *.
    apply Forall_app in Hg. destruct Hg as [_ Hm]. inversion Hm as [|? ? [_ Hmd] _]; subst.
    rewrite last_last. destruct l' as [|b l'].
    + cbn [app join]. rewrite rfind_dot_nodot by assumption. lia.
    + rewrite join_snoc by discriminate. rewrite rfind_dot_last by assumption.
      rewrite app_length. cbn [length]. lia.
Qed.

Lemma name_mk_snoc l n : name (mk (l ++ [n])) = n.
Proof.
  destruct l as [|a l].
  - cbn [app]. rewrite mk_snoc_nil. reflexivity.
  - rewrite mk_snoc by discriminate. unfold name. cbn [data leo].
    replace (length (join (a :: l)) + 1) with (length (join (a :: l) ++ [DOT])) by (rewrite app_length; reflexivity).
    change (join (a :: l) ++ DOT :: n) with (join (a :: l) ++ [DOT] ++ n). rewrite app_assoc.
    rewrite skipn_app, skipn_all, Nat.sub_diag. reflexivity.
Qed.

Lemma appended_mk l n : Forall good l -> good n -> appended (mk l) n = mk (l ++ [n]).
Proof.
  intros Hl Hn. rewrite <- of_segs_mk by assumption. rewrite <- of_segs_snoc.
  apply of_segs_mk. apply Forall_app. split; [assumption|]. constructor; [assumption|constructor].
Qed.

Lemma mk_inj l l' : Forall good l -> Forall good l' -> mk l = mk l' -> l = l'.
Proof.
  revert l'. induction l as [|n l IH] using rev_ind; intros l' Hl Hl' Heq.
  - destruct l'; [reflexivity|]. apply (f_equal plen) in Heq. discriminate.
  - destruct l' as [|a l0].
    { apply (f_equal plen) in Heq. rewrite !plen_mk, app_length in Heq. cbn [length] in Heq. lia. }
    destruct (exists_last (l := a :: l0)) as [l'' [m Hm]]; [discriminate|]. rewrite Hm in *.
    apply Forall_app in Hl, Hl'. destruct Hl as [Hl _], Hl' as [Hl' _].
    pose proof (f_equal name Heq) as Hn. rewrite !name_mk_snoc in Hn.
    pose proof (f_equal parent Heq) as Hp. rewrite !parent_mk_snoc in Hp by assumption.
    assert (Hp' : mk l = mk l'') by congruence.
    rewrite (IH l'' Hl Hl' Hp'), Hn. reflexivity.
Qed.

(* ---- derived PartialEq ---- *)
Lemma bytes_eqb_spec a b : reflect (a = b) (bytes_eqb a b).
Proof. unfold bytes_eqb. destruct (list_eq_dec N.eq_dec a b); constructor; assumption. Qed.

Lemma opath_eqb_spec p q : reflect (p = q) (opath_eqb p q).
Proof.
  unfold opath_eqb. destruct p as [d1 l1 k1], q as [d2 l2 k2]. cbn [data leo plen].
  destruct (bytes_eqb_spec d1 d2) as [->|Hd]; [|constructor; congruence].
  destruct (Nat.eqb_spec l1 l2) as [->|Hl]; [|constructor; congruence].
  destruct (Nat.eqb_spec k1 k2) as [->|Hk]; constructor; congruence.
Qed.

Lemma opath_eqb_mk l l' : Forall good l -> Forall good l' ->
  opath_eqb (mk l) (mk l') = if list_eq_dec (list_eq_dec N.eq_dec) l l' then true else false.
Proof.
  intros Hl Hl'. destruct (opath_eqb_spec (mk l) (mk l')) as [E|E];
    destruct (list_eq_dec (list_eq_dec N.eq_dec) l l') as [E'|E']; try reflexivity.
  - exfalso. apply E'. apply mk_inj; assumption.
  - exfalso. apply E. rewrite E'. reflexivity.
Qed.

(* ---- the path laws of the property ---- *)
(* For every well-formed path p (parsed from a dotted string whose elements are
   good names; the root included) and every good name n. *)
Theorem path_laws_thm : forall (l : list (list N)) (n : list N),
  Forall good l -> good n ->
  let p := from (join l) in
  parent (appended p n) = Some p /\
  name (appended p n) = n /\
  len (appended p n) = S (len p) /\
  from (as_str (appended p n)) = appended p n /\
  from (as_str p) = p.
Proof.
  intros l n Hl Hn p. unfold p. rewrite from_join by assumption.
  rewrite appended_mk by assumption.
  assert (Hln : Forall good (l ++ [n])).
  { apply Forall_app. split; [assumption|]. constructor; [assumption|constructor]. }
  repeat split.
  - apply parent_mk_snoc; assumption.
  - apply name_mk_snoc.
  - unfold len. rewrite !plen_mk, app_length. cbn [length]. lia.
  - unfold as_str. change (data (mk (l ++ [n]))) with (join (l ++ [n])). apply from_join; assumption.
  - unfold as_str. change (data (mk l)) with (join l). apply from_join; assumption.
Qed.
