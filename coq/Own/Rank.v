(* C20 -- releasing the roots frees everything.

   For every heap whose counts are consistent ([inv]), whose edges follow the
   schema of Own/Shape.v ([typed false]: the code as it is now) and whose
   connected gates are listed by a module context ([owned]): after all root
   handles have been dropped, the only objects still allocated are timer slots
   and timer queues.  The argument is the one of DESIGN.md: every strong edge
   other than the connection edges of a gate descends in the order
   (type rank, then path length for module contexts); connection edges are cut by
   [dissolve_paths] when the module context that lists the gate is freed. *)
From Coq Require Import List NArith Arith Bool Lia.
From DesVerif Require Import Own.Heap Own.Frame Own.Inv Own.Shape.
Import ListNotations.

(* ---- facts about the schema table ---- *)
Lemma kf_plain k n : kf k n = true -> is_conn k = false.
Proof. destruct k; cbn; congruence. Qed.

Lemma edge_ok_conn pin a k b : edge_ok pin a k b = true -> is_conn k = true -> a = TGate.
Proof.
  intros H C. destruct a, b; cbn [edge_ok] in H; try discriminate; try reflexivity;
    repeat match goal with
           | H : _ && _ = true |- _ => apply andb_true_iff in H; destruct H
           | H : kf _ _ = true |- _ => apply kf_plain in H; congruence
           end.
Qed.

(* the descent: current schema, ordinary field *)
Lemma edge_ok_desc a k b :
  edge_ok false a k b = true -> is_conn k = false ->
  trank b < trank a \/ (trank b = trank a /\ tdepth a < tdepth b).
Proof.
  intros H C. destruct a; destruct b; cbn [edge_ok] in H; try discriminate;
    cbn [trank tdepth]; try (left; lia).
  - right. apply andb_true_iff in H. destruct H as [_ H]. apply Nat.ltb_lt in H. lia.
  - destruct k; cbn in *; congruence.
  - destruct k; cbn in *; congruence.
Qed.

Lemma trank_le t : trank t <= 12.
Proof. destruct t; cbn; lia. Qed.

(* ---- the invariants that the release machine keeps ---- *)
Lemma shrunk_in a b e : shrunk a b -> In e (strong b) -> In e (strong a).
Proof.
  intros (_ & _ & _ & _ & [H|H]) Hin; rewrite H in Hin; [assumption|].
  unfold plain_edges in Hin. apply filter_In in Hin. apply Hin.
Qed.

Lemma shrunk_keeps_plain a b e : shrunk a b -> In e (strong a) -> is_conn (ek e) = false -> In e (strong b).
Proof.
  intros (_ & _ & _ & _ & [H|H]) Hin C; rewrite H; [assumption|].
  unfold plain_edges. apply filter_In. split; [assumption|]. rewrite C. reflexivity.
Qed.

Lemma shr_back h h' i b : shr h h' -> nth_error h' i = Some b -> exists a, nth_error h i = Some a /\ shrunk a b.
Proof.
  intros [L H] Hb. assert (Hi : i < length h) by (rewrite <- L; eapply nth_some_lt; eassumption).
  destruct (nth_lt_some _ _ Hi) as (a & Ea). destruct (H _ _ Ea) as (b' & Eb & S).
  exists a. split; [assumption|]. congruence.
Qed.

Lemma typed_shr pin h h' : shr h h' -> typed pin h -> typed pin h'.
Proof.
  intros Shr T o ob e Eo Hin. destruct (shr_back _ _ _ _ Shr Eo) as (a & Ea & Sa).
  destruct (T _ _ _ Ea (shrunk_in _ _ _ Sa Hin)) as (tb & Et & Ok).
  destruct Shr as [_ Hs]. destruct (Hs _ _ Et) as (tb' & Et' & (Tg & _)).
  exists tb'. split; [assumption|]. destruct Sa as (Ta & _). rewrite Tg, Ta. assumption.
Qed.

(* overwriting an object by one with the same tag and fewer edges *)
Lemma typed_upd pin h o a b :
  nth_error h o = Some a -> otag b = otag a -> (forall e, In e (strong b) -> In e (strong a)) ->
  typed pin h -> typed pin (upd h o b).
Proof.
  intros Ea Tg Sub T x ob e Ex Hin.
  assert (Ho : o < length h) by (eapply nth_some_lt; eassumption).
  assert (Hsrc : exists a', nth_error h x = Some a' /\ otag a' = otag ob /\ In e (strong a')).
  { destruct (Nat.eq_dec o x) as [<-|Hn].
    - rewrite nth_upd_eq in Ex by assumption. injection Ex as <-. exists a. auto.
    - rewrite nth_upd_neq in Ex by assumption. exists ob. auto. }
  destruct Hsrc as (a' & Ea' & Ta' & Hin'). destruct (T _ _ _ Ea' Hin') as (tb & Et & Ok).
  destruct (Nat.eq_dec o (et e)) as [Heq|Hn].
  - exists b. rewrite <- Heq. rewrite nth_upd_eq by assumption. split; [reflexivity|].
    rewrite <- Heq in Et. assert (tb = a) by congruence. subst tb. rewrite Tg, <- Ta'. assumption.
  - exists tb. rewrite nth_upd_neq by assumption. split; [assumption|]. rewrite <- Ta'. assumption.
Qed.

Definition conn_free (ob : obj) : Prop := forall e, In e (strong ob) -> is_conn (ek e) = false.

Lemma conn_free_plain ob : conn_free (set_strong ob (plain_edges ob)).
Proof.
  intros e Hin. cbn [set_strong strong] in Hin. unfold plain_edges in Hin. apply filter_In in Hin.
  destruct Hin as [_ H]. apply negb_true_iff in H. assumption.
Qed.

Lemma conn_free_shrunk a b : shrunk a b -> conn_free a -> conn_free b.
Proof. intros S F e Hin. apply F. eapply shrunk_in; eassumption. Qed.

(* after ModuleContext::drop every gate it was called on is without connections *)
Lemma dissolve_all_clears_fold fu gs : forall (acc : heap * list nat) g,
  S fu > 0 ->
  (In g gs \/ (forall ob, nth_error (fst acc) g = Some ob -> conn_free ob)) ->
  forall ob, nth_error (fst (fold_left
      (fun (acc : heap * list nat) (g : nat) =>
         let r := dissolve (S fu) [] g (fst acc) in (fst r, snd acc ++ snd r)) gs acc)) g = Some ob -> conn_free ob.
Proof.
  induction gs as [|g0 gs IH]; intros acc g Hfu Hg ob Hob; cbn [fold_left] in Hob.
  - destruct Hg as [[]|Hg]. eapply Hg; eassumption.
  - revert Hob. apply IH; [assumption|]. cbn [fst].
    destruct (Nat.eq_dec g0 g) as [->|Hn].
    + right. intros ob' Hob'.
      pose proof (shr_dissolve (S fu) [] g (fst acc)) as Shr.
      destruct (shr_back _ _ _ _ Shr Hob') as (a & Ea & _).
      rewrite (dissolve_clears fu [] g (fst acc) a eq_refl Ea) in Hob'. injection Hob' as <-.
      apply conn_free_plain.
    + destruct Hg as [[Hg|Hg]|Hg]; [congruence|left; assumption|].
      right. intros ob' Hob'. pose proof (shr_dissolve (S fu) [] g0 (fst acc)) as Shr.
      destruct (shr_back _ _ _ _ Shr Hob') as (a & Ea & Sa). eapply conn_free_shrunk; [eassumption|]. eapply Hg; eassumption.
Qed.

Lemma dissolve_all_clears h gs g ob :
  In g gs -> nth_error (fst (dissolve_all h gs)) g = Some ob -> conn_free ob.
Proof.
  intros Hin. unfold dissolve_all. apply dissolve_all_clears_fold; [lia|left; assumption].
Qed.

Record good (pin : bool) (s : st) (todo : list nat) : Prop := {
  g_inv : inv s todo;
  g_typed : typed pin (hp s);
  g_owned : owned (hp s) }.

Theorem good_step pin s o r : good pin s (o :: r) -> good pin (fst (step s o)) (snd (step s o) ++ r).
Proof.
  intros [I T O]. split; [apply inv_step; assumption| |];
    destruct (step_cases s o) as [Hb|ob ob1 E L R1 E1 Sh|ob E L R2]; cbn [fst hp]; try assumption.
  - (* typed, free *)
    apply (typed_upd pin _ o ob1); [assumption|reflexivity|intros e []|].
    eapply typed_shr; [apply pre_free_shr|assumption].
  - (* typed, decrement *)
    apply (typed_upd pin _ o ob); [assumption|reflexivity|auto|assumption].
  - (* owned, free *)
    pose proof (pre_free_shr s ob) as Shr. set (h1 := fst (pre_free s ob)) in *.
    assert (Ho1 : o < length h1) by (eapply nth_some_lt; eassumption).
    intros g gb e Eg Hin C.
    destruct (Nat.eq_dec o g) as [<-|Hng].
    { rewrite nth_upd_eq in Eg by assumption. injection Eg as <-. destruct Hin. }
    rewrite nth_upd_neq in Eg by assumption.
    destruct (shr_back _ _ _ _ Shr Eg) as (ga & Ega & Sga).
    destruct (O g ga e Ega (shrunk_in _ _ _ Sga Hin) C) as (c & oc & Ec & Ic & Hgc).
    destruct (Nat.eq_dec o c) as [<-|Hnc].
    + (* the owner is the context being freed: its Drop emptied the gate *)
      exfalso. assert (oc = ob) by congruence. subst oc.
      assert (F : conn_free gb).
      { unfold h1, pre_free in Eg. rewrite Ic in Eg. eapply dissolve_all_clears; eassumption. }
      specialize (F e Hin). congruence.
    + destruct Shr as [_ Hs]. destruct (Hs _ _ Ec) as (oc' & Ec' & Soc).
      exists c, oc'. rewrite nth_upd_neq by assumption. split; [assumption|]. split.
      * destruct Soc as (Tg & _). rewrite Tg. assumption.
      * apply in_map_iff in Hgc. destruct Hgc as (e' & He' & Hin').
        apply in_map_iff. exists e'. split; [assumption|].
        eapply shrunk_keeps_plain; [eassumption|assumption|].
        destruct (T _ _ _ Ec Hin') as (tb & Et & Ok).
        destruct (is_conn (ek e')) eqn:C'; [|reflexivity].
        pose proof (edge_ok_conn _ _ _ _ Ok C') as Hgate. destruct (otag oc); discriminate.
  - (* owned, decrement *)
    assert (Ho : o < length (hp s)) by (eapply nth_some_lt; eassumption).
    intros g gb e Eg Hin C.
    assert (Hsrc : exists ga, nth_error (hp s) g = Some ga /\ In e (strong ga)).
    { destruct (Nat.eq_dec o g) as [<-|Hn].
      - rewrite nth_upd_eq in Eg by assumption. injection Eg as <-. exists ob. auto.
      - rewrite nth_upd_neq in Eg by assumption. exists gb. auto. }
    destruct Hsrc as (ga & Ega & Hin'). destruct (O g ga e Ega Hin' C) as (c & oc & Ec & Ic & Hgc).
    destruct (Nat.eq_dec o c) as [<-|Hnc].
    + exists o, (set_rc ob (rc ob - 1)). rewrite nth_upd_eq by assumption.
      assert (oc = ob) by congruence. subst oc. auto.
    + exists c, oc. rewrite nth_upd_neq by assumption. auto.
Qed.

Theorem good_run pin fuel : forall s todo, good pin s todo ->
  good pin (fst (run_release fuel s todo)) (snd (run_release fuel s todo)).
Proof.
  induction fuel as [|f IH]; intros s todo G; destruct todo as [|o r]; cbn [run_release fst snd]; try assumption.
  apply IH. apply good_step. assumption.
Qed.

Theorem good_release_all pin s roots : good pin s roots -> good pin (release_all s roots) [].
Proof.
  intros G. unfold release_all. pose proof (good_run pin (S (measure (hp s) roots)) s roots G) as H.
  rewrite run_release_done in H by lia. assumption.
Qed.

(* ---- nothing survives once no handle is pending ---- *)
Lemma has_pred s o ob : inv s [] -> nth_error (hp s) o = Some ob -> live ob = true ->
  exists p pb e, nth_error (hp s) p = Some pb /\ In e (strong pb) /\ et e = o.
Proof.
  intros I E L. pose proof (i_live _ _ I _ _ E L) as H1.
  pose proof (i_cnt _ _ I o (nth_some_lt _ _ _ E)) as H2. unfold rc_of in H2. rewrite E, cnt_nil in H2.
  assert (Hin : In o (targets (hp s))) by (apply cnt_pos_in; lia).
  unfold targets in Hin. apply in_flat_map in Hin. destruct Hin as (pb & Hpb & Hin).
  apply in_map_iff in Hin. destruct Hin as (e & He & Hin).
  apply In_nth_error in Hpb. destruct Hpb as (p & Ep). eauto 10.
Qed.

Lemma has_edges_live s todo p pb e : inv s todo -> nth_error (hp s) p = Some pb -> In e (strong pb) -> live pb = true.
Proof.
  intros I E Hin. destruct (live pb) eqn:L; [reflexivity|].
  destruct (i_dead _ _ I _ _ E L) as [_ H]. rewrite H in Hin. destruct Hin.
Qed.

Lemma no_survivor s : good false s [] ->
  forall n d o ob, nth_error (hp s) o = Some ob -> live ob = true ->
    12 - trank (otag ob) = n -> tdepth (otag ob) = d -> False.
Proof.
  intros [I T O]. induction n as [n IHn] using lt_wf_ind. induction d as [d IHd] using lt_wf_ind.
  intros o ob E L Hn Hd.
  destruct (has_pred s o ob I E L) as (p & pb & e & Ep & Hin & Het).
  pose proof (has_edges_live _ _ _ _ _ I Ep Hin) as Lp.
  destruct (T _ _ _ Ep Hin) as (tb & Et & Ok). rewrite Het in Et. assert (tb = ob) by congruence. subst tb.
  destruct (is_conn (ek e)) eqn:C.
  - (* a connection edge: the gate [p] is listed by a live module context, which ranks above [o] *)
    pose proof (edge_ok_conn _ _ _ _ Ok C) as Hg.
    destruct (O _ _ _ Ep Hin C) as (c & oc & Ec & Ic & Hgc).
    apply in_map_iff in Hgc. destruct Hgc as (e' & He' & Hin').
    pose proof (has_edges_live _ _ _ _ _ I Ec Hin') as Lc.
    assert (Rc : trank (otag oc) = 9) by (destruct (otag oc); try discriminate; reflexivity).
    assert (Ro : trank (otag ob) <= 4).
    { rewrite Hg in Ok. destruct (otag ob); cbn [edge_ok] in Ok; try discriminate; cbn; lia. }
    eapply (IHn (12 - trank (otag oc))); [lia|exact Ec|exact Lc|reflexivity|reflexivity].
  - destruct (edge_ok_desc _ _ _ Ok C) as [Hr|[Hr Hdp]].
    + pose proof (trank_le (otag pb)).
      eapply (IHn (12 - trank (otag pb))); [lia|exact Ep|exact Lp|reflexivity|reflexivity].
    + eapply (IHd (tdepth (otag pb))); [lia|exact Ep|exact Lp|lia|reflexivity].
Qed.

(* the main theorem *)
Theorem all_freed s roots : good false s roots ->
  forall o ob, nth_error (hp (release_all s roots)) o = Some ob -> live ob = false.
Proof.
  intros G o ob E. pose proof (good_release_all _ _ _ G) as G'.
  destruct (live ob) eqn:L; [exfalso|reflexivity].
  eapply (no_survivor _ G'); try eassumption; reflexivity.
Qed.

(* tags never change, objects are never created or renumbered *)
Lemma step_tag s o x : tag_of (hp (fst (step s o))) x = tag_of (hp s) x.
Proof.
  unfold tag_of. destruct (step_cases s o) as [Hb|ob ob1 E L R1 E1 Sh|ob E L R2]; cbn [fst hp]; try reflexivity.
  - pose proof (pre_free_shr s ob) as Shr. assert (Ho1 : o < length (fst (pre_free s ob))) by (eapply nth_some_lt; eassumption).
    destruct (Nat.eq_dec o x) as [<-|Hn].
    + rewrite nth_upd_eq by assumption. rewrite E. cbn [dead_of otag]. destruct Sh as (Tg & _). rewrite Tg. reflexivity.
    + rewrite nth_upd_neq by assumption. destruct Shr as [Ln Hs].
      destruct (nth_error (hp s) x) as [a|] eqn:Ea.
      * destruct (Hs _ _ Ea) as (b & -> & (Tg & _)). rewrite Tg. reflexivity.
      * apply nth_error_None in Ea. assert (Eb : nth_error (fst (pre_free s ob)) x = None) by (apply nth_error_None; lia).
        rewrite Eb. reflexivity.
  - assert (Ho : o < length (hp s)) by (eapply nth_some_lt; eassumption).
    destruct (Nat.eq_dec o x) as [<-|Hn].
    + rewrite nth_upd_eq by assumption. rewrite E. reflexivity.
    + rewrite nth_upd_neq by assumption. reflexivity.
Qed.

Lemma run_tag fuel : forall s todo x, tag_of (hp (fst (run_release fuel s todo))) x = tag_of (hp s) x.
Proof.
  induction fuel as [|f IH]; intros s todo x; destruct todo as [|o r]; cbn [run_release fst]; try reflexivity.
  rewrite IH. apply step_tag.
Qed.

Lemma release_all_tag s roots x : tag_of (hp (release_all s roots)) x = tag_of (hp s) x.
Proof. apply run_tag. Qed.

(* every object is in the destructor log exactly once *)
Theorem freed_exactly_once s roots : good false s roots ->
  forall o, o < length (hp s) -> cnt o (freed (release_all s roots)) = 1.
Proof.
  intros G o Ho. destruct (nth_lt_some _ _ Ho) as (ob0 & E0).
  assert (Ht : tag_of (hp s) o = Some (otag ob0)) by (unfold tag_of; rewrite E0; reflexivity). pose proof (good_release_all _ _ _ G) as [I' _ _].
  rewrite <- (release_all_tag s roots) in Ht. unfold tag_of in Ht.
  destruct (nth_error (hp (release_all s roots)) o) as [ob|] eqn:E; [|discriminate].
  assert (Hin : In o (freed (release_all s roots))).
  { apply (i_freed _ _ I'). exists ob. split; [assumption|]. exact (all_freed s roots G o ob E). }
  unfold cnt. apply (NoDup_count_occ' Nat.eq_dec); [apply (i_nodup _ _ I')|assumption].
Qed.

(* ---- releasing some handles while others are kept ---- *)
Theorem good_run_frame pin fuel : forall s todo extra, good pin s (todo ++ extra) ->
  good pin (fst (run_release fuel s todo)) (snd (run_release fuel s todo) ++ extra).
Proof.
  induction fuel as [|f IH]; intros s todo extra G; destruct todo as [|o r]; cbn [run_release fst snd]; try assumption.
  rewrite <- app_comm_cons in G. apply good_step in G. rewrite app_assoc in G. apply IH. assumption.
Qed.

Theorem good_release_frame pin s roots extra : good pin s (roots ++ extra) -> good pin (release_all s roots) extra.
Proof.
  intros G. unfold release_all. pose proof (good_run_frame pin (S (measure (hp s) roots)) s roots extra G) as H.
  rewrite run_release_done in H by lia. assumption.
Qed.

Lemma good_cnt_ext pin s R R' : good pin s R -> (forall o, cnt o R = cnt o R') -> good pin s R'.
Proof. intros [I T O] H. split; [eapply inv_cnt_ext; eassumption|assumption|assumption]. Qed.
