(* C20 -- the counting invariant of the release machine.

   [inv s todo]: every strong count equals the number of strong edges into the
   object plus the number of handles to it that are still waiting to be
   dropped; a freed object has count zero and no edges, a live one has a
   positive count; the destructor log lists exactly the freed objects, once
   each; no handle was ever released after the free.  It is preserved by every
   step, whatever the heap looks like otherwise (cycles included). *)
From Coq Require Import List NArith Arith Bool Lia.
From DesVerif Require Import Own.Heap Own.Frame.
Import ListNotations.

Lemma nodup_snoc {A} (l : list A) x : NoDup l -> ~ In x l -> NoDup (l ++ [x]).
Proof.
  induction l as [|y l IH]; intros Nd Hn; cbn [app]; [repeat constructor; intros []|].
  inversion Nd as [|y' l' Hy Nd']; subst. constructor.
  - rewrite in_app_iff. intros [H|[H|[]]]; [auto|]. apply Hn. left. congruence.
  - apply IH; [assumption|]. intros H. apply Hn. right. assumption.
Qed.

Definition rc_of (h : heap) (o : nat) : nat :=
  match nth_error h o with Some ob => rc ob | None => 0 end.

Definition dead_in (h : heap) (o : nat) : Prop :=
  exists ob, nth_error h o = Some ob /\ live ob = false.

Record inv (s : st) (todo : list nat) : Prop := {
  i_cnt : forall o, o < length (hp s) -> rc_of (hp s) o = cnt o (targets (hp s)) + cnt o todo;
  i_rng : forall o, In o (targets (hp s)) \/ In o todo -> o < length (hp s);
  i_dead : forall o ob, nth_error (hp s) o = Some ob -> live ob = false -> rc ob = 0 /\ strong ob = [];
  i_live : forall o ob, nth_error (hp s) o = Some ob -> live ob = true -> 1 <= rc ob;
  i_nodup : NoDup (freed s);
  i_freed : forall o, In o (freed s) <-> dead_in (hp s) o;
  i_bad : bad s = [] }.

(* ---- the free step, analysed once ---- *)
Definition pre_free (s : st) (ob : obj) : heap * list nat :=
  if is_ctx (otag ob) then dissolve_all (hp s) (map et (strong ob)) else (hp s, []).

Lemma pre_free_shr s ob : shr (hp s) (fst (pre_free s ob)).
Proof. unfold pre_free. destruct (is_ctx (otag ob)); [apply shr_dissolve_all|apply shr_refl]. Qed.

Lemma pre_free_cnt s ob o :
  cnt o (targets (hp s)) = cnt o (targets (fst (pre_free s ob))) + cnt o (snd (pre_free s ob)).
Proof. unfold pre_free. destruct (is_ctx (otag ob)); [apply cnt_dissolve_all|cbn [fst snd]; rewrite cnt_nil; lia]. Qed.

Lemma pre_free_len s ob :
  length (targets (hp s)) = length (targets (fst (pre_free s ob))) + length (snd (pre_free s ob)).
Proof. unfold pre_free. destruct (is_ctx (otag ob)); [apply len_dissolve_all|cbn [fst snd length]; lia]. Qed.

(* the three ways a step can go *)
Inductive step_kind (s : st) (o : nat) : st * list nat -> Prop :=
| SBad : (forall ob, nth_error (hp s) o = Some ob -> live ob = false \/ rc ob = 0) ->
         step_kind s o ({| hp := hp s; freed := freed s; bad := bad s ++ [o] |}, [])
| SFree ob ob1 : nth_error (hp s) o = Some ob -> live ob = true -> rc ob = 1 ->
         nth_error (fst (pre_free s ob)) o = Some ob1 -> shrunk ob ob1 ->
         step_kind s o ({| hp := upd (fst (pre_free s ob)) o (dead_of ob1); freed := freed s ++ [o]; bad := bad s |},
                        snd (pre_free s ob) ++ tg ob1)
| SDec ob : nth_error (hp s) o = Some ob -> live ob = true -> 2 <= rc ob ->
         step_kind s o ({| hp := upd (hp s) o (set_rc ob (rc ob - 1)); freed := freed s; bad := bad s |}, []).

Lemma step_cases s o : step_kind s o (step s o).
Proof.
  unfold step. destruct (nth_error (hp s) o) as [ob|] eqn:E.
  - destruct (negb (live ob) || (rc ob =? 0)) eqn:B.
    + apply SBad. intros ob' H. assert (ob' = ob) by congruence. subst ob'.
      apply orb_true_iff in B. destruct B as [B|B]; [left; destruct (live ob); [discriminate|reflexivity]|right; apply Nat.eqb_eq; assumption].
    + apply orb_false_iff in B. destruct B as [B1 B2]. apply negb_false_iff in B1. apply Nat.eqb_neq in B2.
      destruct (rc ob =? 1) eqn:B3.
      * apply Nat.eqb_eq in B3. fold (pre_free s ob).
        destruct (pre_free_shr s ob) as [_ Hs]. destruct (Hs _ _ E) as (ob1 & E1 & Sh). rewrite E1.
        eapply SFree; eassumption.
      * apply Nat.eqb_neq in B3. apply SDec; [assumption|assumption|lia].
  - apply SBad. intros ob H. congruence.
Qed.

Lemma in_le_cnt (a b : list nat) : (forall x, cnt x a <= cnt x b) -> forall x, In x a -> In x b.
Proof. intros H x Hx. apply cnt_pos_in. apply cnt_pos_in in Hx. specialize (H x). lia. Qed.

Lemma tg_dead ob : tg (dead_of ob) = [].
Proof. reflexivity. Qed.
Lemma tg_set_rc ob n : tg (set_rc ob n) = tg ob.
Proof. reflexivity. Qed.

Lemma rc_of_upd_eq h o ob : o < length h -> rc_of (upd h o ob) o = rc ob.
Proof. intros H. unfold rc_of. rewrite nth_upd_eq by assumption. reflexivity. Qed.
Lemma rc_of_upd_neq h o x ob : o <> x -> rc_of (upd h o ob) x = rc_of h x.
Proof. intros H. unfold rc_of. rewrite nth_upd_neq by assumption. reflexivity. Qed.

Lemma rc_of_shr h h' x : shr h h' -> rc_of h' x = rc_of h x.
Proof.
  intros [L H]. unfold rc_of. destruct (nth_error h x) as [a|] eqn:E.
  - destruct (H _ _ E) as (b & -> & (_ & R & _)). assumption.
  - apply nth_error_None in E. assert (E' : nth_error h' x = None) by (apply nth_error_None; lia). rewrite E'. reflexivity.
Qed.

Lemma plain_nil ob : strong ob = [] -> plain_edges ob = [].
Proof. unfold plain_edges. intros ->. reflexivity. Qed.

Theorem inv_step s o r : inv s (o :: r) -> inv (fst (step s o)) (snd (step s o) ++ r).
Proof.
  intros I. destruct I as [Icnt Irng Idead Ilive Ind Ifr Ibad].
  assert (Ho : o < length (hp s)) by (apply Irng; right; left; reflexivity).
  destruct (nth_lt_some _ _ Ho) as (ob & E).
  assert (Hrc : rc ob = cnt o (targets (hp s)) + S (cnt o r)).
  { specialize (Icnt o Ho). unfold rc_of in Icnt. rewrite E, cnt_cons_eq in Icnt. lia. }
  assert (Hlive : live ob = true).
  { destruct (live ob) eqn:L; [reflexivity|]. destruct (Idead _ _ E L). lia. }
  destruct (step_cases s o) as [Hb|ob' ob1 E' L' R1 E1 Sh|ob' E' L' R2]; cbn [fst snd].
  - exfalso. destruct (Hb _ E) as [H|H]; [congruence|lia].
  - assert (ob' = ob) by congruence. subst ob'. clear E' L'.
    set (h1 := fst (pre_free s ob)) in *. set (rel := snd (pre_free s ob)) in *.
    pose proof (pre_free_shr s ob) as Shr. fold h1 in Shr.
    assert (L1 : length h1 = length (hp s)) by apply Shr.
    assert (Ho1 : o < length h1) by lia.
    assert (C1 : forall x, cnt x (targets (hp s)) = cnt x (targets h1) + cnt x rel) by (intros x; apply pre_free_cnt).
    assert (C2 : forall x, cnt x (targets (upd h1 o (dead_of ob1))) + cnt x (tg ob1) = cnt x (targets h1)).
    { intros x. pose proof (cnt_targets_upd x h1 o ob1 (dead_of ob1) E1) as H. rewrite tg_dead, cnt_nil in H. lia. }
    constructor; cbn [hp freed bad].
    + intros x Hx. rewrite upd_length in Hx. rewrite !cnt_app. specialize (C1 x). specialize (C2 x).
      destruct (Nat.eq_dec o x) as [<-|Hn].
      * rewrite rc_of_upd_eq by assumption. cbn [dead_of rc]. lia.
      * rewrite rc_of_upd_neq by assumption. rewrite (rc_of_shr _ _ x Shr).
        rewrite Icnt by lia. rewrite cnt_cons_neq by assumption. lia.
    + intros x Hx. rewrite upd_length, L1. apply Irng.
      destruct Hx as [Hx|Hx].
      * left. revert x Hx. apply in_le_cnt. intros x. specialize (C1 x). specialize (C2 x). lia.
      * apply in_app_or in Hx. destruct Hx as [Hx|Hx]; [|right; right; assumption].
        left. revert x Hx. apply in_le_cnt. intros x. specialize (C1 x). specialize (C2 x). rewrite cnt_app. lia.
    + intros x b Hb Lb. destruct (Nat.eq_dec o x) as [<-|Hn].
      * rewrite nth_upd_eq in Hb by assumption. injection Hb as <-. cbn [dead_of rc strong]. auto.
      * rewrite nth_upd_neq in Hb by assumption.
        destruct Shr as [_ Hs]. assert (Hx : x < length (hp s)) by (rewrite <- L1; eapply nth_some_lt; eassumption).
        destruct (nth_lt_some _ _ Hx) as (a & Ea). destruct (Hs _ _ Ea) as (b' & Eb' & (T & Rr & Ll & W & St)).
        assert (b' = b) by congruence. subst b'.
        destruct (Idead _ _ Ea) as [Ra Sa]; [congruence|]. split; [congruence|].
        destruct St as [St|St]; rewrite St; [assumption|apply plain_nil; assumption].
    + intros x b Hb Lb. destruct (Nat.eq_dec o x) as [<-|Hn].
      * rewrite nth_upd_eq in Hb by assumption. injection Hb as <-. discriminate.
      * rewrite nth_upd_neq in Hb by assumption.
        destruct Shr as [_ Hs]. assert (Hx : x < length (hp s)) by (rewrite <- L1; eapply nth_some_lt; eassumption).
        destruct (nth_lt_some _ _ Hx) as (a & Ea). destruct (Hs _ _ Ea) as (b' & Eb' & (T & Rr & Ll & W & St)).
        assert (b' = b) by congruence. subst b'. rewrite Rr. apply (Ilive _ _ Ea). congruence.
    + apply nodup_snoc; [assumption|].
      intros Hx. apply Ifr in Hx. destruct Hx as (a & Ea & La). congruence.
    + intros x. rewrite in_app_iff. unfold dead_in. destruct (Nat.eq_dec o x) as [<-|Hn].
      * split; [intros _|intros _; right; left; reflexivity].
        exists (dead_of ob1). rewrite nth_upd_eq by assumption. auto.
      * rewrite nth_upd_neq by assumption. rewrite Ifr. unfold dead_in.
        destruct Shr as [_ Hs]. split.
        -- intros [(a & Ea & La)|[H|[]]]; [|congruence].
           destruct (Hs _ _ Ea) as (b & Eb & (T & Rr & Ll & W & St)). exists b. split; [assumption|congruence].
        -- intros (b & Eb & Lb). left.
           assert (Hx : x < length (hp s)) by (rewrite <- L1; eapply nth_some_lt; eassumption).
           destruct (nth_lt_some _ _ Hx) as (a & Ea). destruct (Hs _ _ Ea) as (b' & Eb' & (T & Rr & Ll & W & St)).
           exists a. split; [assumption|congruence].
    + assumption.
  - assert (ob' = ob) by congruence. subst ob'. clear E' L'. rewrite app_nil_l.
    assert (C2 : forall x, cnt x (targets (upd (hp s) o (set_rc ob (rc ob - 1)))) = cnt x (targets (hp s))).
    { intros x. pose proof (cnt_targets_upd x (hp s) o ob (set_rc ob (rc ob - 1)) E) as H. rewrite tg_set_rc in H. lia. }
    constructor; cbn [hp freed bad].
    + intros x Hx. rewrite upd_length in Hx. rewrite C2. destruct (Nat.eq_dec o x) as [<-|Hn].
      * rewrite rc_of_upd_eq by assumption. cbn [set_rc rc]. lia.
      * rewrite rc_of_upd_neq by assumption. rewrite Icnt by assumption. rewrite cnt_cons_neq by assumption. reflexivity.
    + intros x Hx. rewrite upd_length. apply Irng. destruct Hx as [Hx|Hx]; [left|right; right; assumption].
      revert x Hx. apply in_le_cnt. intros x. rewrite C2. lia.
    + intros x b Hb Lb. destruct (Nat.eq_dec o x) as [<-|Hn].
      * rewrite nth_upd_eq in Hb by assumption. injection Hb as <-. cbn [set_rc live] in Lb. congruence.
      * rewrite nth_upd_neq in Hb by assumption. eapply Idead; eassumption.
    + intros x b Hb Lb. destruct (Nat.eq_dec o x) as [<-|Hn].
      * rewrite nth_upd_eq in Hb by assumption. injection Hb as <-. cbn [set_rc rc]. lia.
      * rewrite nth_upd_neq in Hb by assumption. eapply Ilive; eassumption.
    + assumption.
    + intros x. rewrite Ifr. unfold dead_in. destruct (Nat.eq_dec o x) as [<-|Hn].
      * rewrite nth_upd_eq by assumption. split; intros (a & Ea & La).
        -- congruence.
        -- injection Ea as <-. cbn [set_rc live] in La. congruence.
      * rewrite nth_upd_neq by assumption. reflexivity.
    + assumption.
Qed.

Theorem inv_run fuel : forall s todo, inv s todo ->
  inv (fst (run_release fuel s todo)) (snd (run_release fuel s todo)).
Proof.
  induction fuel as [|f IH]; intros s todo I; destruct todo as [|o r]; cbn [run_release fst snd]; try assumption.
  apply IH. apply inv_step. assumption.
Qed.

(* ---- the machine stops: the measure decreases with every step ---- *)
Lemma live_total_upd h i ob ob' : nth_error h i = Some ob ->
  live_total (upd h i ob') + (if live ob then 1 else 0) = live_total h + (if live ob' then 1 else 0).
Proof.
  revert i; induction h as [|y h IH]; intros [|i] H; cbn [nth_error upd live_total fold_right] in H |- *; try discriminate.
  - injection H as ->. lia.
  - specialize (IH _ H). unfold live_total in IH. lia.
Qed.

Lemma live_total_shr : forall h h', shr h h' -> live_total h' = live_total h.
Proof.
  induction h as [|a h IH]; intros [|b h'] [L H]; cbn [length] in L; try discriminate; [reflexivity|].
  cbn [live_total fold_right]. fold (live_total h') (live_total h).
  destruct (H 0 a eq_refl) as (b' & Eb & (_ & _ & Ll & _)). cbn [nth_error] in Eb. injection Eb as <-.
  rewrite Ll. f_equal. apply IH. split; [lia|]. intros i x Hx. apply (H (S i) x Hx).
Qed.

Lemma step_measure s o r :
  measure (hp (fst (step s o))) (snd (step s o) ++ r) < measure (hp s) (o :: r).
Proof.
  unfold measure. destruct (step_cases s o) as [Hb|ob ob1 E L R1 E1 Sh|ob E L R2]; cbn [fst snd hp app length].
  - lia.
  - pose proof (pre_free_len s ob) as H1. pose proof (pre_free_shr s ob) as Shr.
    pose proof (live_total_shr _ _ Shr) as H2.
    pose proof (len_targets_upd _ _ _ (dead_of ob1) E1) as H3. rewrite tg_dead in H3. cbn [length] in H3.
    pose proof (live_total_upd _ _ _ (dead_of ob1) E1) as H4. cbn [dead_of live] in H4.
    destruct Sh as (_ & _ & Ll & _). rewrite Ll, L in H4. rewrite !app_length. lia.
  - pose proof (len_targets_upd _ _ _ (set_rc ob (rc ob - 1)) E) as H3. rewrite tg_set_rc in H3.
    pose proof (live_total_upd _ _ _ (set_rc ob (rc ob - 1)) E) as H4. cbn [set_rc live] in H4. lia.
Qed.

Lemma run_release_done fuel : forall s todo, measure (hp s) todo < fuel -> snd (run_release fuel s todo) = [].
Proof.
  induction fuel as [|f IH]; intros s todo H; [lia|].
  destruct todo as [|o r]; cbn [run_release snd]; [reflexivity|].
  apply IH. pose proof (step_measure s o r). lia.
Qed.

Theorem release_all_inv s roots : inv s roots -> inv (release_all s roots) [].
Proof.
  intros I. unfold release_all. pose proof (inv_run (S (measure (hp s) roots)) s roots I) as H.
  rewrite run_release_done in H by lia. assumption.
Qed.

(* ---- at most once, for every heap and every release sequence ----
   Whatever the counts and edges are (consistent or not), a log that starts
   out listing only freed objects, each once, stays that way. *)
Definition log_ok (s : st) : Prop :=
  NoDup (freed s) /\ forall o, In o (freed s) -> is_live (hp s) o = false.

Lemma is_live_shr h h' x : shr h h' -> is_live h' x = is_live h x.
Proof.
  intros [L H]. unfold is_live. destruct (nth_error h x) as [a|] eqn:E.
  - destruct (H _ _ E) as (b & -> & (_ & _ & Ll & _)). assumption.
  - apply nth_error_None in E. assert (E' : nth_error h' x = None) by (apply nth_error_None; lia). rewrite E'. reflexivity.
Qed.

Lemma log_ok_step s o : log_ok s -> log_ok (fst (step s o)).
Proof.
  intros [Nd Hd]. destruct (step_cases s o) as [Hb|ob ob1 E L R1 E1 Sh|ob E L R2]; cbn [fst]; split; cbn [hp freed]; try assumption.
  - apply nodup_snoc; [assumption|].
    intros Hx. apply Hd in Hx. unfold is_live in Hx. rewrite E in Hx. congruence.
  - pose proof (pre_free_shr s ob) as Shr. assert (Ho1 : o < length (fst (pre_free s ob))) by (eapply nth_some_lt; eassumption).
    intros x Hx. unfold is_live. destruct (Nat.eq_dec o x) as [<-|Hn].
    + rewrite nth_upd_eq by assumption. reflexivity.
    + rewrite nth_upd_neq by assumption. fold (is_live (fst (pre_free s ob)) x). rewrite (is_live_shr _ _ x Shr).
      apply in_app_or in Hx. destruct Hx as [Hx|[Hx|[]]]; [auto|congruence].
  - intros x Hx. unfold is_live. destruct (Nat.eq_dec o x) as [<-|Hn].
    + apply Hd in Hx. unfold is_live in Hx. rewrite E in Hx. congruence.
    + rewrite nth_upd_neq by assumption. apply Hd. assumption.
Qed.

Theorem freed_at_most_once_any fuel : forall s todo, log_ok s -> log_ok (fst (run_release fuel s todo)).
Proof.
  induction fuel as [|f IH]; intros s todo H; destruct todo as [|o r]; cbn [run_release fst]; try assumption.
  apply IH. apply log_ok_step. assumption.
Qed.

(* ---- releasing some handles while others are kept ---- *)
Theorem inv_run_frame fuel : forall s todo extra, inv s (todo ++ extra) ->
  inv (fst (run_release fuel s todo)) (snd (run_release fuel s todo) ++ extra).
Proof.
  induction fuel as [|f IH]; intros s todo extra I; destruct todo as [|o r]; cbn [run_release fst snd]; try assumption.
  rewrite <- app_comm_cons in I. apply inv_step in I. rewrite app_assoc in I. apply IH. assumption.
Qed.

Lemma inv_cnt_ext s R R' : inv s R -> (forall o, cnt o R = cnt o R') -> inv s R'.
Proof.
  intros [A B C D E F G] H. constructor; try assumption.
  - intros o Ho. rewrite <- H. apply A. assumption.
  - intros o [Ho|Ho]; apply B; [left; assumption|right]. apply cnt_pos_in. rewrite H. apply cnt_pos_in. assumption.
Qed.
